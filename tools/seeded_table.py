#!/usr/bin/env python3
"""Regenerate the seeded-changes table in DESIGN.md from seeded/RESULTS.json and the meta files."""
import json, os
V = os.path.dirname(os.path.dirname(os.path.abspath(__file__)))
res = json.load(open(os.path.join(V, 'seeded', 'RESULTS.json')))
rows = ['| seed | what was changed (needs) | reported by the target property\'s check | also reported by |', '|---|---|---|---|']
miss = []
for k in sorted(res):
    r = res[k]
    m = json.load(open(os.path.join(V, 'seeded', k, 'meta.json')))
    summ = (m.get('summary') or '').replace('|', '/').replace('\n', ' ')
    needs = (m.get('needs') or '').replace('|', '/').replace('\n', ' ')
    if len(summ) > 230: summ = summ[:227] + '...'
    if len(needs) > 160: needs = needs[:157] + '...'
    cb = r.get('caught_by', {})
    t = r.get('target_property')
    own = ', '.join(cb.get(t, [])) if t in cb else '**not reported**'
    if t not in cb:
        miss.append(k)
    others = ', '.join('%s(%s)' % (p, '/'.join(v[:2])) for p, v in sorted(cb.items()) if p != t)
    rows.append('| %s | %s (needs: %s) | %s | %s |' % (k, summ, needs, own, others or '-'))
n = len(res)
caught_any = sum(1 for r in res.values() if r.get('caught_by'))
caught_own = sum(1 for r in res.values() if r.get('caught_by_target'))
head = '%d seeded changes; %d reported by at least one check, %d by the check of the property they were written against.%s\n\n' % (
    n, caught_any, caught_own, (' Not reported by their own property\'s check: ' + ', '.join(miss) + '.') if miss else '')
p = os.path.join(V, 'DESIGN.md')
s = open(p).read()
a = s.index('<!-- SEEDED-TABLE-BEGIN -->') + len('<!-- SEEDED-TABLE-BEGIN -->')
b = s.index('<!-- SEEDED-TABLE-END -->')
s = s[:a] + '\n' + head + '\n'.join(rows) + '\n' + s[b:]
open(p, 'w').write(s)
print(head)
