#!/usr/bin/env python3
"""Apply each seeded change to /repo (git apply), run every quick check, undo (git checkout -- .); record which checks report it.
Writes seeded/RESULTS.json and the 'caught_by' field of each seeded/<id>/meta.json."""
import json, os, subprocess, sys
V = os.path.dirname(os.path.dirname(os.path.abspath(__file__)))
props = ['C%02d' % i for i in range(1, 21)]
only = sys.argv[1:]
res = {}
rp = os.path.join(V, 'seeded', 'RESULTS.json')
if os.path.exists(rp):
    res = json.load(open(rp))
assert subprocess.run(['git', '-C', '/repo', 'status', '--porcelain', '--untracked-files=no'], capture_output=True, text=True).stdout.strip() == '', '/repo not clean'
for d in sorted(os.listdir(os.path.join(V, 'seeded'))):
    sd = os.path.join(V, 'seeded', d)
    if not os.path.isdir(sd) or (only and d not in only):
        continue
    patch = os.path.join(sd, 'patch.diff')
    r = subprocess.run(['git', '-C', '/repo', 'apply', patch], capture_output=True, text=True)
    if r.returncode != 0:
        res[d] = {'error': 'patch does not apply: ' + r.stderr[-300:]}
        continue
    caught = {}
    try:
        env = dict(os.environ, VERIF_NO_EVIDENCE='1')
        for p in props:
            o = subprocess.run([os.path.join(V, 'check'), p, 'quick'], capture_output=True, text=True, env=env, cwd=V)
            lines = [l for l in o.stdout.splitlines() if 'rule=' in l]
            if o.returncode == 1:
                insts = sorted({l.split('  ')[1].split('.', 1)[1] if '  ' in l else '?' for l in lines})
                caught[p] = insts
            elif o.returncode != 0:
                caught[p] = ['INFRA exit %d: %s' % (o.returncode, (o.stderr or o.stdout)[-200:])]
    finally:
        subprocess.run(['git', '-C', '/repo', 'checkout', '--', '.'])
    target = d.split('_')[0]
    res[d] = {'target_property': target, 'caught_by': caught, 'caught_by_target': target in caught}
    print(d, 'target', target, 'caught by', {k: v[:3] for k, v in caught.items()}, flush=True)
    mp = os.path.join(sd, 'meta.json')
    m = json.load(open(mp))
    m['checks_run'] = 'git -C /repo apply seeded/%s/patch.diff; ./check Cxx quick for all 20 properties; git -C /repo checkout -- .' % d
    m['caught_by'] = caught
    json.dump(m, open(mp, 'w'), indent=1)
    json.dump(res, open(rp, 'w'), indent=1, sort_keys=True)
