#!/usr/bin/env python3
"""Parallel variant of run_seeded.py: each seeded change is applied to a scratch copy of /repo (VERIF_REPO), all 20 quick checks are
run against it, results go to seeded/RESULTS.json and the 'caught_by' field of each meta.json.  (run_seeded.py does the same by
`git -C /repo apply` / `git -C /repo checkout -- .`, one seed at a time.)"""
import json, os, subprocess, sys, shutil, tempfile
from concurrent.futures import ThreadPoolExecutor
V = os.path.dirname(os.path.dirname(os.path.abspath(__file__)))
props = ['C%02d' % i for i in range(1, 21)]
only = [a for a in sys.argv[1:] if not a.startswith('-')]
rp = os.path.join(V, 'seeded', 'RESULTS.json')
res = json.load(open(rp)) if os.path.exists(rp) else {}
seeds = [d for d in sorted(os.listdir(os.path.join(V, 'seeded'))) if os.path.isdir(os.path.join(V, 'seeded', d)) and (not only or d in only)]

def run(d):
    sd = os.path.join(V, 'seeded', d)
    tmp = tempfile.mkdtemp(prefix='envstat_seed_')
    try:
        repo = os.path.join(tmp, 'repo')
        os.makedirs(repo)
        shutil.copytree('/repo/src', os.path.join(repo, 'src'))
        for fn in ('Cargo.toml', 'Cargo.lock'):
            shutil.copy(os.path.join('/repo', fn), os.path.join(repo, fn))
        subprocess.run(['git', 'init', '-q', '.'], cwd=repo)
        r = subprocess.run(['git', 'apply', os.path.join(sd, 'patch.diff')], cwd=repo, capture_output=True, text=True)
        if r.returncode != 0:
            return d, {'error': 'patch does not apply: ' + r.stderr[-300:]}
        caught = {}
        env = dict(os.environ, VERIF_NO_EVIDENCE='1', VERIF_REPO=repo)
        for p in props:
            o = subprocess.run([os.path.join(V, 'check'), p, 'quick'], capture_output=True, text=True, env=env, cwd=V)
            lines = [l for l in o.stdout.splitlines() if 'rule=' in l]
            if o.returncode == 1:
                caught[p] = sorted({l.split('  ')[1].split('.', 1)[1] if '  ' in l else '?' for l in lines})
            elif o.returncode != 0:
                caught[p] = ['INFRA exit %d: %s' % (o.returncode, (o.stderr or o.stdout)[-200:])]
        target = d.split('_')[0]
        return d, {'target_property': target, 'caught_by': caught, 'caught_by_target': target in caught}
    finally:
        shutil.rmtree(tmp, ignore_errors=True)

with ThreadPoolExecutor(max_workers=int(os.environ.get('JOBS', '6'))) as ex:
    for d, r in ex.map(run, seeds):
        res[d] = r
        print(d, 'target', r.get('target_property'), 'caught by', {k: v[:3] for k, v in r.get('caught_by', {}).items()}, flush=True)
        if 'caught_by' in r:
            mp = os.path.join(V, 'seeded', d, 'meta.json')
            m = json.load(open(mp))
            m['checks_run'] = 'seeded/%s/patch.diff applied to a copy of /repo (equivalently: git -C /repo apply ..; ./check Cxx quick for all 20 properties; git -C /repo checkout -- .)' % d
            m['caught_by'] = r['caught_by']
            json.dump(m, open(mp, 'w'), indent=1)
        json.dump(res, open(rp, 'w'), indent=1, sort_keys=True)
