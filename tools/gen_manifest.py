#!/usr/bin/env python3
"""Regenerate MANIFEST.json from the property modules present under envstat/props."""
import json, os, sys, importlib
V = os.path.dirname(os.path.dirname(os.path.abspath(__file__)))
sys.path.insert(0, V)
TECH = {
 'C01': 'construction-site census + value-provenance formula check on MIR (WHO/FLOW/REC/TYPE)',
 'C02': 'sink census + payload/declared-digest pairing + recursion-rebuild shape on MIR (WHO/FLOW/REC)',
 'C03': 'finite valuation of the target test + recursion completeness + guard dominance on MIR (TABLE/REC/GUARD)',
 'C04': 'who-may-construct census over node construction sites with guard dominance and truth tables (WHO/GUARD/TABLE)',
 'C05': 'writer/reader shape-table extraction and inverse check across crate and dependency MIR (CODEC/FLOW)',
 'C06': 'accept-exit guard dominance, finite valuation of arity tests, strict-order idiom check (GUARD/CODEC/WHO/PANIC) + error discipline (ERRFLOW) + decoder-side element validity',
 'C07': 'hash-iteration-order taint into ordered sinks + receiver immutability + wrap/unwrap inverse (ORDER/TYPE/FLOW)',
 'C08': 'accept-exit guard dominance and wiring terms for symmetric decrypt; sink pairing (GUARD/FLOW)',
 'C09': 'sign/verify message symmetry, single verification primitive census, accept-exit guard dominance, threshold ordering table (FLOW/WHO/GUARD/TABLE) + error discipline (ERRFLOW)',
 'C10': 'content-key flow to subject and every recipient, writer/reader agreement, accept-exit guards (FLOW/CODEC/GUARD) + error discipline (ERRFLOW)',
 'C11': 'split/join wiring terms, grouping by identifier, failure-exit classification (FLOW/GUARD) + error discipline (ERRFLOW)',
 'C12': 'guard dominance of both confirmation conjuncts, proof composition terms, recursion completeness (GUARD/FLOW/REC)',
 'C13': 'sink pairing, accept-exit guard dominance, per-arm refusal/idempotence check (FLOW/GUARD) + error discipline (ERRFLOW)',
 'C14': 'finite valuation of the identity test, marker-injectivity table, post-dominance of the digest append (TABLE/FLOW)',
 'C15': 'recursion completeness and context-argument check for both walks, ordering/truth tables for queries (REC/TABLE/FLOW) + error discipline (ERRFLOW)',
 'C16': 'ledger of every panic-capable MIR site, each discharged by a named dominance/dataflow rule (PANIC)',
 'C17': 'salting wiring terms, RNG-source census, salted-flag truth table (FLOW/TABLE/WHO)',
 'C18': 'writer/reader field tables for expression types, exactly-one-of truth table, tag/function guards (CODEC/TABLE/GUARD) + error discipline (ERRFLOW)',
 'C19': 'attachment writer/reader tables, validation guard dominance, 32-row filter truth table (CODEC/GUARD/TABLE) + error discipline (ERRFLOW)',
 'C20': 'lock-order graph from guard live ranges with Once gating, panic-under-guard check, Send/Sync compile witnesses (LOCK/TYPE) + statics census + declared lock hierarchy',
}
LEVEL_TEXT = ('Static rule checking over the compiler\'s resolved MIR of the current /repo tree (custom rustc_private driver + rule '
              'engine): sound for the named structural clauses (each a necessary condition of the property, universal over all '
              'inputs/paths) under the stated trusted base; the library is never executed. The behavioural remainder that depends on '
              'runtime values or on the dependencies\' own code is listed in level_note and DESIGN.md. A verdict is taken over a ladder of '
              'behaviour-preserving representations of the same source (as written; private helpers inlined; iterator chains lowered to loops): '
              'the rules are sound for whichever they are given, so a pass on any of them is a pass (DESIGN.md section 12a).')
REASONS = {}
def main():
    props = [json.loads(l) for l in open(os.path.join(V, 'properties.jsonl'))]
    checks = []
    na = []
    for p in props:
        pid = p['id']
        path = os.path.join(V, 'envstat', 'props', pid + '.py')
        if not os.path.exists(path):
            na.append({'property_id': pid, 'reason': REASONS.get(pid, 'check not built yet in this session (work in progress; see DESIGN.md section 6 for the planned clauses)')})
            continue
        mod = importlib.import_module('envstat.props.' + pid)
        expl = getattr(mod, 'EXPLANATION', '')
        dn = expl.split('Does not decide')
        note = ('Does not decide' + dn[1]) if len(dn) > 1 else 'see DESIGN.md section 6'
        note += ' Trusted base: ' + '; '.join(getattr(mod, 'TRUSTED', [])) + '; rustc nightly MIR construction and trait resolution; envstat normalisation tables.'
        checks.append({
            'property_id': pid,
            'quick_cmd': './check %s quick' % pid,
            'thorough_cmd': './check %s thorough' % pid,
            'evidence_file': 'evidence/%s.json' % pid,
            'replay_cmd_template': './check %s --replay {path}' % pid,
            'engine': 'envstat',
            'level_claimed': {'category': 'other', 'text': LEVEL_TEXT, 'design_ref': 'DESIGN.md section 6 (%s)' % pid},
            'level_note': note,
            'technique': 'static analysis: ' + TECH[pid],
        })
    m = {
        'version': 1,
        'setup_cmd': './setup.sh',
        'hooks': {
            'guard': 'bc_envelope_verif',
            'enable': 'none needed: nothing is instrumented or executed; every check analyses the MIR of /repo as built by `cargo +nightly check` through the envfacts driver',
            'baseline_off_cmd': 'cd /repo && (cargo nextest run --workspace --no-fail-fast --offline --test-threads 8 || cargo test --workspace --no-fail-fast --offline)',
            'source_commits': [],
            'add_only': True,
        },
        'engines': [
            {'name': 'envfacts', 'path': 'driver/', 'serves_properties': [c['property_id'] for c in checks], 'kind_free_text': 'rustc_private driver: resolved MIR + item/type facts as JSON'},
            {'name': 'envstat', 'path': 'envstat/', 'serves_properties': [c['property_id'] for c in checks], 'kind_free_text': 'Python rule engine: CFG/dominance, value-provenance terms, finite valuation tables, recursion completeness, codec tables, panic ledger, lock order'},
        ],
        'checks': checks,
        'notes': 'All checks decide their property by static analysis of the current /repo source (no execution). Genuine defects found are repaired by fix: commits in /repo and recorded in known_findings.json.',
        'not_applicable': na,
    }
    json.dump(m, open(os.path.join(V, 'MANIFEST.json'), 'w'), indent=1)
    print('checks:', [c['property_id'] for c in checks], 'not yet:', [n['property_id'] for n in na])
main()
