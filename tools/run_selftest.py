#!/usr/bin/env python3
"""Run the self-validation corpus for all properties (or the given ones) and print the summary. Uses envstat.core.self_validation."""
import sys, os, json
sys.path.insert(0, os.path.dirname(os.path.dirname(os.path.abspath(__file__))))
from envstat import core
props = sys.argv[1:] or ['C%02d' % i for i in range(1, 21)]
tot = {'killed': 0, 'survived': 0, 'silent': 0, 'noisy': 0, 'skipped': 0}
for p in props:
    r = core.self_validation(p)
    for k in tot:
        tot[k] += len(r[k])
    print(p, {k: len(v) for k, v in r.items()}, flush=True)
    for x in r['survived']:
        print('   SURVIVED', x['case'], flush=True)
    for x in r['noisy']:
        print('   NOISY', x['case'], x['instances'][:3], flush=True)
    for x in r['skipped']:
        print('   skipped', x, flush=True)
print('TOTAL', tot)
