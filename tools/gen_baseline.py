#!/usr/bin/env python3
"""Record the function paths of the pinned tree (used only to choose which private helpers the 'new-helpers' normal form inlines)."""
import json, os, sys
sys.path.insert(0, os.path.dirname(os.path.dirname(os.path.abspath(__file__))))
from envstat import extract, facts
fns = set()
for cfg in extract.CONFIGS:
    paths, th = extract.facts_paths(cfg, need_deps=False)
    F = facts.Facts(paths['bc_envelope'])
    for b in F.bodies:
        if b.dk in ('Fn', 'AssocFn'):
            fns.add(b.path)
out = os.path.join(extract.VERIF, 'baseline_functions.json')
json.dump({'note': 'function paths of the pinned tree over all feature configurations; informational (normal-form selection only)', 'functions': sorted(fns)}, open(out, 'w'), indent=0)
print(len(fns), 'functions')
