#!/usr/bin/env python3
"""Parallel self-validation: every mutant (selftest/mutants, seeded/) must be reported by the properties that expect it; every
behaviour-preserving refactor (selftest/refactors) must leave all 20 checks silent.  usage: selftest_par.py [mutants|refactors|seeded]... [-k substr]"""
import sys, os, json, shutil, subprocess, tempfile
from concurrent.futures import ThreadPoolExecutor
V = os.path.dirname(os.path.dirname(os.path.abspath(__file__)))
REPO = os.environ.get('BASE', '/repo')
ALL = ['C%02d' % i for i in range(1, 21)]
if os.environ.get('PROPS'):   # restrict the refactor runs to some properties (after a change local to them)
    ALL = os.environ['PROPS'].split(',')
args = [a for a in sys.argv[1:] if not a.startswith('-')]
filt = sys.argv[sys.argv.index('-k') + 1] if '-k' in sys.argv else ''
if filt in args:
    args.remove(filt)
kinds = args or ['mutants', 'refactors', 'seeded']
cases = []
if 'mutants' in kinds:
    idx = json.load(open(os.path.join(V, 'selftest/mutants/index.json')))
    for name, meta in sorted(idx.items()):
        cases.append(('mutant', name, os.path.join(V, 'selftest/mutants', name + '.patch'), bool(meta.get('reverse')), meta.get('expect', [])))
if 'seeded' in kinds:
    for d in sorted(os.listdir(os.path.join(V, 'seeded'))):
        p = os.path.join(V, 'seeded', d, 'patch.diff')
        if os.path.exists(p):
            cases.append(('mutant', 'seeded/' + d, p, False, [d.split('_')[0]]))
if 'refactors' in kinds:
    idx = json.load(open(os.path.join(V, 'selftest/refactors/index.json')))
    for name, meta in sorted(idx.items()):
        cases.append(('refactor', name, os.path.join(V, 'selftest/refactors', name + '.patch'), bool(meta.get('reverse')), ALL))
cases = [c for c in cases if filt.lower() in c[1].lower()]

def run(case):
    kind, name, patch, reverse, props = case
    tmp = tempfile.mkdtemp(prefix='envstat_st_')
    out = []
    try:
        repo = os.path.join(tmp, 'repo')
        os.makedirs(repo)
        shutil.copytree(os.path.join(REPO, 'src'), os.path.join(repo, 'src'))
        for fn in ('Cargo.toml', 'Cargo.lock'):
            shutil.copy(os.path.join(REPO, fn), os.path.join(repo, fn))
        subprocess.run(['git', 'init', '-q', '.'], cwd=repo)
        r = subprocess.run(['git', 'apply'] + (['-R'] if reverse else []) + ['-p1', patch], cwd=repo, capture_output=True, text=True)
        if r.returncode != 0:
            return [(kind, name, '*', 'SKIP patch does not apply')]
        env = dict(os.environ, VERIF_REPO=repo, VERIF_NO_EVIDENCE='1')
        for p in props:
            o = subprocess.run([os.path.join(V, 'check'), p, 'quick'], capture_output=True, text=True, env=env, cwd=V)
            if o.returncode not in (0, 1):
                out.append((kind, name, p, 'INFRA exit %d %s' % (o.returncode, (o.stderr or '')[-200:])))
                continue
            fired = o.returncode == 1
            insts = sorted({l.split('  ')[1] for l in o.stdout.splitlines() if 'rule=' in l and '  ' in l})
            if kind == 'mutant':
                out.append((kind, name, p, 'killed' if fired else 'SURVIVED', insts[:4]))
            else:
                out.append((kind, name, p, 'NOISY' if fired else 'silent', insts[:4]))
    finally:
        shutil.rmtree(tmp, ignore_errors=True)
    return out

tot = {}
with ThreadPoolExecutor(max_workers=int(os.environ.get('JOBS', '7'))) as ex:
    for res in ex.map(run, cases):
        for r in res:
            tot[r[3].split()[0]] = tot.get(r[3].split()[0], 0) + 1
            if r[3].split()[0] in ('SURVIVED', 'NOISY', 'INFRA', 'SKIP'):
                print(*r, flush=True)
print('TOTAL', tot)
