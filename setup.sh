#!/bin/sh
# Build the fact extractor (rustc_private driver). Offline, from files on disk only.
set -e
cd "$(dirname "$0")"
export CARGO_NET_OFFLINE=true
(cd driver && cargo build --release --offline 2>&1 | tail -3)
test -x driver/target/release/envfacts
echo "setup ok"
