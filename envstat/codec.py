"""CODEC helpers: writer/reader shape tables for the envelope encoder and decoder."""
from .lib import *
from .terms import TermBuilder

CBORCASE = 'dcbor::cbor::CBORCase'
INT_TYPES = {'u8', 'u16', 'u32', 'u64', 'usize'}


def find_impl_body(facts_list, trait_suffix, self_suffix, name):
    for F in facts_list:
        if F is None:
            continue
        r = F.trait_impl(trait_suffix, self_suffix, name)
        if len(r) == 1:
            return F, r[0]
    return None, None


def first_tag_of(facts_list, self_ty):
    """Tag value of `<self_ty as CBORTagged>::cbor_tags()[0]`."""
    suffix = self_ty.split('<')[0].split('::')[-1]
    F, b = find_impl_body(facts_list, 'CBORTagged', suffix, 'cbor_tags')
    if b is None:
        return None
    tb = TermBuilder(F, b)
    rt = tb.return_term()
    a = m_call(rt, name='tags_for_values')
    if a and a[0][0] in ('array', 'list') and a[0][1]:
        return const_int(a[0][1][0])
    return None


def cbor_shape(facts_list, t, depth=0):
    """Set of (kind, tag) a CBOR-valued term may have; None when it cannot be determined."""
    if depth > 6 or not isinstance(t, tuple) or not t:
        return None
    if t[0] == 'phi':
        out = set()
        for a in t[1]:
            s = cbor_shape(facts_list, a, depth + 1)
            if s is None:
                return None
            out |= s
        return out
    if t[0] == 'agg' and t[1] == CBORCASE:
        return {(t[2], None)}
    c = callee_of(t)
    if c is None:
        return None
    args = t[2]
    sp = strip_generics(c.path)
    if c.name == 'to_tagged_value':
        return {('Tagged', const_int(args[0]))}
    if c.name in ('to_byte_string', 'to_byte_string_from_hex'):
        return {('ByteString', None)}
    if c.name in ('into', 'from') and (c.is_trait_method('Into') or c.is_trait_method('From')):
        if c.is_trait_method('Into'):
            src = c.args[0] if c.args else ''
        else:
            src = c.args[1] if len(c.args) > 1 else ''
        src_h = src.strip().lstrip('&').strip()
        if src_h in INT_TYPES:
            return {('Unsigned', None)}
        if src_h == CBORCASE:
            return cbor_shape(facts_list, args[0], depth + 1)
        if src_h == 'dcbor::map::Map':
            return {('Map', None)}
        if src_h.startswith('alloc::vec::Vec<'):
            return {('Array', None)}
        if src_h in ('&str', 'str', 'alloc::string::String'):
            return {('Text', None)}
        # a user type with From<T> for CBOR
        suffix = src_h.split('<')[0].split('::')[-1]
        for F in facts_list:
            if F is None:
                continue
            for b in F.trait_impl('From', 'CBOR', 'from', trait_full_contains=src_h):
                tb = TermBuilder(F, b)
                return cbor_shape(facts_list, tb.return_term(), depth + 1)
        return None
    if c.name == 'tagged_cbor' and c.is_trait_method('CBORTaggedEncodable'):
        st = c.args[0] if c.args else (c.self_ty or '')
        tag = first_tag_of(facts_list, st)
        return {('Tagged', tag)}
    if c.name == 'untagged_cbor' and c.is_trait_method('CBORTaggedEncodable'):
        st = c.args[0] if c.args else (c.self_ty or '')
        suffix = st.split('<')[0].split('::')[-1]
        F, b = find_impl_body(facts_list, 'CBORTaggedEncodable', suffix, 'untagged_cbor')
        if b is None:
            return None
        tb = TermBuilder(F, b)
        return cbor_shape(facts_list, tb.return_term(), depth + 1)
    return None


def ctor_variants(F, t, depth=0, seen=None):
    """Set of EnvelopeCase variants a (success) value term may construct, following crate-local calls."""
    seen = seen or set()
    if depth > 12 or not isinstance(t, tuple) or not t:
        return None
    t = unwrap_try(t)
    if t[0] == 'phi':
        out = set()
        for a in t[1]:
            s = ctor_variants(F, a, depth + 1, seen)
            if s is None:
                return None
            out |= s
        return out
    if t[0] == 'agg' and t[1].endswith('Result') and t[2] == 'Ok':
        return ctor_variants(F, t[3][0], depth + 1, seen)
    if t[0] == 'agg' and t[1].endswith('Result') and t[2] == 'Err':
        return set()
    if m_call(t, name='from_residual') is not None:
        return set()
    w = is_case_ctor_wrapper(t)
    if w is not None:
        return {w[2]}
    c = callee_of(t)
    if c is None or t[0] != 'call':
        return None
    b = F.by_hash.get(c.best_hash)
    if b is None or b.path in seen:
        return None
    tb = TermBuilder(F, b)
    return ctor_variants(F, tb.return_term(), depth + 1, seen | {b.path})


def encoder_table(ctx, facts_list):
    """case -> set of (kind, tag), from the per-arm return value of `untagged_cbor`."""
    F = ctx.F
    impl = F.trait_impl('CBORTaggedEncodable', 'Envelope', 'untagged_cbor')
    if len(impl) != 1:
        return None, None, 'encoder impl not found'
    b = impl[0]
    tb = TermBuilder(F, b)
    sw = [x for x in switch_on(tb, b, lambda d: d[0] == 'discr' and m_call(d[1], name='case', self_suffix='Envelope') is not None)]
    if len(sw) != 1:
        return None, None, 'match on self.case() not found in encoder'
    sb, _ = sw[0]
    t = b.term(sb)
    variants = adt_variants(F, CASE)
    regions = arm_regions(b, sb)
    table = {}
    terms_by_case = {}
    problems = []
    if not block_is_unreachable(b, t['otherwise']):
        problems.append('encoder has a wildcard arm')
    tvals = dict((v, bb) for v, bb in t['targets'])
    for idx, vname in enumerate(variants):
        if idx not in tvals:
            problems.append('no encoder arm for %s' % vname)
            continue
        tgt, reg = regions[idx]
        rds = arm_ret_values(b, tb, sb, idx)
        if len(rds) != 1:
            problems.append('encoder arm %s has %d result definitions' % (vname, len(rds)))
            continue
        val = rds[0][2]
        terms_by_case[vname] = (val, ctx.site(b, rds[0][0], rds[0][1]), b, rds[0][0])
        sh = cbor_shape(facts_list, val)
        if sh is None:
            problems.append('cannot determine CBOR shape of encoder arm %s: %s' % (vname, fmt(val)))
            continue
        table[vname] = sh
    return table, terms_by_case, problems


def decoder_table(ctx):
    """(kind, tag) -> set of variants, plus accept sites with their arm, from `from_untagged_cbor`."""
    F = ctx.F
    impl = F.trait_impl('CBORTaggedDecodable', 'Envelope', 'from_untagged_cbor')
    if len(impl) != 1:
        return None
    b = impl[0]
    tb = TermBuilder(F, b)
    def is_case_discr(d):
        return d[0] == 'discr' and m_call(d[1], name='as_case') is not None and strip_sites(m_call(d[1], name='as_case')[0]) == ('param', 1)
    sw = [x for x in switch_on(tb, b, is_case_discr)]
    if len(sw) != 1:
        return None
    sb, _ = sw[0]
    kinds = foreign_variants(F, CBORCASE)
    if not kinds:
        return None
    regions = arm_regions(b, sb)
    accepts = accept_sites(b, tb)
    # tag switch
    def is_tag_value(d):
        a = m_call(d, name='value', self_suffix='Tag')
        return a is not None
    tsw = [x for x in switch_on(tb, b, is_tag_value)]
    out = {'body': b, 'tb': tb, 'switch': sb, 'kinds': kinds, 'accepts': [], 'table': {}, 'wild_accepts': [], 'problems': []}
    tag_regions = {}
    tag_block = None
    if len(tsw) == 1:
        tag_block = tsw[0][0]
        tag_regions = arm_regions(b, tag_block)
    elif len(tsw) > 1:
        out['problems'].append('several switches on the tag value')
    for bi, si, t in accepts:
        arm = None
        for val, (tgt, reg) in regions.items():
            if bi in reg:
                arm = val
        if arm is None or arm == 'otherwise':
            out['wild_accepts'].append((bi, si, t, 'wildcard arm of the CBOR-case match'))
            continue
        kind = kinds[arm] if isinstance(arm, int) and arm < len(kinds) else str(arm)
        tags = [None]
        if kind == 'Tagged':
            tags = []
            for val, (tgt, reg) in tag_regions.items():
                if bi in reg:
                    if val == 'otherwise':
                        out['wild_accepts'].append((bi, si, t, 'wildcard arm of the tag match'))
                    else:
                        tags.append(val)
            # several tag values may share one target block
            if tag_block is not None:
                tt = b.term(tag_block)
                shared = {}
                for val, bb in tt['targets']:
                    shared.setdefault(bb, []).append(val)
                more = []
                for tg in tags:
                    for bb, vals in shared.items():
                        if tg in vals:
                            more.extend(vals)
                tags = sorted(set(tags) | set(more))
            if not tags and not any(w[0] == bi for w in out['wild_accepts']):
                out['problems'].append('accept site at %s in the Tagged arm is not under a specific tag value' % b.line(bi, si))
        vs = ctor_variants(F, t)
        out['accepts'].append((bi, si, t, kind, tags, vs))
        for tg in tags:
            out['table'].setdefault((kind, tg), set())
            if vs is None:
                out['problems'].append('cannot determine which case the accept site at %s constructs: %s' % (b.line(bi, si), fmt(t)))
            else:
                out['table'][(kind, tg)] |= vs
    return out


def check_node_reader(ctx, inst, dec=None):
    """Reader side of C05.3: the node accept value is node(decode(elements[0]), map(decode, elements[1..]))."""
    F = ctx.F
    if dec is None:
        dec = decoder_table(ctx)
        if dec is None:
            ctx.lost(inst, 'decoder')
            return
    b = dec['body']
    for bi, si, t, kind, tags, vs in dec['accepts']:
        if kind != 'Array':
            continue
        t2 = unwrap_try(t[3][0]) if t[0] == 'agg' and t[2] == 'Ok' else unwrap_try(t)
        a = None
        c = callee_of(t2)
        if c is not None and len(t2[2]) == 2:
            a = t2[2]
        good = False
        if a is not None:
            s = m_call(unwrap_try(a[0]), name='from_untagged_cbor')
            # the assertion vector in sequence normal form: exactly one part, decode(e) for each e of elements[1..]
            parts = seq_norm(a[1], b, bi)
            if s is not None and parts is not None and len(parts) == 1 and parts[0][0] == 'each':
                ix = m_index(s[0])
                d = m_call(parts[0][1], name='from_untagged_cbor')
                if ix is not None and const_int(ix[1]) == 0 and d is not None and d[0][0] == 'elem':
                    ix2 = m_index(d[0][1])
                    if ix2 is not None and same(ix2[0], ix[0]) and ix2[1][0] == 'agg' and ix2[1][1].endswith('RangeFrom') and const_int(ix2[1][3][0]) == 1:
                        good = True
        if good:
            # the accept value, with thin wrappers expanded, must be the node aggregate over exactly these two values
            full = inline(F, t)
            w = is_case_ctor_wrapper(full)
            if w is None or w[2] != 'Node':
                good = False
                t2 = full
            else:
                fields = dict(zip(w[4], w[3]))
                srt = fields['assertions']
                base = srt[3][0] if srt[0] == 'mut' and call_name(srt) in ('sort_by', 'sort_unstable_by', 'sort_by_key') else srt
                if not (same(detry(fields['subject']), detry(a[0])) and same(detry(base), detry(a[1]))):
                    good = False
                    t2 = full
        if good:
            ctx.ok(inst, ctx.site(b, bi, si), 'reader: subject = decode(elements[0]); assertions = decode each of elements[1..] in order', sample=fmt(t2))
        else:
            ctx.fail(inst, ctx.site(b, bi, si), 'node reader is not (decode(elements[0]), map(decode, elements[1..])): %s' % fmt(t2), key='C05.3|reader')

