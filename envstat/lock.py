"""LOCK rule: lock-order graph over the process-wide lazily initialised stores (Once + Mutex<Option<T>>), with Once gating,
re-entrancy and panic-under-guard checks."""
from .lib import *
from .terms import TermBuilder
from .facts import Callee


def is_accessor(b):
    return b.name == 'get' and b.impl_self and 'Lazy' in b.impl_self.split('::')[-1] and 'MutexGuard' in b.local_ty(0)


def res_name(ty):
    n = ty.split('<')[0].split('::')[-1]
    return {'LazyFormatContext': 'FC', 'LazyKnownValues': 'KV', 'LazyFunctions': 'GF', 'LazyParameters': 'GP', 'LazyTagsStore': 'TAGS'}.get(n, n)


class LockGraph:
    def __init__(self, facts_list):
        self.facts = [f for f in facts_list if f is not None]
        self.by_hash = {}
        for F in self.facts:
            for b in F.bodies:
                self.by_hash[b.hash] = (F, b)
        self.accessors = {}          # hash -> resource name
        for F in self.facts:
            for b in F.bodies:
                if is_accessor(b):
                    self.accessors[b.hash] = res_name(b.impl_self)
        # summariser callbacks: closures coerced to dyn Fn and stored in tag stores (bc-components register_tags_in and this crate's register_tags_in)
        # summarisers registered into dcbor's GLOBAL_TAGS (bc-components only) vs. into the format context's own store (both crates)
        self.callbacks = {'global': [], 'context': []}
        for F in self.facts:
            for b in F.bodies:
                if b.name in ('register_tags_in',) and b.dk == 'Fn':
                    cl = F.closures_of(b)
                    self.callbacks['context'].extend(cl)
                    if F.krate != 'bc_envelope':
                        self.callbacks['global'].extend(cl)
        # direct locks of a store's own mutex field:  self.data.lock()
        self.direct_locks = {}
        self._acq = {}
        self._tb = {}

    def tb(self, F, b):
        k = b.path
        if k not in self._tb:
            self._tb[k] = TermBuilder(F, b)
        return self._tb[k]

    def lookup(self, c):
        if c is None:
            return None
        return self.by_hash.get(c.best_hash) or self.by_hash.get(c.hash)

    def callees(self, F, b, blocks=None, store='context'):
        """(block, (F', body')) for resolved calls, closures created and fn items passed, optionally restricted to blocks."""
        out = []
        for bi, bl in enumerate(b.blocks):
            if bl['cleanup'] or (blocks is not None and bi not in blocks):
                continue
            t = bl['term']
            if t and t['k'] == 'call':
                c = b.callee(bi)
                r = self.lookup(c)
                if r is not None:
                    out.append((bi, r, c))
                elif c is None or (c.name in ('call', 'call_mut', 'call_once') and c.rkind in ('virtual', None)):
                    # indirect call: may invoke any registered summariser callback
                    for cb in self.callbacks[store]:
                        out.append((bi, (self.F_of(cb), cb), None))
                for a in t['args']:
                    if a.get('k') == 'const' and 'fn' in a:
                        r2 = self.lookup(Callee(a['fn']))
                        if r2 is not None:
                            out.append((bi, r2, None))
            for st in bl['stmts']:
                if st['k'] == 'assign' and st['rv']['k'] == 'agg' and st['rv'].get('ak') == 'closure':
                    for F2 in self.facts:
                        cb = F2.by_path.get(st['rv']['closure'])
                        if cb is not None:
                            out.append((bi, (F2, cb), None))
        return out

    def F_of(self, b):
        return self.by_hash[b.hash][0]

    def mutex_field_lock(self, F, b, bi):
        """If the call at block bi is Mutex::lock(&X.data) on the data field of a lazy store, return the resource name."""
        c = b.callee(bi)
        if c is None or c.name != 'lock' or 'Mutex' not in strip_generics(c.path):
            return None
        a = strip_sites(self.tb(F, b).call_args(bi)[0])
        if a[0] == 'vfield' and a[3] == 'data':
            # owner: the accessor's self (param 1) or the captured self of its initialiser
            owner = b
            if b.dk == 'Closure' and b.closure_parent:
                for F2 in self.facts:
                    pb = F2.by_path.get(b.closure_parent)
                    if pb is not None:
                        owner = pb
            if owner.hash in self.accessors:
                return self.accessors[owner.hash]
            if owner.impl_self and 'Lazy' in owner.impl_self:
                return res_name(owner.impl_self)
        return None

    def acq(self, F, b, stack=(), store='context'):
        """Resources whose lock is (transitively) taken from body b: dict resource -> witness path (list of fn names)."""
        if (b.hash, store) in self._acq:
            return self._acq[(b.hash, store)]
        if b.hash in stack or len(stack) > 12:
            return {}
        res = {}
        if b.hash in self.accessors:
            res[self.accessors[b.hash]] = [b.path]
        for bi, c, t in b.calls():
            r = self.mutex_field_lock(F, b, bi)
            if r:
                res.setdefault(r, [b.path])
        for bi, (F2, cb), c in self.callees(F, b, store=store):
            if cb.hash in self.accessors:
                res.setdefault(self.accessors[cb.hash], [b.path, cb.path])
            sub = self.acq(F2, cb, stack + (b.hash,), store)
            for r, w in sub.items():
                res.setdefault(r, [b.path] + w)
        if not stack:
            self._acq[(b.hash, store)] = res
        return res

    def guard_live_blocks(self, b, bi):
        """Blocks in which the guard returned by the call at block bi is live (until dropped / moved out)."""
        t = b.term(bi)
        g = t['dest']['l'] if not t['dest']['p'] else None
        if g is None or t['t'] is None:
            return set(), True
        locals_ = {g}
        # follow plain moves of the guard
        changed = True
        while changed:
            changed = False
            for bl in b.blocks:
                for st in bl['stmts']:
                    if st['k'] == 'assign' and not st['place']['p'] and st['rv']['k'] == 'use' and st['rv']['op']['k'] == 'move' and not st['rv']['op']['place']['p'] and st['rv']['op']['place']['l'] in locals_:
                        if st['place']['l'] not in locals_:
                            locals_.add(st['place']['l'])
                            changed = True
        escapes = 0 in locals_
        drops = [i for i in b.normal_blocks() if (b.term(i) or {}).get('k') == 'drop' and not b.term(i)['place']['p'] and b.term(i)['place']['l'] in locals_]
        live = b.reachable(t['t'], removed_blocks=drops)
        # the drop blocks themselves end the range
        return live, escapes


def build(ctx, facts_list):
    """-> (graph, edges, problems). edge = dict(held, acquired, where, inside_once, witness)"""
    G = LockGraph(facts_list)
    edges = []
    live_ranges = []      # (F, body, acquisition block, resource, live blocks)
    for F in G.facts:
        for b in F.bodies:
            in_once = None
            # closures of an accessor = its call_once initialiser
            if b.dk == 'Closure' and b.closure_parent:
                for F2 in G.facts:
                    pb = F2.by_path.get(b.closure_parent)
                    if pb is not None and pb.hash in G.accessors:
                        in_once = G.accessors[pb.hash]
            for bi, c, t in b.calls():
                r = G.lookup(c)
                X = None
                if r is not None and r[1].hash in G.accessors:
                    X = G.accessors[r[1].hash]
                else:
                    X = G.mutex_field_lock(F, b, bi)
                    if X is not None and b.hash in G.accessors and t['dest']['l'] is not None:
                        # the accessor's own final lock is handed to the caller (that is what "acquire X.data" means)
                        live0, esc0 = G.guard_live_blocks(b, bi)
                if X is None:
                    continue
                live, escapes = G.guard_live_blocks(b, bi)
                live_ranges.append((F, b, bi, X, live, in_once))
                store = 'global' if X == 'TAGS' else 'context'
                for bj in sorted(live):
                    if bj == bi:
                        continue
                    Y = G.mutex_field_lock(F, b, bj) if (b.term(bj) or {}).get('k') == 'call' else None
                    if Y:
                        edges.append({'held': X + '.data', 'acq': Y + '.data', 'where': '%s in %s' % (b.line(bj), b.path), 'inside_once': in_once, 'witness': [b.path]})
                for bj, (F2, cb), c2 in G.callees(F, b, blocks=live, store=store):
                    if bj == bi:
                        continue
                    for Y, w in G.acq(F2, cb, (), store).items():
                        edges.append({'held': X + '.data', 'acq': Y + '.data', 'where': '%s in %s' % (b.line(bj), b.path), 'inside_once': in_once, 'witness': w})
            if in_once:
                # everything acquired inside the initialiser is acquired while holding the Once
                for Y, w in G.acq(F, b).items():
                    edges.append({'held': in_once + '.once', 'acq': Y + '.data', 'where': b.path, 'inside_once': in_once, 'witness': w})
    return G, edges, live_ranges


def find_cycles(edges):
    adj = {}
    for e in edges:
        adj.setdefault(e['held'], set()).add(e['acq'])
    cycles = []
    def dfs(n, path, onpath):
        for m in sorted(adj.get(n, ())):
            if m in onpath:
                cyc = path[path.index(m):] + [m]
                if sorted(cyc[:-1]) not in [sorted(c[:-1]) for c in cycles]:
                    cycles.append(cyc)
            elif len(path) < 12:
                dfs(m, path + [m], onpath | {m})
    for n in sorted(adj):
        dfs(n, [n], {n})
    return cycles
