"""PANIC ledger: enumerate every panic-capable MIR site of the crate and discharge each by a named rule."""
from .lib import *
from .terms import TermBuilder
from . import codec

UNWRAP_LIKE = {'unwrap', 'expect', 'unwrap_err', 'expect_err'}
VEC_PANICKY = {'remove', 'insert', 'swap_remove', 'drain', 'splice', 'split_off', 'split_at', 'split_at_mut', 'copy_from_slice', 'clone_from_slice', 'swap', 'rotate_left', 'rotate_right', 'chunks', 'windows', 'chunks_exact'}
PANIC_FNS = ('core::panicking::', 'std::rt::begin_panic', 'std::panicking::begin_panic', 'core::option::expect_failed', 'core::option::unwrap_failed',
             'core::result::unwrap_failed', 'core::slice::index::slice_', 'core::str::slice_error_fail')
# dependency APIs with a documented precondition (panic when violated)
DEP_PRECONDITIONS = {
    ('Compressed', 'digest'): 'panics if no digest is declared',
    ('EncryptedMessage', 'digest'): 'panics if no digest is declared',
    ('Digest', 'from_hex'): 'panics on invalid hex / length',
    ('Digest', 'from_data'): 'panics unless 32 bytes',
    ('Salt', 'new_in_range_using'): 'bc_rand::rng_next_in_closed_range asserts lo <= hi',
    ('Salt', 'new_in_range'): 'bc_rand::rng_next_in_closed_range asserts lo <= hi',
    ('TagsStore', 'insert'): 'panics on conflicting registration',
    ('SealedMessage', 'decrypt'): 'bc-components 0.19 panics on an ML-KEM level mismatch between key and message',
    ('SSKRShare', 'identifier'): 'indexes bytes 0 and 1 of the share data; SSKRShare decodes from ANY byte string, so a share shorter than 2 bytes panics',
    ('SSKRShare', 'identifier_hex'): 'slices bytes 0..=1 of the share data: panics for a share shorter than 2 bytes',
}


def enumerate_sites(F):
    """-> list of dict(body, block, cls, desc, term, span_exp, mac)"""
    sites = []
    for b in F.bodies:
        tb = None
        for bi, bl in enumerate(b.blocks):
            if bl['cleanup']:
                continue
            t = bl['term']
            if not t:
                continue
            sp = t.get('span') or {}
            if t['k'] == 'assert':
                msg = t['msg']
                if msg in ('misaligned', 'null_deref', 'invalid_enum', 'other'):
                    continue
                cls = 'overflow' if msg.startswith('overflow') else 'bounds' if msg == 'bounds' else msg
                sites.append({'body': b, 'block': bi, 'cls': cls, 'what': msg, 'span': sp})
                continue
            if t['k'] != 'call':
                continue
            c = b.callee(bi)
            if c is None:
                continue
            p = strip_generics(c.best)
            name = c.name
            cls = None
            if any(p.startswith(x) for x in PANIC_FNS):
                cls = 'panic'
            elif name in UNWRAP_LIKE and (p.startswith('core::option::Option::') or p.startswith('core::result::Result::')):
                cls = 'unwrap'
            elif name in ('index', 'index_mut') and (c.is_trait_method('Index') or c.is_trait_method('IndexMut')):
                cls = 'index'
            elif name in VEC_PANICKY and (p.startswith('alloc::vec::Vec::') or p.startswith('core::slice::') or p.startswith('alloc::slice::') or p.startswith('alloc::collections::vec_deque') or p.startswith('alloc::string::String::')):
                if name in ('windows', 'chunks', 'chunks_exact'):
                    cls = 'size_arg'
                else:
                    cls = 'vecop'
            elif name in ('borrow', 'borrow_mut') and p.startswith('core::cell::RefCell'):
                cls = 'refcell'
            else:
                for (ty, nm), why in DEP_PRECONDITIONS.items():
                    if name == nm and c.is_method(ty, nm) and c.krate != F.krate:
                        cls = 'precondition'
            if cls:
                sites.append({'body': b, 'block': bi, 'cls': cls, 'what': strip_generics(c.best).split('::')[-1] if cls != 'panic' else p.split('::')[-1], 'span': sp, 'callee': c})
    return sites


# ------------------------------------------------------------------------------------------------ discharge rules
# sites that no rule covers but a short argument does (each confirmed by reading); exact keys: (function role, class, what)
T_REASON = {
    ('format_hierarchical', 'overflow', 'overflow:Sub'): 'level -= 1 happens once per End item; format items are produced only by format_item(), which emits Begin/End in '
                                                        'balanced pairs, and nicen() preserves the pairing (End+Begin are merged into End, Begin)',
    ('envelope_summary', 'overflow', 'overflow:Sub'): '-1 - (n as i128) with n: u64 cannot leave the i128 range',
    ('format_item', 'index', 'index'): 'Envelope::cbor_tags() = tags_for_values(&[TAG_ENVELOPE]) has exactly one element (one Tag per value)',
    ('format_item', 'vecop', 'splice'): 'splice(0..0, ..) uses the always-valid empty range at the start',
    ('nicen', 'vecop', 'remove'): 'remove(0) happens directly after the loop test !input.is_empty() / after the explicit is_empty() early exit',
    ('nicen', 'index', 'index'): 'input[0] is read only after the `if input.is_empty() { .. break }` exit',
    ('add_to_envelope', 'unwrap', 'unwrap'): 'Attachments.envelopes only ever receives new_attachment(..) assertions (Attachments::add) or validated attachment '
                                            'assertions (try_from_envelope); both inserts are WHO-checked below',
    ('extract_type', 'unwrap', 'unwrap'): 'Box<dyn Any>::downcast::<T>() directly after the TypeId::of::<T>() == TypeId::of::<U>() test on the very value boxed',
}
# documented misuse panics of builder / registry APIs: outside the five operation families of the property (still input to C20.3)
OUT_OF_FAMILY = {
    ('with_result', 'panic'): 'ResponseBehavior::with_result on a failed response: documented builder misuse',
    ('with_result', 'unwrap'): 'ResponseBehavior::with_result: unwrap inside the arm that matched Ok',
    ('with_error', 'panic'): 'ResponseBehavior::with_error on a successful response: documented builder misuse',
    ('with_error', 'unwrap'): 'ResponseBehavior::with_error: unwrap inside the arm that matched Err',
    ('expect_id', 'unwrap'): 'ResponseBehavior::expect_id documents its panic for early failures (builder-side accessor)',
    ('_insert', 'panic'): 'FunctionsStore/ParametersStore::insert of a Named item: registry operation, not an envelope operation',
}


def is_store_insert_panic(s):
    """The explicit panic of the expression registries for a Named (not Known) item: in whichever method of
    FunctionsStore / ParametersStore the insertion is written."""
    b = s['body']
    owner = (b.impl_self or '').split('<')[0].split('::')[-1]
    return s['cls'] == 'panic' and owner in ('FunctionsStore', 'ParametersStore') and (s.get('span') or {}).get('mac') in ('panic', 'unreachable', 'todo', 'unimplemented', None, '')


def fn_role(b):
    if b.dk == 'Closure':
        # name of the enclosing function
        parts = b.path.split('::')
        for p in reversed(parts):
            if not p.startswith('{closure'):
                return p
    return b.name


class Ledger:
    def __init__(self, ctx):
        self.ctx = ctx
        self.F = ctx.F
        self.sites = enumerate_sites(ctx.F)
        self._tb = {}
        self._sub = {}

    def tb(self, b):
        if b.path not in self._tb:
            self._tb[b.path] = TermBuilder(self.F, b)
        return self._tb[b.path]

    def recv(self, s):
        b, bi = s['body'], s['block']
        t = b.term(bi)
        if t['k'] != 'call' or not t['args']:
            return None
        return self.tb(b).call_args(bi)[0]

    def key(self, s):
        """Line-free identity of a site: enclosing function (closures count as part of their function), class, operation and the
        operation the panicking call is applied to (callee name of the receiver), so that moving the site into / out of a closure
        or renaming locals does not change it."""
        r = self.recv(s)
        head = ''
        if r is not None:
            sr = strip_sites(detry(r))
            if sr[0] in ('call', 'mut'):
                from .terms import short_key
                head = short_key(sr[1])
            else:
                head = fmt(sr)[:80]
        host = s['body']
        for _ in range(6):
            if host.dk != 'Closure':
                break
            h2 = self.F.closure_host(host)
            if h2 is None:
                break
            host = h2
        what = 'unwrap' if (s['cls'] == 'unwrap' and s['what'] == 'expect') else s['what']     # unwrap() / expect(msg): one operation, one key
        return '%s|%s|%s|%s' % (host.path.replace('bc_envelope::', ''), s['cls'], what, head)

    # ---------------------------------------------------------------- individual rules: return (rule, argument) or None
    def d_len(self, s):
        """index / first().unwrap() / next().unwrap() / remove(k) unreachable when the collection is too short (finite valuation of len / is_empty)."""
        b, bi = s['body'], s['block']
        tb = self.tb(b)
        r = self.recv(s)
        if r is None and s['cls'] != 'bounds':
            return None
        need = None
        coll = None
        sr = strip_sites(detry(r)) if r is not None else None
        if s['cls'] == 'bounds':
            t = b.term(bi)
            ops = [strip_sites(tb.operand_term(o, bi, len(b.blocks[bi]['stmts']))) for o in t.get('ops', [])]
            if len(ops) == 2 and ops[0][0] == 'len' and const_int(ops[1]) is not None:
                need, coll = const_int(ops[1]) + 1, ops[0][1]
        elif s['cls'] == 'index':
            args = tb.call_args(bi)
            ix = strip_sites(args[1])
            k = const_int(ix)
            if k is not None:
                need = k + 1
            elif ix[0] == 'agg' and ix[1].endswith('RangeFrom') and const_int(ix[3][0]) is not None:
                need = const_int(ix[3][0])
            coll = sr
        elif s['cls'] == 'unwrap':
            if sr[0] == 'next':
                need, coll = 1, sr[1]
            elif sr[0] == 'call' and call_name(sr) in ('first', 'last'):
                need, coll = 1, sr[2][0]
        if need is None or coll is None:
            return None
        coll = strip_sites(elem_source(coll))
        def same_coll(t):
            t = strip_sites(detry(elem_source(t)))
            return t == coll
        lens = find_terms(b, tb, lambda x: (x[0] == 'call' and call_name(x) == 'len' and same_coll(x[2][0])) or (x[0] == 'len' and same_coll(x[1])))
        empt = find_terms(b, tb, lambda x: x[0] == 'call' and call_name(x) == 'is_empty' and same_coll(x[2][0]))
        for n in range(0, need):
            env = {l: n for l in lens}
            env[('len', coll)] = n
            env.update({e: (n == 0) for e in empt})
            if bi in reach_under(b, tb, env):
                return None
        return ('D-LEN', 'unreachable for len < %d of %s (valuation of %s)' % (need, fmt(coll), [fmt(x) for x in lens + empt]))

    def d_ownassert(self, s):
        """unwrap of add_*assertion_envelope*(X, A) with A built here by an assertion constructor; callee fails only on the validity test."""
        r = self.recv(s)
        if r is None or s['cls'] != 'unwrap':
            return None
        F = self.F
        sr = detry(r)
        c = callee_of(sr)
        if c is None or c.name not in ('add_assertion_envelope', 'add_optional_assertion_envelope', 'add_optional_assertion_envelope_salted', 'add_assertion_envelope_salted'):
            return None
        a = sr[2][1]
        full = strip_sites(inline_deep(F, a))
        if full[0] == 'agg' and full[2] == 'Some':
            full = full[3][0]
        if full[0] == 'env':
            full = full[1]
        built = (m_call(full, name='new_with_assertion') is not None or m_call(full, name='new', self_suffix='Assertion') is not None or m_call(full, name='new_assertion') is not None
                 or is_case_ctor_wrapper(full) is not None and is_case_ctor_wrapper(full)[2] == 'Assertion')
        if not built:
            # an `Assertion` value converted to an envelope
            b = s['body']
            from .terms import ENV_SRC
            sa = strip_sites(a)
            if sa[0] == 'agg' and sa[2] == 'Some':
                sa = sa[3][0]
            if sa[0] == 'env':
                src_ty = ENV_SRC.get((b.path, sa[1]), '')
                if ty_matches(src_ty, 'Assertion') and 'bc_envelope' in src_ty:
                    built = True
        if not built:
            return None
        if not self.add_fails_only_on_validity():
            return None
        return ('D-OWNASSERT', 'the added element is built by the assertion constructor (%s) and the add path fails only on the assertion-or-obscured test' % fmt(full)[:80])

    def add_fails_only_on_validity(self):
        if 'addfail' in self._sub:
            return self._sub['addfail']
        F = self.F
        ok = True
        for name in ('add_optional_assertion_envelope', 'add_optional_assertion_envelope_salted'):
            b = F.method1('Envelope', name)
            if b is None:
                continue
            tb = self.tb(b)
            a1 = find_terms(b, tb, lambda t: t[0] == 'call' and call_name(t) == 'is_subject_assertion')
            a2 = find_terms(b, tb, lambda t: t[0] == 'call' and call_name(t) == 'is_subject_obscured')
            if not a1:
                ok = False
                continue
            env = {a1[0]: True}
            reach = reach_under(b, tb, env)
            for bi, si, t in ret_defs(tb):
                if bi in reach and ((t[0] == 'agg' and t[2] == 'Err') or m_call(t, name='from_residual') is not None):
                    ok = False
        self._sub['addfail'] = ok
        return ok

    def d_hasdigest(self, s):
        r = self.recv(s)
        if r is None or s['cls'] != 'unwrap':
            return None
        sr = detry(r)
        a = m_call(sr, name='new_with_encrypted') or m_call(sr, name='new_with_compressed')
        if a is None:
            return None
        src = a[0]
        if m_call(src, name='encrypt_with_digest') is not None:
            return ('D-HASDIGEST', 'constructor applied to SymmetricKey::encrypt_with_digest(..), which always declares a digest; its only failing exit is the has_digest test (C04.6)')
        fu = m_call(src, name='from_uncompressed_data')
        if fu is not None and fu[1][0] == 'agg' and fu[1][2] == 'Some':
            return ('D-HASDIGEST', 'constructor applied to Compressed::from_uncompressed_data(.., Some(digest))')
        return None

    def d_caseinv(self, s):
        """dependency precondition `digest()` on the payload of an Encrypted/Compressed case: every such case declares a digest (C04.6)."""
        if s['cls'] != 'precondition' or s['what'] != 'digest':
            return None
        r = strip_sites(self.recv(s))
        if r[0] == 'vfield' and r[2] in ('Encrypted', 'Compressed') and m_call(r[1], name='case', self_suffix='Envelope') is not None:
            if not self.has_digest_invariant():
                return None      # the constructor-side guard (C04.6) does not hold on this tree: the case invariant is gone
            return ('D-CASEINV', 'payload of an existing %s case: built only behind has_digest (C04.6), also for decoded input (C06.7)' % r[2])
        return None

    def d_assertion_subject(self, s):
        """as_object/as_predicate(subject(E)).unwrap() for E delivered by the predicate filter."""
        r = self.recv(s)
        if r is None or s['cls'] != 'unwrap':
            return None
        sr = strip_sites(detry(r))
        a = m_call(sr, name='as_object', self_suffix='Envelope') or m_call(sr, name='as_predicate', self_suffix='Envelope')
        if a is None:
            return None
        sj = m_call(a[0], name='subject', self_suffix='Envelope')
        if sj is None:
            return None
        E = sj[0]
        def from_filter(t, depth=0):
            t = strip_sites(detry(t))
            if depth > 4:
                return False
            if t[0] in ('elem', 'next'):
                return from_filter(elem_source(t[1]), depth + 1)
            if t[0] == 'call' and call_name(t) in ('assertions_with_predicate',):
                return True
            if t[0] == 'call' and call_name(t) in ('assertion_with_predicate', 'optional_assertion_with_predicate'):
                return True      # returns V[0] of the filter (as Ok(..) / Ok(Some(..)): C15.5)
            if t[0] == 'call' and call_name(t) == 'index':
                return from_filter(t[2][0], depth + 1)
            if t[0] == 'index':
                return from_filter(t[1], depth + 1)
            if t[0] == 'call' and call_name(t) in ('filter', 'iter', 'into_iter', 'cloned'):
                return from_filter(t[2][0], depth + 1)
            # an Option / Result carrying such an element: Some(x), a merge of None and Some(x), its payload
            if t[0] == 'agg' and t[2] in ('Some', 'Ok') and t[3]:
                return from_filter(t[3][0], depth + 1)
            if t[0] == 'agg' and t[2] and len(t[3]) == 1 and t[1].startswith('bc_envelope::'):
                return from_filter(t[3][0], depth + 1)       # the one-field variant of a private carrier enum (Unique(a), Found(a), ..)
            if t[0] == 'vfield' and t[2] in ('Some', 'Ok', 'Continue'):
                return from_filter(t[1], depth + 1)
            if t[0] == 'vfield' and t[3] == '0' and strip_sites(t[1])[0] in ('phi', 'agg'):
                inner = strip_sites(t[1])
                alts = [a for a in phi_alts(inner) if a[0] == 'agg' and a[2] == t[2]]
                return bool(alts) and all(from_filter(a, depth + 1) for a in alts)
            if t[0] == 'phi':
                live = [a for a in t[1] if not (a[0] == 'agg' and (a[2] in ('None', 'Err') or not a[3]))]
                return bool(live) and all(from_filter(a, depth + 1) for a in live)
            if t[0] == 'call' and call_name(t) == 'branch':
                return from_filter(t[2][0], depth + 1)
            return False
        b = s['body']
        if E[0] == 'param' and b.dk == 'Closure':
            # closure parameter bound to an element of the filtered vector
            parent = self.F.closure_host(b)
            if parent is not None:
                from . import rec
                binds = rec.closure_bindings(self.F, parent, self.tb(parent))
                caps, elem, adaptor = binds.get(b.path, ((), None, None))
                if elem is not None and from_filter(elem):
                    return ('D-ASSERTION-SUBJECT', 'closure element ranges over assertions_with_predicate(..): the filter keeps only elements whose subject is an assertion (C15.5)')
            return None
        if from_filter(E):
            return ('D-ASSERTION-SUBJECT', 'element delivered by the predicate filter, looked at through subject(): its subject is an assertion (C15.5)')
        return None

    def d_guard(self, s):
        """unwrap(X) unreachable when X is None/Err according to a dominating test of X (is_none/is_some/is_ok/is_err/discriminant)."""
        if s['cls'] != 'unwrap':
            return None
        b, bi = s['body'], s['block']
        tb = self.tb(b)
        r = self.recv(s)
        if r is None:
            return None
        X = strip_sites(detry(r))
        cands = []
        for nm, bad in (('is_none', True), ('is_some', False), ('is_ok', False), ('is_err', True)):
            for a in find_terms(b, tb, lambda x: x[0] == 'call' and call_name(x) == nm and strip_sites(detry(x[2][0])) == X):
                cands.append((a, bad))
        for a, bad in cands:
            if bi not in reach_under(b, tb, {a: bad}):
                return ('D-GUARD', 'unreachable when %s is %s' % (fmt(a), bad))
        # is_wrapped(Y) => unwrap_envelope(Y) is Ok
        ue = m_call(X, name='unwrap_envelope', self_suffix='Envelope')
        if ue is not None:
            Y = ue[0]
            ws = find_terms(b, tb, lambda x: x[0] == 'call' and call_name(x) == 'is_wrapped' and strip_sites(x[2][0]) == Y)
            if ws and bi not in reach_under(b, tb, {ws[0]: False}) and self.wrapped_implication():
                return ('D-GUARD', 'dominated by is_wrapped(%s); is_wrapped(Y) => case(Y) is Wrapped => subject(Y) = Y => unwrap_envelope(Y) is Ok (bodies checked)' % fmt(Y))
        return None

    def wrapped_implication(self):
        if 'wrapimp' in self._sub:
            return self._sub['wrapimp']
        F = self.F
        ok = False
        iw = F.method1('Envelope', 'is_wrapped')
        ue = F.method1('Envelope', 'unwrap_envelope')
        sj = F.method1('Envelope', 'subject')
        if iw is not None and ue is not None and sj is not None:
            variants = adt_variants(F, CASE)
            widx = variants.index('Wrapped')
            # is_wrapped: true only in the Wrapped arm of case(self)
            tb = self.tb(iw)
            sw = [x for x in switch_on(tb, iw, lambda d: d[0] == 'discr' and m_call(d[1], name='case', self_suffix='Envelope') is not None)]
            c1 = False
            if len(sw) == 1:
                t = iw.term(sw[0][0])
                regs = arm_regions(iw, sw[0][0])
                trues = [bi for bi, si, tt in ret_defs(tb) if strip_sites(tt) == ('bool', True)]
                c1 = bool(trues) and all(any(bi in reg for v, (tg, reg) in regs.items() if v == widx) for bi in trues)
            # unwrap_envelope: Ok exactly in the Wrapped arm of case(subject(self))
            tb2 = self.tb(ue)
            oks = [strip_sites(t[3][0]) for bi, si, t in ret_defs(tb2) if t[0] == 'agg' and t[2] == 'Ok']
            c2 = bool(oks) and all(o[0] == 'vfield' and o[2] == 'Wrapped' for o in oks)
            # subject(): self unless Node
            alts = [strip_sites(x[2]) for x in ret_defs(self.tb(sj))]
            c3 = ('param', 1) in alts and all(a == ('param', 1) or (a[0] == 'vfield' and a[2] == 'Node') for a in alts)
            ok = c1 and c2 and c3
        self._sub['wrapimp'] = ok
        return ok

    def d_total(self, s):
        """unwrap of a crate function that cannot fail for this receiver."""
        if s['cls'] != 'unwrap':
            return None
        r = self.recv(s)
        if r is None:
            return None
        sr = detry(r)
        c = callee_of(sr)
        if c is None or sr[0] != 'call':
            return None
        F = self.F
        cb = F.by_hash.get(c.best_hash)
        if cb is None:
            return None
        if not cb.local_ty(0).startswith('core::result::Result'):
            return None     # only Result-returning crate functions are summarised here
        wrapped = False
        if sr[2]:
            a0 = strip_sites(sr[2][0])
            wrapped = m_call(a0, name='wrap_envelope', self_suffix='Envelope') is not None or m_call(a0, name='new_wrapped') is not None
        fails = self.may_fail(cb, wrapped, 0, ())
        if not fails:
            return ('D-TOTAL', '%s has no failing exit%s (explicit Err / `?` exits enumerated through the call chain)' % (cb.name, ' for a just-wrapped receiver' if wrapped else ''))
        return None

    def may_fail(self, b, recv_wrapped, depth, stack):
        """List of reasons this function may return Err (given that its receiver's case is Wrapped when recv_wrapped)."""
        F = self.F
        if depth > 5 or b.path in stack:
            return ['depth']
        tb = self.tb(b)
        env = {}
        if recv_wrapped:
            variants = adt_variants(F, CASE)
            widx = variants.index('Wrapped')
            for sb, dt in switch_on(tb, b, lambda d: d[0] == 'discr' and m_call(d[1], name='case', self_suffix='Envelope') is not None and strip_sites(m_call(d[1], name='case', self_suffix='Envelope')[0]) == ('param', 1)):
                env[strip_sites(dt)] = widx
        reach = reach_under(b, tb, env)
        reasons = []
        for bi, si, t in ret_defs(tb):
            if bi not in reach:
                continue
            if t[0] == 'agg' and t[2] == 'Err':
                reasons.append('Err at %s' % b.line(bi, si))
            elif m_call(t, name='from_residual') is not None:
                # `?` on some callee
                inner = None
                for x in walk(t):
                    a = m_call(x, name='branch', trait='Try') if isinstance(x, tuple) and x and x[0] == 'call' else None
                    if a is not None:
                        inner = a[0]
                        break
                c = callee_of(inner) if inner is not None else None
                cb = F.by_hash.get(c.best_hash) if c is not None else None
                if cb is None:
                    reasons.append('? on %s' % (fmt(inner) if inner is not None else '?'))
                else:
                    a0 = strip_sites(inner[2][0]) if inner[2] else None
                    w = (a0 == ('param', 1) and recv_wrapped) or (a0 is not None and (m_call(a0, name='wrap_envelope', self_suffix='Envelope') is not None))
                    reasons.extend(self.may_fail(cb, w, depth + 1, stack + (b.path,)))
            elif t[0] == 'call' and b.local_ty(0).startswith('core::result::Result'):
                # pass-through of a callee's Result
                c = callee_of(t)
                cb = F.by_hash.get(c.best_hash) if c is not None else None
                if cb is None:
                    if not (c is not None and c.name in ('unwrap_or', 'unwrap_or_else', 'map')):
                        reasons.append('pass-through of %s' % fmt(t)[:60])
                else:
                    a0 = strip_sites(t[2][0]) if t[2] else None
                    w = (a0 == ('param', 1) and recv_wrapped) or (a0 is not None and (m_call(a0, name='wrap_envelope', self_suffix='Envelope') is not None))
                    reasons.extend(self.may_fail(cb, w, depth + 1, stack + (b.path,)))
            elif b.local_ty(0).startswith('core::result::Result') and not (t[0] == 'agg' and t[2] == 'Ok'):
                # anything else handed out as the Result (an indirect call through a function value, a merged value, a parameter):
                # its Err-ness is not enumerated here, so the function may fail
                alts = phi_alts(strip_sites(t))
                if not all(a[0] == 'agg' and a[2] == 'Ok' for a in alts):
                    reasons.append('unclassified Result exit %s' % fmt(t)[:60])
        return reasons

    def d_initsome_lock(self, s):
        if s['cls'] != 'unwrap':
            return None
        r = self.recv(s)
        if r is None:
            return None
        sr = strip_sites(detry(r))
        if m_call(sr, name='lock', path_end='Mutex::lock') is not None or (sr[0] == 'call' and call_name(sr) == 'lock'):
            return ('D-LOCK', 'Mutex::lock().unwrap(): a global mutex is poisoned only by a panic under its guard, excluded by C20.3')
        x = sr
        if x[0] == 'call' and call_name(x) in ('as_mut',):
            x = x[2][0]
        cg = CALLEES.get(x[1]) if x[0] == 'call' else None
        if cg is not None and cg.name == 'get' and 'Lazy' in (cg.self_ty or cg.raw.get('impl_self') or ''):
            if self.lazy_init_some(x):
                return ('D-INITSOME', 'guard of a lazily initialised store: get() assigns Some(..) inside call_once before returning (C20.4)')
        return None

    def lazy_init_some(self, t):
        c = callee_of(t)
        if c is None:
            # stripped term lost its site; look the accessor up by name
            pass
        F = self.F
        key = t[1]
        cc = CALLEES.get(key)
        b = F.by_hash.get(cc.best_hash) if cc else None
        if b is None:
            return cc is not None and cc.krate != F.krate    # dependency store (dcbor LazyTagsStore): trusted summary, re-derived in C20
        for cl in F.closures_of(b):
            ctb = self.tb(cl)
            for l, ds in (ctb._defs or {}).items() if ctb.defs(0) is not None else []:
                for d in ds:
                    if d[2] == 'storethrough':
                        v = ctb.rvalue_term(d[3]['rv'], d[0], d[1])
                        if v[0] == 'agg' and v[2] == 'Some':
                            return True
            for bi, bl in enumerate(cl.blocks):
                for si, st in enumerate(bl['stmts']):
                    if st['k'] == 'assign' and st['place']['p'] and st['rv']['k'] == 'agg' and st['rv'].get('variant') == 'Some':
                        return True
        return False

    def d_position(self, s):
        if s['cls'] != 'vecop' or s['what'] not in ('remove', 'swap_remove'):
            return None
        b, bi = s['body'], s['block']
        a = [strip_sites(x) for x in self.tb(b).call_args(bi)]
        idx = a[1]
        if idx[0] == 'vfield' and idx[2] == 'Some':
            p = m_call(idx[1], name='position', trait='Iterator')
            if p is not None and strip_sites(elem_source(p[0])) == strip_sites(elem_source(a[0])):
                return ('D-POSITION', 'index returned by position() over the same vector')
            fi = first_index(self.F, b, self.tb(b), idx[1])
            if fi is not None and fi.kind == 'loop' and fi.coll == strip_sites(elem_source(a[0])):
                return ('D-POSITION', 'index counted by the loop over the same vector up to the element found')
        return None

    def d_counter(self, s):
        if s['cls'] != 'overflow' or s['what'] not in ('overflow:Add', 'overflow:Mul'):
            return None
        b, bi = s['body'], s['block']
        t = b.term(bi)
        tb = self.tb(b)
        ops = [strip_sites(tb.operand_term(o, bi, len(b.blocks[bi]['stmts']))) for o in t.get('ops', [])]
        tys = []
        for o in t.get('ops', []):
            if o['k'] in ('copy', 'move'):
                ty = b.local_ty(o['place']['l'])
                if o['place']['p'] == ['deref']:
                    ty = ty.lstrip('&').replace('mut ', '', 1).strip()
                elif o['place']['p']:
                    ty = '?'
                tys.append(ty)
            else:
                tys.append(o.get('ty', ''))
        if not all(x in ('usize', 'i32', 'u32', 'u64', 'i64') for x in tys):
            return None
        consts = [const_int(o) for o in ops]
        if any(c is not None and 0 <= c <= 8 for c in consts):
            return ('D-COUNTER', 'counter of visited elements / nesting depth / indentation (+%s, type %s): overflow needs >= 2^31 in-memory envelope elements (>= 2^62 for usize)'  % ([c for c in consts if c is not None], tys[0]))
        if any(contains(o, lambda x: x[0] == 'call' and call_name(x) == 'elements_count') for o in ops):
            return ('D-COUNTER', 'sum of element counts of disjoint in-memory sub-envelopes')
        return None

    def d_len_sub(self, s):
        """len(X) - k (k a constant) at a site that is unreachable while X has fewer than k elements (finite valuation of the count)."""
        if s['cls'] != 'overflow' or s['what'] != 'overflow:Sub':
            return None
        b, bi = s['body'], s['block']
        t = b.term(bi)
        tb = self.tb(b)
        ops = [strip_sites(tb.operand_term(o, bi, len(b.blocks[bi]['stmts']))) for o in t.get('ops', [])]
        if len(ops) != 2 or const_int(ops[1]) is None or not (0 < const_int(ops[1]) <= 8):
            return None
        k = const_int(ops[1])
        l = strip_sites(detry(ops[0]))
        if l[0] == 'call' and call_name(l) == 'len' and len(l[2]) == 1:
            coll = l[2][0]
        elif l[0] == 'len':
            coll = l[1]
        else:
            return None
        coll = strip_sites(elem_source(coll))
        def same_coll(x):
            return strip_sites(detry(elem_source(x))) == coll
        lens = find_terms(b, tb, lambda x: (x[0] == 'call' and call_name(x) == 'len' and same_coll(x[2][0])) or (x[0] == 'len' and same_coll(x[1])))
        empt = find_terms(b, tb, lambda x: x[0] == 'call' and call_name(x) == 'is_empty' and same_coll(x[2][0]))
        for n in range(0, k):
            env = {x: n for x in lens}
            env[('len', coll)] = n
            env.update({e: (n == 0) for e in empt})
            if bi in reach_under(b, tb, env):
                return None
        return ('D-LEN', 'len(%s) - %d is unreachable for len < %d (valuation of %s)' % (fmt(coll), k, k, [fmt(x) for x in lens + empt]))

    def d_preserved(self, s):
        """the library's own assert!/assert_eq!: made true by the digest-preservation / non-emptiness obligations."""
        if s['cls'] != 'panic' or s['span'].get('mac') not in ('assert', 'assert_eq', 'debug_assert', 'debug_assert_eq'):
            return None
        role = fn_role(s['body'])
        dep = {'elide_set_with_action': 'C02.4', 'encrypt_subject_opt': 'C02.2/C02.3'}.get(role)
        if dep is None and any(b2.hash == s['body'].hash and rv['variant'] == 'Node' for b2, bi2, si2, rv in agg_sites(self.F, CASE)):
            dep = 'C04.1'      # the node constructor's own non-emptiness assertion
        if dep is None:
            return None
        if self.obligations_hold(dep):
            return ('D-PRESERVED', 'library assertion whose condition is guaranteed by %s (re-evaluated: holds)' % dep)
        return None

    def has_digest_invariant(self):
        """C04.6 / C06.7 evaluated: every EnvelopeCase::Encrypted / Compressed is built on the passing edge of has_digest()."""
        if 'hasdigest' in self._sub:
            return self._sub['hasdigest']
        from .props import C06
        bad = []
        class Rec:
            def __init__(s2, ctx):
                s2.ctx, s2.F, s2.features = ctx, ctx.F, ctx.features
            def has(s2, *f): return s2.ctx.has(*f)
            def site(s2, *a, **kw): return s2.ctx.site(*a, **kw)
            def ok(s2, *a, **kw): pass
            def skip(s2, *a, **kw): pass
            def fail(s2, inst, *a, **kw): bad.append(inst)
            def lost(s2, inst, what): bad.append(inst)
        try:
            C06.check_has_digest(Rec(self.ctx), 'x')
        except Exception as e:
            bad.append('exception %r' % e)
        self._sub['hasdigest'] = not bad
        return not bad

    def obligations_hold(self, dep):
        k = 'obl:' + dep
        if k in self._sub:
            return self._sub[k]
        from .props import C02, C04
        class Rec:
            def __init__(s2, ctx):
                s2.ctx, s2.F, s2.bad, s2.features = ctx, ctx.F, [], ctx.features
            def has(s2, *f): return s2.ctx.has(*f)
            def dep(s2, c): return s2.ctx.dep(c)
            def site(s2, *a, **kw): return s2.ctx.site(*a, **kw)
            def ok(s2, *a, **kw): pass
            def count(s2, *a, **kw): pass
            def skip(s2, *a, **kw): pass
            def fail(s2, inst, *a, **kw): s2.bad.append(inst)
            def lost(s2, inst, what): s2.bad.append(inst)
            def need(s2, inst, v, what):
                if not v:
                    s2.bad.append(inst)
                    raise Exception('anchor lost')
                return v
        r = Rec(self.ctx)
        try:
            if dep.startswith('C04'):
                C04.check(r)
            else:
                C02.check(r)
        except Exception as e:
            r.bad.append('exception %r' % e)
        ok = not [x for x in r.bad if x.startswith(dep.split('/')[0][:3])]
        if dep.startswith('C04'):
            # non-emptiness at every node construction site: C04.1 itself and the shrinking site's collapse table (C04.5);
            # an evaluation that broke off proves nothing
            ok = not [x for x in r.bad if x.startswith('C04.1') or x.startswith('C04.5') or x.startswith('exception')]
        self._sub[k] = ok
        return ok

    def d_refcell(self, s):
        if s['cls'] != 'refcell':
            return None
        b, bi = s['body'], s['block']
        F = self.F
        t = b.term(bi)
        guard = t['dest']['l']
        # all borrow sites in this body
        borrows = [x for x in self.sites if x['body'] is b and x['cls'] == 'refcell']
        # the guard must be dropped before any other borrow site of this body is reached
        drops = [i for i in b.normal_blocks() if (b.term(i) or {}).get('k') == 'drop' and b.term(i)['place']['l'] == guard and not b.term(i)['place']['p']]
        dead = []
        for i, bl in enumerate(b.blocks):
            for st in bl['stmts']:
                if st['k'] == 'dead' and st['l'] == guard:
                    dead.append(i)
        for o in borrows:
            if o is s:
                continue
            if o['block'] in b.reachable(t['t'], removed_blocks=drops) and o['block'] != bi:
                # reachable without dropping the guard: only fine if it IS after the drop in every path; removed_blocks cuts at the drop
                return None
        # no re-entrant call while the guard is live: between the borrow and its drop no call to a crate-local function that can reach this closure / walk
        live = b.reachable(t['t'], removed_blocks=drops)
        for i in live:
            c = b.callee(i)
            if c is not None and c.krate == F.krate and c.name in ('walk', 'walk_structure', 'walk_tree', '_walk_structure', '_walk_tree'):
                return None
            if b.term(i) and b.term(i)['k'] == 'call' and c is None:
                return None     # indirect call under the guard
        # the cell belongs to the enclosing function (created there by RefCell::new) and is not shared with another closure
        return ('D-REFCELL', 'RefCell local to the enclosing function; each borrow guard is dropped before the next borrow site and no walk/indirect call happens under it')

    def t_reason(self, s):
        role = fn_role(s['body'])
        what = 'unwrap' if (s['cls'] == 'unwrap' and s['what'] == 'expect') else s['what']      # unwrap() and expect(msg) are the same operation
        k = (role, s['cls'], what)
        if k in T_REASON:
            if role == 'add_to_envelope' and not self.attachments_who():
                return None
            if role == 'extract_type' and not self.typeid_guard(s):
                return None
            if role == 'nicen' and not self.nicen_guard(s):
                return None
            return ('T-REASON', T_REASON[k])
        return None

    def typeid_guard(self, s):
        """the downcast site is unreachable unless the two TypeIds compared equal (either spelling of the test, either branch order)"""
        b, bi = s['body'], s['block']
        tb = self.tb(b)
        cmps = find_terms(b, tb, lambda x: x[0] == 'call' and call_name(x) in ('eq', 'ne') and len(x[2]) == 2
                          and all(contains(a, lambda y: isinstance(y, tuple) and y and y[0] == 'call' and call_name(y) == 'of') for a in x[2]))
        if len(cmps) != 1:
            return False
        differ = call_name(cmps[0]) == 'eq'      # value of the atom when the types differ: eq -> False, ne -> True
        return bi not in reach_under(b, tb, {cmps[0]: (not differ)})

    def nicen_guard(self, s):
        b, bi = s['body'], s['block']
        tb = self.tb(b)
        empt = find_terms(b, tb, lambda x: x[0] == 'call' and call_name(x) == 'is_empty')
        # the site must be unreachable when every emptiness test says "empty"
        if not empt:
            return False
        return bi not in reach_under(b, tb, {e: True for e in empt})

    def attachments_who(self):
        if 'attwho' in self._sub:
            return self._sub['attwho']
        F = self.F
        ok = True
        n = 0
        for b in F.bodies:
            if b.impl_self is None or not b.impl_self.endswith('::Attachments'):
                continue
            tb = self.tb(b)
            for bi, c, t in b.calls():
                if c is not None and c.name == 'insert' and 'HashMap' in (c.self_ty or c.raw.get('impl_self') or ' '.join(c.args)):
                    n += 1
                    v = strip_sites(detry(tb.call_args(bi)[2]))
                    good = (m_call(v, name='new_attachment') is not None) or (v[0] in ('elem', 'next') and contains(v, lambda x: x[0] == 'call' and call_name(x) == 'attachments'))
                    if not good:
                        ok = False
        self._sub['attwho'] = ok and n >= 1
        return self._sub['attwho']

    def out_of_family(self, s):
        if is_store_insert_panic(s):
            return ('OUT-OF-FAMILY', OUT_OF_FAMILY[('_insert', 'panic')])
        role = fn_role(s['body'])
        k = (role, s['cls'])
        if k in OUT_OF_FAMILY:
            if role in ('with_result', 'with_error') and s['cls'] == 'unwrap':
                return ('D-MATCHED', OUT_OF_FAMILY[k])
            return ('OUT-OF-FAMILY', OUT_OF_FAMILY[k])
        return None

    def d_bounds_window(self, s):
        """pair[0] / pair[1] inside the closure given to windows(2)."""
        if s['cls'] != 'bounds':
            return None
        b = s['body']
        # loop form: `for pair in v.windows(k) { .. pair[i] .. }`
        t0 = b.term(s['block'])
        tb0 = self.tb(b)
        ops0 = [strip_sites(tb0.operand_term(o, s['block'], len(b.blocks[s['block']]['stmts']))) for o in t0.get('ops', [])]
        if len(ops0) == 2 and ops0[0][0] == 'len' and ops0[0][1][0] == 'elem' and const_int(ops0[1]) is not None:
            w0 = m_call(strip_sites(detry(elem_source(ops0[0][1][1]))), name='windows')
            if w0 is not None and const_int(w0[1]) is not None and const_int(ops0[1]) < const_int(w0[1]):
                return ('D-LEN', 'index %d into a window of exactly %d elements (loop over slice::windows)' % (const_int(ops0[1]), const_int(w0[1])))
        if b.dk != 'Closure':
            return None
        parent = self.F.closure_host(b)
        if parent is None:
            return None
        from . import rec
        binds = rec.closure_bindings(self.F, parent, self.tb(parent))
        caps, elem, adaptor = binds.get(b.path, ((), None, None))
        if elem is None:
            return None
        w = m_call(strip_sites(detry(elem[1])), name='windows')
        t = b.term(s['block'])
        tb = self.tb(b)
        ops = [strip_sites(tb.operand_term(o, s['block'], len(b.blocks[s['block']]['stmts']))) for o in t.get('ops', [])]
        if w is not None and const_int(w[1]) is not None and len(ops) == 2 and const_int(ops[1]) is not None and const_int(ops[1]) < const_int(w[1]):
            return ('D-LEN', 'index %d into a window of exactly %d elements (slice::windows)' % (const_int(ops[1]), const_int(w[1])))
        return None

    def d_size_arg(self, s):
        if s['cls'] != 'size_arg':
            return None
        b, bi = s['body'], s['block']
        a = [strip_sites(x) for x in self.tb(b).call_args(bi)]
        if const_int(a[1]) is not None and const_int(a[1]) > 0:
            return ('D-CONST', '%s(%d): the non-zero size argument is a constant' % (s['what'], const_int(a[1])))
        return None

    def d_decrypt_scheme(self, s):
        """SealedMessage::decrypt only for messages whose encapsulation scheme equals the key's."""
        if s['cls'] != 'precondition' or s['what'] != 'decrypt':
            return None
        b, bi = s['body'], s['block']
        tb = self.tb(b)
        a = [strip_sites(x) for x in tb.call_args(bi)]
        def guard(x):
            if x[0] != 'call' or call_name(x) not in ('eq', 'ne'):
                return False
            l, r = strip_sites(x[2][0]), strip_sites(x[2][1])
            def msg_scheme(t):
                m = m_call(t, name='encapsulation_scheme')
                return m is not None and m[0] == a[0]
            def key_scheme(t):
                m = m_call(t, name='encapsulation_scheme')
                k = m_call(m[0], name='encapsulation_private_key') if m else None
                return k is not None and k[0] == a[1]
            return (msg_scheme(l) and key_scheme(r)) or (msg_scheme(r) and key_scheme(l))
        gs = find_terms(b, tb, guard)
        if not gs:
            return None
        ok, info = guard_dominates(b, tb, [bi], guard, call_name(gs[0]) == 'eq')
        if ok:
            return ('D-GUARD', 'decrypt reached only when message.encapsulation_scheme() == key scheme (ML-KEM level included): no level-mismatch panic; ' + info)
        return None

    def d_share_len(self, s):
        """SSKRShare::identifier() reached only for shares of at least 2 bytes (a length test of share.data())."""
        if s['cls'] != 'precondition' or s['what'] not in ('identifier', 'identifier_hex'):
            return None
        b, bi = s['body'], s['block']
        tb = self.tb(b)
        share = strip_sites(detry(tb.call_args(bi)[0]))
        def data_of_share(x):
            return x[0] == 'call' and call_name(x) in ('data', 'as_bytes', 'as_ref') and len(x[2]) == 1 and strip_sites(detry(x[2][0])) == share
        datas = find_terms(b, tb, data_of_share)
        if not datas:
            return None
        for n in (0, 1):
            env = {('len', d): n for d in datas}
            env.update({('len', strip_sites(detry(d))): n for d in datas})
            if bi in reach_under(b, tb, env):
                return None
        return ('D-LEN', 'SSKRShare::%s reached only when the share data has at least 2 bytes (valuation of len(%s))' % (s['what'], fmt(datas[0])))

    def d_range_guard(self, s):
        if s['cls'] != 'precondition' or not s['what'].startswith('new_in_range'):
            return None
        b, bi = s['body'], s['block']
        tb = self.tb(b)
        a = [strip_sites(x) for x in tb.call_args(bi)]
        es = find_terms(b, tb, lambda x: x[0] == 'call' and call_name(x) == 'is_empty' and strip_sites(x[2][0]) == a[0])
        if es and bi not in reach_under(b, tb, {es[0]: True}):
            return ('D-GUARD', 'Salt::%s is reached only when the range is not empty (lo <= hi): the generator\'s range assertion cannot fire' % s['what'])
        return None

    RULES = ['out_of_family', 'd_range_guard', 'd_share_len', 'd_len', 'd_bounds_window', 'd_size_arg', 'd_position', 'd_hasdigest', 'd_caseinv', 'd_assertion_subject', 'd_ownassert',
             'd_guard', 'd_total', 'd_initsome_lock', 'd_counter', 'd_len_sub', 'd_preserved', 'd_refcell', 'd_decrypt_scheme', 't_reason']

    def discharge(self, s):
        for r in self.RULES:
            try:
                v = getattr(self, r)(s)
            except Exception as e:
                v = None
            if v is not None:
                return v
        return None


def reachable_bodies(F, entries):
    seen = {}
    work = list(entries)
    while work:
        b = work.pop()
        if b.path in seen:
            continue
        seen[b.path] = b
        for cl in F.closures_of(b):
            if cl.path not in seen:
                work.append(cl)
        for bi, c, t in b.calls():
            if c is None:
                continue
            cb = F.by_hash.get(c.best_hash)
            if cb is not None and cb.path not in seen:
                work.append(cb)
            # function items passed as values (e.g. map(Self::from_untagged_cbor))
        for bi, bl in enumerate(b.blocks):
            t = bl['term']
            if t and t['k'] == 'call':
                for a in t['args']:
                    if a.get('k') == 'const' and 'fn' in a:
                        cc = Callee(a['fn'])
                        cb = F.by_hash.get(cc.best_hash)
                        if cb is not None and cb.path not in seen:
                            work.append(cb)
    return seen


def slice_check(ctx, inst, entries, family):
    """Panic-freedom slice: every panic-capable site reachable from the entry bodies is discharged (or a listed C16 known finding)."""
    from .core import load_known
    F = ctx.F
    entries = [e for e in entries if e is not None]
    if not entries:
        ctx.lost(inst, 'entry points of the %s family' % family)
        return
    L = Ledger(ctx)
    reach = reachable_bodies(F, entries)
    known = {k['key'] for k in load_known() if k.get('status') == 'known' and k.get('property') == 'C16'}
    n = und = 0
    for s in L.sites:
        if s['body'].path not in reach:
            continue
        n += 1
        v = L.discharge(s)
        if v is None:
            key = 'C16|' + L.key(s)
            if key in known:
                continue
            und += 1
            ctx.fail(inst, ctx.site(s['body'], s['block']), 'panic-capable site reachable from the %s family is not discharged [%s %s]: %s' % (family, s['cls'], s['what'], L.key(s).split('|')[-1]),
                     key='%s|%s' % (inst, L.key(s)), rule='PANIC/UNDISCHARGED')
        elif v[0] == 'OUT-OF-FAMILY':
            ctx.fail(inst, ctx.site(s['body'], s['block']), 'a documented-misuse panic (%s) is reachable from the %s family' % (v[1], family), key='%s|oof|%s' % (inst, L.key(s)))
    if und == 0:
        ctx.ok(inst, '-', '%d panic-capable sites in %d bodies reachable from the %s family, all discharged' % (n, len(reach), family), nontrivial=n > 0)
    ctx.count('panic_sites_in_%s_family' % family, n)


# ------------------------------------------------------------------------------------------------ dependency census
# Dependency functions the crate calls whose own MIR (to depth 2) contains panic-capable instructions. Each is either in
# DEP_PRECONDITIONS (then every call site is a ledger site and must be discharged) or reviewed here with the reason why no
# argument the crate can pass reaches the panic. A new callee of this kind is reported until it is entered in one of the two
# tables: that is how D11 (SSKRShare::identifier on a short share) would have been found mechanically.
DEP_REVIEWED = {
    'compressed::Compressed as dcbor::cbor_tagged_decodable::CBORTaggedDecodable>::from_untagged_cbor': 'indexes elements[0..=3] only after `len() < 3 || len() > 4` bails; Compressed::new validates sizes',
    'encrypted_message::EncryptedMessage as dcbor::cbor_tagged_decodable::CBORTaggedDecodable>::from_untagged_cbor': 'indexes elements[0..=3] after `len() < 3` bails; Nonce / AuthenticationTag::from_data_ref check their lengths',
    'digest::Digest::from_data_ref': 'copy_from_slice after the explicit 32-byte length check',
    'digest::Digest::short_description': 'slices a fixed 32-byte array',
    'id::arid::ARID::short_description': 'slices a fixed 32-byte array',
    'salt::Salt::new_for_size_using': 'unwraps new_in_range_using over a range it computes itself (lo <= hi by construction)',
    'symmetric_key::SymmetricKey::from_data_ref': 'copy_from_slice after the explicit 32-byte length check',
    'tags_registry::register_tags': 'TagsStore::insert of the fixed, distinct registry tags (conflict precondition cannot arise); lock unwrap as D-LOCK',
    'cbor::CBOR::to_cbor_data': 'varint width match has an unreachable default arm',
    'cbor_codable::CBOREncodable::to_cbor_data': 'same as CBOR::to_cbor_data',
    'cbor::CBOR::try_from_data': 'the validating parser indexes only behind its own length checks (trusted base of C06)',
    'cbor_tagged_decodable::CBORTaggedDecodable::from_tagged_cbor': 'cbor_tags()[0]: every CBORTagged impl returns a non-empty tag list (tags_for_values of a non-empty literal)',
    'cbor_tagged_encodable::CBORTaggedEncodable::tagged_cbor': 'cbor_tags()[0]: as above',
    'dump::<impl dcbor::cbor::CBOR>::hex_opt': 'diagnostic dump: slices computed from the encoded length of the same value',
    'map::Map::insert': 'key.to_cbor_data(): as CBOR::to_cbor_data',
    'tags::LazyTagsStore::get': 'Mutex lock unwrap / store initialised inside call_once (C20.4)',
    'tags::tags_for_values': 'unwrap_or_else, not unwrap: falls back to an unnamed tag',
    'tags_store::TagsStore as core::default::Default>::default': 'TagsStore::new over an empty array: the insert loop (whose name unwrap / conflict panic needs a tag) runs zero times',
}


def dep_census(ctx, inst):
    deps = {k: ctx.dep(k) for k in ('dcbor', 'bc_components')}
    if any(v is None for v in deps.values()):
        ctx.skip(inst, 'dependency facts not loaded')
        return
    F = ctx.F
    direct = {}
    for k, D in deps.items():
        m = {}
        for s in enumerate_sites(D):
            if s['cls'] != 'overflow':
                m.setdefault(s['body'].path, []).append((s['cls'], s['what']))
        direct[k] = m
    called = {}
    for b in F.bodies:
        if b.span and b.span.get('exp'):
            continue
        for bi, c, t in b.calls():
            if c is None:
                continue
            kr = c.rkrate or c.krate
            if kr in deps:
                cb = deps[kr].by_hash.get(c.best_hash)
                if cb is not None:
                    called.setdefault((kr, cb.path), (c, b, bi))
    def trans(D, ds, b, depth, seen):
        res = list(ds.get(b.path, []))
        if depth > 0:
            for bi, c, t in b.calls():
                cb = D.by_hash.get(c.best_hash) if c is not None else None
                if cb is not None and cb.path not in seen:
                    seen.add(cb.path)
                    res.extend(trans(D, ds, cb, depth - 1, seen))
        return res
    n = 0
    for (kr, path), (c, b, bi) in sorted(called.items()):
        ts = trans(deps[kr], direct[kr], deps[kr].by_path[path], 2, {path})
        if not ts:
            continue
        n += 1
        pre = [k for k in DEP_PRECONDITIONS if c.name == k[1] and c.is_method(k[0], k[1])]
        rev = [k for k in DEP_REVIEWED if k in path]
        if pre:
            ctx.ok(inst, ctx.site(b, bi), 'dependency callee %s has a panicking precondition (%s): every call site is a ledger site' % (path.split('::')[-1], DEP_PRECONDITIONS[pre[0]]), nontrivial=True)
        elif rev:
            ctx.ok(inst, ctx.site(b, bi), 'dependency callee %s reviewed: %s' % (path, DEP_REVIEWED[rev[0]]), nontrivial=True)
        else:
            ctx.fail(inst, ctx.site(b, bi), 'dependency function %s, called here, contains panic-capable instructions (%s) and is neither in the precondition table nor reviewed: '
                     'its preconditions on caller-supplied data are unknown' % (path, sorted(set('%s:%s' % x for x in ts))[:4]), key='%s|dep|%s' % (inst, path), rule='PANIC/DEP-UNREVIEWED')
    ctx.count('dependency_callees_with_panic_sites', n)
