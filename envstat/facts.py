"""Load fact files and index them: bodies, items, callees, call graph, CFG utilities."""
import json, re
from collections import defaultdict


def strip_generics(path):
    """`alloc::vec::Vec::<T, A>::is_empty` -> `alloc::vec::Vec::is_empty` (for matching by role)."""
    out = []
    depth = 0
    i = 0
    while i < len(path):
        c = path[i]
        if c == '<' and i >= 2 and path[i - 2:i] == '::':
            # turbofish: drop the preceding '::' too
            depth += 1
            out = out[:-2]
        elif c == '<' and depth > 0:
            depth += 1
        elif c == '>' and depth > 0:
            depth -= 1
        elif depth == 0:
            out.append(c)
        i += 1
    return ''.join(out)


class Callee:
    """A resolved callee of a Call terminator."""
    __slots__ = ('raw', 'path', 'name', 'args', 'trait', 'self_ty', 'impl_self', 'impl_trait', 'res', 'krate', 'hash',
                 'rpath', 'rkind', 'rkrate', 'rhash', 'dk')

    def __init__(self, fn):
        self.raw = fn
        self.path = fn['path']
        self.name = fn.get('name', '')
        self.args = fn.get('args', [])
        self.trait = fn.get('trait') or fn.get('impl_trait')
        self.self_ty = fn.get('self_ty') or fn.get('impl_self')
        self.impl_self = fn.get('impl_self')
        self.impl_trait = fn.get('impl_trait')
        self.krate = fn.get('krate')
        self.hash = fn.get('hash')
        self.dk = fn.get('dk')
        r = fn.get('res')
        self.res = r
        if r:
            self.rpath = r['path']
            self.rkind = r.get('kind')
            self.rkrate = r.get('krate')
            self.rhash = r.get('hash')
        else:
            self.rpath = None
            self.rkind = None
            self.rkrate = None
            self.rhash = None

    @property
    def best(self):
        return self.rpath or self.path

    @property
    def best_hash(self):
        return self.rhash or self.hash

    @property
    def short(self):
        """Role-level name: `<SelfTy as Trait>::name` for trait methods, else generics-free path."""
        if self.trait and 'trait' in self.raw:
            return '<%s as %s>::%s' % (self.self_ty, self.trait, self.name)
        return strip_generics(self.path)

    def is_trait_method(self, trait_suffix, name=None):
        t = self.raw.get('trait') or self.raw.get('impl_trait') or ''
        if not (t == trait_suffix or t.endswith('::' + trait_suffix)):
            # also try resolved
            if self.res:
                t2 = self.res.get('impl_trait') or self.res.get('trait') or ''
                if not (t2 == trait_suffix or t2.endswith('::' + trait_suffix)):
                    return False
            else:
                return False
        return name is None or self.name == name

    def is_method(self, self_suffix, name):
        """Inherent or trait method `name` whose Self type's path ends with self_suffix (generics stripped)."""
        if self.name != name:
            return False
        for st in (self.raw.get('impl_self'), self.raw.get('self_ty'), (self.res or {}).get('impl_self')):
            if st and ty_matches(st, self_suffix):
                return True
        return False

    def __repr__(self):
        return 'Callee(%s)' % self.best


def ty_head(ty):
    """Head type constructor without refs/generics: `&'a alloc::vec::Vec<T>` -> `alloc::vec::Vec`."""
    t = ty.strip()
    while True:
        if t.startswith('&'):
            t = t[1:].lstrip()
            if t.startswith("'"):
                t = t.split(' ', 1)[1] if ' ' in t else ''
            if t.startswith('mut '):
                t = t[4:]
            continue
        break
    m = re.match(r'[A-Za-z0-9_:]+', t)
    return m.group(0) if m else t


def ty_matches(ty, suffix):
    h = ty_head(ty)
    return h == suffix or h.endswith('::' + suffix)


class Body:
    def __init__(self, raw, krate, parent=None, promoted_index=None):
        self.raw = raw
        self.krate = krate
        self.path = raw.get('path') if parent is None else '%s::promoted[%d]' % (parent.path, promoted_index)
        self.hash = raw.get('hash')
        self.name = raw.get('name', '')
        self.dk = raw.get('dk')
        self.impl_self = raw.get('impl_self')
        self.impl_trait = raw.get('impl_trait')
        self.impl_trait_full = raw.get('impl_trait_full')
        self.closure_parent = raw.get('closure_parent')
        self.span = raw.get('span')
        self.arg_count = raw['arg_count']
        self.locals = raw['locals']
        self.blocks = raw['blocks']
        self.upvars = raw.get('upvars', [])
        self.promoted = [Body(p, krate, parent=self, promoted_index=i) for i, p in enumerate(raw.get('promoted', []))] if parent is None else []
        self._succ = None
        self._pred = None
        self._dom = None
        self._callee_cache = {}

    # ---------------------------------------------------------------- CFG (normal edges only)
    def term(self, b):
        return self.blocks[b]['term']

    def succ(self, b):
        if self._succ is None:
            self._succ = [self._compute_succ(i) for i in range(len(self.blocks))]
        return self._succ[b]

    def _compute_succ(self, b):
        t = self.blocks[b]['term']
        if t is None:
            return []
        k = t['k']
        if k == 'goto':
            return [t['t']]
        if k == 'switch':
            out = [x[1] for x in t['targets']]
            out.append(t['otherwise'])
            # dedupe, keep order
            seen = []
            for x in out:
                if x not in seen:
                    seen.append(x)
            return seen
        if k in ('drop', 'assert'):
            return [t['t']]
        if k == 'call':
            return [t['t']] if t['t'] is not None else []
        return []

    def pred(self, b):
        if self._pred is None:
            self._pred = [[] for _ in self.blocks]
            for i in range(len(self.blocks)):
                if self.blocks[i]['cleanup']:
                    continue
                for s in self.succ(i):
                    self._pred[s].append(i)
        return self._pred[b]

    def normal_blocks(self):
        return [i for i, b in enumerate(self.blocks) if not b['cleanup']]

    def reachable(self, start=0, removed_edges=(), removed_blocks=()):
        """Blocks reachable from start along normal edges, not using removed edges (set of (src,dst)) or blocks."""
        removed_edges = set(removed_edges)
        removed_blocks = set(removed_blocks)
        if start in removed_blocks:
            return set()
        seen = {start}
        work = [start]
        while work:
            b = work.pop()
            for s in self.succ(b):
                if (b, s) in removed_edges or s in removed_blocks or s in seen:
                    continue
                seen.add(s)
                work.append(s)
        return seen

    def dominators(self):
        """idom-free simple dominator sets (bodies are small)."""
        if self._dom is not None:
            return self._dom
        reach = self.reachable(0)
        nodes = sorted(reach)
        dom = {n: set(nodes) for n in nodes}
        dom[0] = {0}
        changed = True
        while changed:
            changed = False
            for n in nodes:
                if n == 0:
                    continue
                ps = [p for p in self.pred(n) if p in reach]
                if not ps:
                    continue
                new = set.intersection(*[dom[p] for p in ps]) | {n}
                if new != dom[n]:
                    dom[n] = new
                    changed = True
        self._dom = dom
        return dom

    def dominates(self, a, b):
        d = self.dominators()
        return b in d and a in d[b]

    # ---------------------------------------------------------------- calls
    def callee(self, b):
        if b in self._callee_cache:
            return self._callee_cache[b]
        t = self.blocks[b]['term']
        c = None
        if t and t['k'] == 'call':
            f = t['func']
            if f.get('k') == 'const' and 'fn' in f:
                c = Callee(f['fn'])
        self._callee_cache[b] = c
        return c

    def calls(self, include_cleanup=False):
        """Yield (block index, Callee, terminator) for every direct call."""
        for i, bl in enumerate(self.blocks):
            if bl['cleanup'] and not include_cleanup:
                continue
            t = bl['term']
            if t and t['k'] == 'call':
                c = self.callee(i)
                yield i, c, t

    def line(self, b, stmt=None):
        bl = self.blocks[b]
        if stmt is not None and stmt < len(bl['stmts']):
            sp = bl['stmts'][stmt].get('span')
        else:
            sp = (bl['term'] or {}).get('span')
        if not sp:
            return '?'
        return '%s:%d:%d' % (sp['file'], sp['line'], sp['col'])

    def local_ty(self, l):
        return self.locals[l]['ty']

    def local_name(self, l):
        return self.locals[l]['name']

    def __repr__(self):
        return 'Body(%s)' % self.path


class Facts:
    def __init__(self, path):
        with open(path) as f:
            raw = json.load(f)
        self.raw = raw
        self.krate = raw['krate']
        self.nonce = raw['nonce']
        self.features = raw['features']
        self.items = raw['items']
        self.adts = raw['adts']
        self.statics = raw['statics']
        self.impls = raw['impls']
        self.unsafe = raw['unsafe']
        self.type_tree = raw['type_tree']
        allb = [Body(b, self.krate) for b in raw['bodies']]
        # const item initialisers are evaluated at compile time: kept apart from the run-time bodies
        self.bodies = [b for b in allb if not (b.dk or '').startswith(('Const', 'AssocConst'))]
        self.consts = {b.path: b for b in allb if (b.dk or '').startswith(('Const', 'AssocConst'))}
        self.by_path = {}
        self.by_hash = {}
        for b in self.bodies:
            self.by_path[b.path] = b
            self.by_hash[b.hash] = b
        self.items_by_path = {it['path']: it for it in self.items}
        self.adt_by_path = {a['path']: a for a in self.adts}
        self._callers = None
        self._hosts = None

    def derived(self, bodies):
        """A view of the same crate with a different (normalised) set of run-time bodies."""
        import copy
        N = copy.copy(self)
        N.bodies = list(bodies)
        N.by_path = {b.path: b for b in N.bodies}
        N.by_hash = {b.hash: b for b in N.bodies}
        N._callers = None
        N._hosts = None
        N.normal_form_of = self
        return N

    # ---------------------------------------------------------------- role lookups
    def method(self, self_suffix, name, trait=None):
        """All bodies that are method `name` in an impl whose self type matches `self_suffix`
        (and, if given, of trait `trait`, by path suffix)."""
        out = []
        for b in self.bodies:
            if b.name != name or b.dk not in ('AssocFn', 'Fn'):
                continue
            if b.impl_self is None or not ty_matches(b.impl_self, self_suffix):
                continue
            if trait is not None:
                if not b.impl_trait or not (b.impl_trait == trait or b.impl_trait.endswith('::' + trait)):
                    continue
            elif b.impl_trait:
                continue
            out.append(b)
        return out

    def method1(self, self_suffix, name, trait=None):
        r = self.method(self_suffix, name, trait)
        if len(r) != 1:
            return None
        return r[0]

    def trait_impl(self, trait_suffix, self_suffix=None, name=None, trait_full_contains=None):
        out = []
        for b in self.bodies:
            if not b.impl_trait:
                continue
            if not (b.impl_trait == trait_suffix or b.impl_trait.endswith('::' + trait_suffix)):
                continue
            if self_suffix is not None and not ty_matches(b.impl_self, self_suffix):
                continue
            if name is not None and b.name != name:
                continue
            if trait_full_contains is not None and trait_full_contains not in (b.impl_trait_full or ''):
                continue
            out.append(b)
        return out

    def closures_of(self, body):
        """Closure bodies defined (transitively) inside `body`."""
        pre = body.path + '::{closure#'
        out = [b for b in self.bodies if b.path.startswith(pre)]
        # closures that arrived with an inlined helper (normal forms): referenced by aggregate, defined elsewhere
        work = [body] + out
        seen = {b.path for b in work}
        while work:
            x = work.pop()
            for bl in x.blocks:
                for st in bl['stmts']:
                    if st['k'] == 'assign' and st['rv'].get('k') == 'agg' and st['rv'].get('ak') == 'closure':
                        cb = self.by_path.get(st['rv'].get('closure'))
                        if cb is not None and cb.path not in seen:
                            seen.add(cb.path)
                            out.append(cb)
                            work.append(cb)
        return out

    def closure(self, path):
        return self.by_path.get(path)

    def closure_host(self, cb):
        """The body that creates closure `cb`: its lexical parent, or (in a normal form where the parent was inlined away)
        the body now holding the closure aggregate."""
        if cb.closure_parent:
            pb = self.by_path.get(cb.closure_parent)
            if pb is not None:
                return pb
        if getattr(self, '_hosts', None) is None:
            self._hosts = {}
            for b in self.bodies:
                for bl in b.blocks:
                    for st in bl['stmts']:
                        if st['k'] == 'assign' and st['rv'].get('k') == 'agg' and st['rv'].get('ak') == 'closure':
                            self._hosts.setdefault(st['rv'].get('closure'), b)
        return self._hosts.get(cb.path)

    def callers(self):
        """map callee best-hash -> list of (Body, block)"""
        if self._callers is None:
            m = defaultdict(list)
            for b in self.bodies:
                for i, c, t in b.calls():
                    if c is None:
                        continue
                    m[c.best_hash].append((b, i))
                    if c.hash != c.best_hash:
                        m[c.hash].append((b, i))
            self._callers = m
        return self._callers

    def call_sites(self, pred):
        """All (Body, block, Callee, term) with pred(Callee) true (normal blocks only)."""
        out = []
        for b in self.bodies:
            for i, c, t in b.calls():
                if c is not None and pred(c):
                    out.append((b, i, c, t))
        return out

    def all_bodies(self, include_promoted=False):
        for b in self.bodies:
            yield b
            if include_promoted:
                for p in b.promoted:
                    yield p

    def item_is_exported(self, body):
        it = self.items_by_path.get(body.path)
        return bool(it and it.get('exported'))


# ---------------------------------------------------------------- pretty printer (debugging / reports)

def fmt_place(p):
    s = '_%d' % p['l']
    for e in p['p']:
        if e == 'deref':
            s = '(*%s)' % s
        elif isinstance(e, dict) and 'f' in e:
            s = '%s.%s' % (s, e['name'] or e['f'])
        elif isinstance(e, dict) and 'dc' in e:
            s = '(%s as %s)' % (s, e['name'])
        elif isinstance(e, dict) and 'idx' in e:
            s = '%s[_%d]' % (s, e['idx'])
        elif isinstance(e, dict) and 'cidx' in e:
            s = '%s[%s%d]' % (s, '-' if e['from_end'] else '', e['cidx'])
        else:
            s = '%s[%s]' % (s, e)
    return s


def fmt_op(o):
    if o['k'] in ('copy', 'move'):
        return o['k'] + ' ' + fmt_place(o['place'])
    if 'fn' in o:
        c = Callee(o['fn'])
        return 'fn ' + c.best
    if 'def' in o:
        return 'const ' + o['def']
    if 'promoted' in o:
        return 'promoted[%d]' % o['promoted']
    return o.get('val', '?')


def fmt_rv(r):
    k = r['k']
    if k == 'use':
        return fmt_op(r['op'])
    if k == 'ref':
        return '&' + ('mut ' if r['mut'] else '') + fmt_place(r['place'])
    if k == 'agg':
        return 'agg %s %s::%s(%s)' % (r['ak'], r.get('adt', r.get('closure', '')), r.get('variant', ''), ', '.join(fmt_op(f) for f in r['fields']))
    if k == 'binop':
        return '%s(%s, %s)' % (r['op'], fmt_op(r['a']), fmt_op(r['b']))
    if k == 'unop':
        return '%s(%s)' % (r['op'], fmt_op(r['a']))
    if k == 'discr':
        return 'discriminant(%s)' % fmt_place(r['place'])
    if k == 'cast':
        return 'cast %s %s as %s' % (r['ck'], fmt_op(r['op']), r['ty'])
    if k == 'copy_for_deref':
        return 'deref_copy ' + fmt_place(r['place'])
    if k == 'rawptr':
        return '&raw ' + fmt_place(r['place'])
    return str(r)


def dump_body(b, out=None):
    import sys
    w = (out or sys.stdout).write
    w('fn %s  (args=%d, impl_self=%s, trait=%s)\n' % (b.path, b.arg_count, b.impl_self, b.impl_trait))
    for i, l in enumerate(b.locals):
        w('  _%d: %s %s\n' % (i, l['ty'], l['name'] or ''))
    for i, bl in enumerate(b.blocks):
        w(' bb%d%s:\n' % (i, ' (cleanup)' if bl['cleanup'] else ''))
        for s in bl['stmts']:
            if s['k'] == 'assign':
                w('    %s = %s   @%d\n' % (fmt_place(s['place']), fmt_rv(s['rv']), s['span']['line']))
            elif s['k'] in ('dead', 'live'):
                pass
            else:
                w('    %s\n' % (s,))
        t = bl['term']
        if t is None:
            continue
        if t['k'] == 'call':
            w('    %s = CALL %s(%s) -> %s  @%d\n' % (fmt_place(t['dest']), fmt_op(t['func']), ', '.join(fmt_op(a) for a in t['args']), t['t'], t['span']['line']))
        elif t['k'] == 'switch':
            w('    switch %s %s else %s\n' % (fmt_op(t['discr']), t['targets'], t['otherwise']))
        elif t['k'] == 'drop':
            w('    drop %s -> %s\n' % (fmt_place(t['place']), t['t']))
        elif t['k'] == 'assert':
            w('    assert %s==%s %s -> %s\n' % (fmt_op(t['cond']), t['expected'], t['msg'], t['t']))
        else:
            w('    %s\n' % ({k: v for k, v in t.items() if k != 'span'},))
