"""Shared matchers and rule helpers used by the property modules."""
from .terms import (TermBuilder, CALLEES, CONST_INTS, strip_sites, fmt, walk, contains, phi_alts, call_name, elem_source, subst)
from .facts import strip_generics, ty_matches, Callee

ENVELOPE = 'bc_envelope::base::envelope::Envelope'
CASE = 'bc_envelope::base::envelope::EnvelopeCase'
ASSERTION = 'bc_envelope::base::assertion::Assertion'


def callee_of(t):
    if isinstance(t, tuple) and t and t[0] in ('call', 'mut'):
        return CALLEES.get(t[1])
    return None


def m_call(t, name=None, trait=None, self_suffix=None, path_end=None, kind='call'):
    """If t is a call (or 'mut') term matching the role, return its argument tuple, else None."""
    if not (isinstance(t, tuple) and t and t[0] == kind):
        return None
    c = CALLEES.get(t[1])
    if c is None:
        return None
    if name is not None and c.name != name:
        return None
    if trait is not None and not c.is_trait_method(trait):
        return None
    if self_suffix is not None:
        ok = False
        for st in (c.raw.get('impl_self'), c.raw.get('self_ty'), (c.res or {}).get('impl_self'), (c.res or {}).get('self_ty')):
            if st and ty_matches(st, self_suffix):
                ok = True
        if not ok:
            return None
    if path_end is not None:
        if not (strip_generics(c.best).endswith(path_end) or strip_generics(c.path).endswith(path_end)):
            return None
    return t[2] if kind == 'call' else t[3]


def m_digest(t):
    """digest(X) via DigestProvider::digest (any implementor) -> X"""
    a = m_call(t, name='digest', trait='DigestProvider')
    if a is not None and len(a) == 1:
        return a[0]
    return None


def m_index(t):
    """x[i] by Index::index call (Vec, slice ranges) or by built-in slice/array projection -> (x, i), else None."""
    if isinstance(t, tuple) and t:
        if t[0] == 'index' and len(t) == 3:
            return (t[1], t[2])
        if t[0] == 'call' and call_name(t) == 'index' and len(t[2]) == 2:
            return (t[2][0], t[2][1])
    return None


def same(a, b):
    return strip_sites(a) == strip_sites(b)


def is_case_ctor_wrapper(t):
    """Envelope built from an EnvelopeCase aggregate: into(agg EnvelopeCase::V{..}) / from(..) / Envelope(Rc::new(..)) -> the aggregate"""
    a = m_call(t, name='into', trait='Into')
    if a is None:
        a = m_call(t, name='from', trait='From')
    if a is not None and len(a) == 1:
        t = a[0]
    if isinstance(t, tuple) and t and t[0] == 'agg' and t[1] == ENVELOPE and len(t[3]) == 1:
        t = t[3][0]
    if isinstance(t, tuple) and t and t[0] == 'agg' and t[1] == CASE:
        return t
    return None


def agg_sites(F, adt_path, include_expansion=False):
    """Every (body, block, stmt index, rvalue) constructing `adt_path` by aggregate."""
    out = []
    for b in F.bodies:
        for bi, bl in enumerate(b.blocks):
            if bl['cleanup']:
                continue
            for si, st in enumerate(bl['stmts']):
                if st['k'] != 'assign':
                    continue
                rv = st['rv']
                if rv['k'] == 'agg' and rv.get('ak') == 'adt' and rv.get('adt') == adt_path:
                    if not include_expansion and st['span'].get('exp') and st['span'].get('mac') in ('Clone', 'Debug', 'PartialEq', 'Default'):
                        continue
                    out.append((b, bi, si, rv))
    return out


def arm_regions(body, switch_block):
    """For a switchInt: map target value (or 'otherwise') -> set of blocks reachable from that target but from no other target."""
    t = body.term(switch_block)
    targets = {v: bb for v, bb in t['targets']}
    targets['otherwise'] = t['otherwise']
    reach = {k: body.reachable(bb) for k, bb in targets.items()}
    out = {}
    for k, r in reach.items():
        others = set()
        for k2, r2 in reach.items():
            if k2 != k and targets[k2] != targets[k]:
                others |= r2
        out[k] = (targets[k], r - others)
    return out


def arm_ret_values(body, tb, switch_block, key):
    """Return-place definitions (block, idx, term) that an arm of a switch can produce: explored from the arm's target with the
    discriminant fixed to that arm, terms built only from the definitions on those paths. Arms that share a body (or-patterns),
    a tail after the match, or bindings made per alternative are all seen with the value they have for THIS arm."""
    t = body.term(switch_block)
    n = len(body.blocks[switch_block]['stmts'])
    dt = strip_sites(tb.operand_term(t['discr'], switch_block, n))
    if key == 'otherwise':
        return ret_values_under(body, tb, {}, start=t['otherwise'])
    tgt = None
    for v, bb in t['targets']:
        if v == key:
            tgt = bb
    if tgt is None:
        tgt = t['otherwise']
    return ret_values_under(body, tb, {dt: key}, start=tgt)


def block_is_unreachable(body, b):
    t = body.term(b)
    return t is not None and t['k'] == 'unreachable' and not any(s['k'] == 'assign' for s in body.blocks[b]['stmts'])


def adt_variants(F, adt_path):
    a = F.adt_by_path.get(adt_path)
    if not a:
        return None
    return [v['name'] for v in a['variants']]


def norm_returned(t):
    """A returned Result built by a combinator, rewritten to the explicit form the rules read:
         X.map(f)      == Ok(f(X?))          X.and_then(f) == f(X?)          X.map_err(g)  == X
       ('try', X) stands for the success value of X with the failure propagated (erased by detry / unwrap_try like `?`)."""
    if not (isinstance(t, tuple) and t and t[0] == 'call'):
        return t
    sp = strip_generics(t[1])
    if sp == 'core::result::Result::map' and len(t[2]) == 2:
        v = _apply_callable(t[2][1], ('try', t[2][0]))
        if v is not None:
            return ('agg', 'core::result::Result', 'Ok', (v,), ('0',))
    if sp == 'core::result::Result::and_then' and len(t[2]) == 2:
        v = _apply_callable(t[2][1], ('try', t[2][0]))
        if v is not None:
            return norm_returned(v)
    if sp == 'core::result::Result::map_err' and len(t[2]) == 2:
        return norm_returned(t[2][0])
    return t


def ret_defs(tb, region=None):
    """(block, idx, term) for each whole assignment / call into _0 (optionally restricted to a block region)."""
    out = []
    for d in tb.defs(0):
        bi, si, kind, payload = d
        if region is not None and bi not in region:
            continue
        out.append((bi, si, norm_returned(tb.def_term(0, d))))
    return out


def switch_on(tb, body, pred):
    """Yield (block, discr term) for each switchInt whose discriminant term satisfies pred."""
    for bi in body.normal_blocks():
        t = body.term(bi)
        if t and t['k'] == 'switch':
            n = len(body.blocks[bi]['stmts'])
            dt = tb.operand_term(t['discr'], bi, n)
            if pred(dt):
                yield bi, dt


CURRENT_FACTS = [None]     # set by the runner: lets the evaluator look into closures given to Option/Result combinators


def closure_value(clo, bindings):
    """Return term of a closure with its captures and the given parameter bindings substituted (None if not available)."""
    F = CURRENT_FACTS[0]
    if F is None or not (isinstance(clo, tuple) and clo and clo[0] == 'closure'):
        return None
    cb = F.closure(clo[1])
    if cb is None:
        return None
    rt = return_term_of(F, cb)
    m = {('upvar', i): c for i, c in enumerate(clo[2])}
    m.update(bindings)
    return subst(rt, m)


def _opt_state(x, env):
    """1 = Some/Ok-like present, 0 = absent, None = unknown, from a valuation of discr(x) / is_some(x) / is_ok(x)."""
    sx = strip_sites(detry_q(x))
    key = ('discr', sx)
    if key in env:
        return env[key]
    for k in env:
        if isinstance(k, tuple) and k and k[0] == 'discr' and _has_phi(k) and subsumes(k, key):
            return env[k]
    return None


# discriminants of the std sum types the evaluator knows (Try::branch maps Ok->Continue(0), Err->Break(1); Some->Continue, None->Break)
VARIANT_INDEX = {'Ok': 0, 'Err': 1, 'None': 0, 'Some': 1, 'Continue': 0, 'Break': 1}


def subsumes(key, t):
    """t is key with some merge alternatives dropped (the value of the same expression on a restricted set of paths)."""
    if key == t:
        return True
    if not isinstance(key, tuple) or not key:
        return False
    if key[0] == 'phi':
        alts = t[1] if isinstance(t, tuple) and t and t[0] == 'phi' else (t,)
        return all(any(subsumes(ka, ta) for ka in key[1]) for ta in alts)
    if not isinstance(t, tuple) or len(t) != len(key):
        return False
    for a, b in zip(key, t):
        if isinstance(a, tuple):
            if not subsumes(a, b):
                return False
        elif a != b:
            return False
    return True


def _has_phi(t):
    return contains(t, lambda x: x[0] == 'phi')


def len_value(T, env):
    """Length of collection term T under a valuation that fixes ('len', base) for some base collection:
    the base itself, or a tail base[k..] of it."""
    T = strip_sites(detry(T))
    if ('len', T) in env:
        return env[('len', T)]
    ix = m_index(T)
    if ix is not None and isinstance(ix[1], tuple) and ix[1] and ix[1][0] == 'agg' and ix[1][1].endswith('RangeFrom') and const_int(ix[1][3][0]) is not None:
        n = len_value(ix[0], env)
        if n is not None:
            return max(n - const_int(ix[1][3][0]), 0)
    return None


def _len_algebra(t, env):
    """Values that follow from a length valuation: len / is_empty / presence of first, last, split_first, get(k)."""
    if not any(isinstance(k, tuple) and k and k[0] == 'len' for k in env):
        return None
    k = t[0]
    if k == 'len':
        return len_value(t[1], env)
    if k == 'call' and len(t[2]) == 1 and call_name(t) in ('len', 'is_empty'):
        n = len_value(t[2][0], env)
        if n is not None:
            return n if call_name(t) == 'len' else (n == 0)
    if k == 'discr' and isinstance(t[1], tuple) and t[1] and t[1][0] == 'call':
        nm = call_name(t[1])
        a = t[1][2]
        if nm in ('first', 'last', 'split_first', 'split_last') and len(a) == 1:
            n = len_value(a[0], env)
            if n is not None:
                return 1 if n >= 1 else 0
        if nm == 'get' and len(a) == 2 and const_int(a[1]) is not None:
            n = len_value(a[0], env)
            if n is not None:
                return 1 if n > const_int(a[1]) else 0
    return None


def eval_bool(t, env):
    """Evaluate a boolean/int term under env: dict mapping stripped sub-terms -> python value. Returns value or None."""
    st = strip_sites(t)
    if st in env:
        return env[st]
    for k in env:
        if isinstance(k, tuple) and _has_phi(k) and subsumes(k, st):
            return env[k]
    if isinstance(st, tuple) and st:
        v = _len_algebra(st, env)
        if v is not None:
            return v
    if not isinstance(t, tuple) or not t:
        return None
    k = t[0]
    if k == 'bool':
        return t[1]
    if k == 'int':
        return t[1]
    if k == 'unop' and t[1] == 'Not':
        v = eval_bool(t[2], env)
        return None if v is None else (not v)
    if k == 'binop':
        a = eval_bool(t[2], env)
        b = eval_bool(t[3], env)
        if a is None or b is None:
            return None
        op = t[1]
        try:
            if op == 'Eq': return a == b
            if op == 'Ne': return a != b
            if op == 'Lt': return a < b
            if op == 'Le': return a <= b
            if op == 'Gt': return a > b
            if op == 'Ge': return a >= b
            if op == 'BitAnd': return (a and b) if isinstance(a, bool) else (a & b)
            if op == 'BitOr': return (a or b) if isinstance(a, bool) else (a | b)
            if op == 'BitXor': return (a != b) if isinstance(a, bool) else (a ^ b)
            if op in ('Add', 'AddUnchecked'): return a + b
            if op in ('Sub', 'SubUnchecked'): return a - b
        except TypeError:
            return None
        return None
    if k == 'cast':
        return eval_bool(t[1], env)
    if k == 'call':
        nm = call_name(t)
        a = t[2]
        if nm == 'not' and len(a) == 1:
            # core::ops::Not::not / anyhow::__private::not (the expansion of ensure!)
            v = eval_bool(a[0], env)
            return None if v is None or not isinstance(v, bool) else (not v)
        if nm in ('is_some', 'is_none') and len(a) == 1:
            d = _opt_state(a[0], env)
            if d is not None:
                return (d == 1) if nm == 'is_some' else (d == 0)
        if nm in ('is_ok', 'is_err') and len(a) == 1:
            d = _opt_state(a[0], env)
            if d is not None:
                return (d == 0) if nm == 'is_ok' else (d == 1)
        if nm in ('map_or', 'is_some_and', 'is_none_or') and len(a) >= 2:
            d = _opt_state(a[0], env)
            if d is not None:
                if d == 0:
                    return eval_bool(a[1], env) if nm == 'map_or' else (nm == 'is_none_or')
                cv = closure_value(a[-1], {('param', 2): ('vfield', a[0], 'Some', '0')})
                return eval_bool(cv, env) if cv is not None else None
        if nm == 'unwrap_or' and len(a) == 2 and isinstance(a[0], tuple) and a[0] and a[0][0] == 'call' and call_name(a[0]) == 'map':
            inner = a[0][2]
            d = _opt_state(inner[0], env)
            if d is not None:
                if d == 0:
                    return eval_bool(a[1], env)
                cv = closure_value(inner[1], {('param', 2): ('vfield', inner[0], 'Some', '0')})
                return eval_bool(cv, env) if cv is not None else None
        return None
    if k == 'discr':
        x = t[1]
        br = m_call(x, name='branch', trait='Try')
        if br is not None:
            x = br[0]
        if isinstance(x, tuple) and x and x[0] == 'agg' and x[2] in VARIANT_INDEX:
            return VARIANT_INDEX[x[2]]
        if isinstance(x, tuple) and x and x[0] == 'agg' and x[2]:
            # an explicitly built value of one of the crate's own enums (a private result enum of a helper, ..): its declared variant index
            F_ = CURRENT_FACTS[0]
            a_ = F_.adt_by_path.get(x[1]) if F_ is not None else None
            if a_ is not None:
                names = [v['name'] for v in a_['variants']]
                if x[2] in names and all(v.get('discr') in (None, i) for i, v in enumerate(a_['variants'])):
                    return names.index(x[2])
        if m_call(x, name='from_residual') is not None:
            # the value a failed `?` hands on: Err(..) of a Result, None of an Option
            c = CALLEES.get(x[1])
            tys = ' '.join([c.self_ty or ''] + list(c.args)) if c is not None else ''
            if 'result::Result' in tys.split(',')[0] or tys.lstrip().startswith('core::result::Result'):
                return 1
            if tys.lstrip().startswith('core::option::Option'):
                return 0 if br is None else 1
        if br is not None:
            # `?` on a value whose own discriminant is known: Ok -> Continue, Err -> Break; Some -> Continue, None -> Break
            known = env.get(('discr', strip_sites(x)))
            if known is not None:
                c = CALLEES.get(t[1][1])
                self_ty = ' '.join([c.self_ty or ''] + list(c.args)) if c is not None else ''
                if 'option::Option' in self_ty:
                    return 0 if known == 1 else 1
                if 'result::Result' in self_ty:
                    return known
        if isinstance(x, tuple) and x and x[0] == 'phi':
            vals = {eval_bool(('discr', a if br is None else ('call', t[1][1], (a,), None)), env) for a in x[1]}
            if len(vals) == 1:
                return vals.pop()
        if br is None and isinstance(x, tuple) and x and x[0] == 'vfield':
            # the payload of an explicitly built wrapper: discr(Try::branch(Ok(v)).Continue.0) == discr(v)
            x2 = detry(x)
            if x2 != x and isinstance(x2, tuple) and x2:
                if x2[0] == 'agg' and x2[2] in VARIANT_INDEX:
                    return VARIANT_INDEX[x2[2]]
                if x2[0] == 'phi':
                    vals = {eval_bool(('discr', a), env) for a in x2[1]}
                    if len(vals) == 1:
                        return vals.pop()
        return None
    if k == 'vfield' and t[2] == 'Continue':
        d = detry(t)
        if d is not t and d != t:
            return eval_bool(d, env)
        return None
    if k == 'phi':
        vals = {eval_bool(a, env) for a in t[1]}
        if len(vals) == 1:
            return vals.pop()
        return None
    return None


def passing_edges(body, tb, guard_pred, want):
    """Edges (src,dst) of switchInts whose discriminant depends on a guard term g (guard_pred(g) true)
    and that are taken when g evaluates to `want`.  Returns (edges_taken_when_want, guard_switch_blocks, guard_terms)."""
    edges = set()
    blocks = []
    guards = []
    for bi in body.normal_blocks():
        t = body.term(bi)
        if not t or t['k'] != 'switch':
            continue
        n = len(body.blocks[bi]['stmts'])
        dt = tb.operand_term(t['discr'], bi, n)
        gs = [x for x in walk(dt) if isinstance(x, tuple) and x and isinstance(x[0], str) and guard_pred(x)]
        if not gs:
            continue
        g = gs[0]
        env = {strip_sites(g): want}
        v = eval_bool(dt, env)
        if v is None:
            continue
        blocks.append(bi)
        guards.append(g)
        iv = int(v) if isinstance(v, bool) else v
        taken = None
        for val, bb in t['targets']:
            if val == iv:
                taken = bb
        if taken is None:
            taken = t['otherwise']
        edges.add((bi, taken))
    return edges, blocks, guards


def guard_dominates(body, tb, accept_blocks, guard_pred, passing_value):
    """True iff every accept block becomes unreachable once the passing edges of the guard are removed.
    Returns (ok, info)."""
    edges, blocks, guards = passing_edges(body, tb, guard_pred, passing_value)
    if not blocks:
        return False, 'no branch on the guard found'
    reach = reach_under(body, tb, {}, removed_edges=edges)      # flags / Option values set on the way are followed
    bad = [a for a in accept_blocks if a in reach]
    if bad:
        return False, 'accept site(s) at bb%s reachable without passing the guard (guard switches at bb%s)' % (bad, blocks)
    return True, 'guard switches at bb%s; removing passing edges %s disconnects accept sites bb%s' % (blocks, sorted(edges), sorted(accept_blocks))


def ok_sites(body, tb, variant='Ok', adt_end='Result'):
    """Blocks where _0 is assigned an aggregate `Result::Ok(..)` (or given variant). Returns list of (block, idx, term)."""
    out = []
    for bi, si, t in ret_defs(tb):
        if isinstance(t, tuple) and t and t[0] == 'agg' and t[1].endswith(adt_end) and t[2] == variant:
            out.append((bi, si, t))
    return out


def question_mark_edges(body, tb):
    """Edges taken when a `?` fails (Try::branch -> Break) : list of (switch block, break target)."""
    out = []
    for bi in body.normal_blocks():
        t = body.term(bi)
        if t and t['k'] == 'switch':
            n = len(body.blocks[bi]['stmts'])
            dt = tb.operand_term(t['discr'], bi, n)
            if dt[0] == 'discr' and m_call(dt[1], name='branch', trait='Try') is not None:
                for val, bb in t['targets']:
                    if val == 1:
                        out.append((bi, bb))
    return out


def const_int(t):
    """Integer value of an int literal or of a named integer constant."""
    if isinstance(t, tuple) and t:
        if t[0] == 'int':
            return t[1]
        if t[0] == 'const' and t[1] in CONST_INTS:
            return CONST_INTS[t[1]]
        if t[0] == 'cast':
            return const_int(t[1])
    return None


def foreign_variants(F, adt_path):
    """Variant names of an ADT recorded in the type tree (foreign ADTs reachable from local types)."""
    for n in F.type_tree:
        if n.get('adt') == adt_path and n.get('variants') is not None:
            return [v['name'] for v in n['variants']]
    return None


def unwrap_try(t):
    """Strip `?`:  Try::branch(x).Continue.0 -> x  (repeatedly, outermost)."""
    while isinstance(t, tuple) and t:
        if t[0] == 'try':
            t = t[1]
            continue
        if not (t[0] == 'vfield' and t[2] == 'Continue'):
            break
        a = m_call(t[1], name='branch', trait='Try')
        if a is None:
            break
        t = success_payload(a[0])
    return t


def executed_before(body, start):
    """Blocks that can only have run before control reached `start`: its ancestors that are not reachable from it again."""
    if start == 0:
        return set()
    anc = set()
    work = [start]
    while work:
        x = work.pop()
        for p in body.pred(x):
            if p not in anc:
                anc.add(p)
                work.append(p)
    return anc - body.reachable(start)


def reach_under(body, tb, env, start=0, stop_blocks=(), removed_edges=(), want_dead=False):
    """TABLE evaluator: blocks reachable from `start` when the atoms in env (stripped term -> value) have the given values.
    A switch whose discriminant evaluates to a definite value follows only that edge; otherwise every edge.
    Conditional evaluation: a merged value (phi) only counts the definitions made in blocks that are themselves reachable under
    env (optimistic fixpoint), so `a || b` and flag variables set on one branch are followed exactly."""
    stop_blocks = set(stop_blocks)
    removed_edges = set(removed_edges)
    outside = None
    if start != 0:
        outside = executed_before(body, start)
    seen = {start}
    saved = tb.allowed
    # facts[b]: discriminant values established by the switches on EVERY explored path to b within the current loop iteration
    # (`if let Some(x) = opt` followed later by a `match opt` sees the same answer). Dropped at loop headers.
    facts = {start: {}}
    headers = _back_edge_targets(body)
    try:
        changed = True
        while changed:
            changed = False
            # definitions count once their block is known reachable (least fixpoint: the set only grows)
            tb.allowed = frozenset(seen | outside) if outside is not None else frozenset(seen)
            for b in sorted(seen):
                if b in stop_blocks:
                    continue
                t = body.term(b)
                succs = body.succ(b)
                edge_fact = {}
                if t and t['k'] == 'switch':
                    n = len(body.blocks[b]['stmts'])
                    dt = tb.operand_term(t['discr'], b, n)
                    fb = facts.get(b) or {}
                    if fb:
                        env_b = dict(fb)
                        env_b.update(env)
                    else:
                        env_b = env
                    v = eval_bool(dt, env_b)
                    if v is None:
                        v = _next_presence(body, tb, b, env_b)
                    sd = strip_sites(dt)
                    count = {}
                    for val, bb in t['targets']:
                        count[bb] = count.get(bb, 0) + 1
                    for val, bb in t['targets']:
                        if count[bb] == 1 and bb != t['otherwise']:
                            edge_fact[bb] = (sd, val)
                    if t.get('dty') == 'bool' and len(t['targets']) == 1 and t['targets'][0][0] == 0 and t['otherwise'] != t['targets'][0][1]:
                        edge_fact[t['otherwise']] = (sd, 1)
                    if v is not None:
                        iv = int(v) if isinstance(v, bool) else v
                        taken = None
                        for val, bb in t['targets']:
                            if val == iv:
                                taken = bb
                        if taken is None:
                            taken = t['otherwise']
                        succs = [taken]
                for s2 in succs:
                    if (b, s2) in removed_edges:
                        continue
                    nf = dict(facts.get(b) or {})
                    if s2 in edge_fact and not _has_phi(edge_fact[s2][0]) and not _stateful(edge_fact[s2][0]):
                        k_, v_ = edge_fact[s2]
                        nf[k_] = bool(v_) if (t.get('dty') == 'bool') else v_
                    if s2 in headers:
                        nf = {}
                    if s2 not in seen:
                        seen.add(s2)
                        facts[s2] = nf
                        changed = True
                    else:
                        old = facts.get(s2) or {}
                        meet = {k_: v_ for k_, v_ in old.items() if k_ in nf and nf[k_] == v_}
                        if meet != old:
                            facts[s2] = meet
                            changed = True
        if want_dead:
            # edges leaving explored blocks that the valuation rules out (final evaluation of each switch)
            dead = set()
            tb.allowed = frozenset(seen | outside) if outside is not None else frozenset(seen)
            for b in sorted(seen):
                allsucc = body.succ(b)
                if b in stop_blocks:
                    dead |= {(b, s2) for s2 in allsucc}
                    continue
                t = body.term(b)
                succs = allsucc
                if t and t['k'] == 'switch':
                    n = len(body.blocks[b]['stmts'])
                    dt = tb.operand_term(t['discr'], b, n)
                    fb = facts.get(b) or {}
                    env_b = env
                    if fb:
                        env_b = dict(fb)
                        env_b.update(env)
                    v = eval_bool(dt, env_b)
                    if v is None:
                        v = _next_presence(body, tb, b, env_b)
                    if v is not None:
                        iv = int(v) if isinstance(v, bool) else v
                        taken = None
                        for val, bb in t['targets']:
                            if val == iv:
                                taken = bb
                        if taken is None:
                            taken = t['otherwise']
                        succs = [taken]
                dead |= {(b, s2) for s2 in allsucc if s2 not in succs or (b, s2) in removed_edges}
    finally:
        tb.allowed = saved
    if want_dead:
        return seen, frozenset(dead)
    return seen


def _stateful(t):
    """the term reads an iterator's next(): two textually equal occurrences are different values, so an answer is not a path fact"""
    return contains(t, lambda y: isinstance(y, tuple) and y and (y[0] == 'next' or (y[0] == 'call' and call_name(y) in ('next', 'next_back'))))


def next_ordinal(body, tb, sb):
    """The switch at sb tests whether the k-th `next()` (k = 0, 1, ..) on one iterator over a collection X produced an element - directly
    (`match it.next()`, `let Some(a) = it.next() else ..`) or as a field of a tuple of such results (`match (it.next(), it.next())`).
    Returns (X, k): the tested value is Some iff len(X) > k. None when the calls are not straight-line (inside a loop) or not recognised."""
    t = body.term(sb)
    if not t or t['k'] != 'switch' or t['discr']['k'] not in ('move', 'copy') or t['discr']['place']['p']:
        return None
    dl = t['discr']['place']['l']
    pl = None
    for st in reversed(body.blocks[sb]['stmts']):
        if st['k'] == 'assign' and st['place']['l'] == dl and not st['place']['p'] and st['rv']['k'] == 'discr':
            pl = st['rv']['place']
            break
    if pl is None:
        return None
    fields = [p for p in pl['p'] if isinstance(p, dict) and 'f' in p]
    if [p for p in pl['p'] if not (isinstance(p, dict) and 'f' in p) and p != 'deref']:
        return None
    if not fields:
        N = chase_local(body, tb, pl['l'])
    elif len(fields) == 1:
        ds = tb.defs(pl['l'])
        if len(ds) != 1 or ds[0][2] != 'assign' or ds[0][3]['k'] != 'agg' or ds[0][3].get('ak') != 'tuple':
            return None
        fs = ds[0][3]['fields']
        if fields[0]['f'] >= len(fs):
            return None
        op = fs[fields[0]['f']]
        if op['k'] not in ('move', 'copy') or op['place']['p']:
            return None
        N = chase_local(body, tb, op['place']['l'])
    else:
        return None
    nd = tb.defs(N)
    if len(nd) != 1 or nd[0][2] != 'call':
        return None
    Bn = nd[0][0]
    c = body.callee(Bn)
    if c is None or c.name != 'next' or not nd[0][3]['args']:
        return None
    def root_of(call_term):
        a0 = call_term['args'][0]
        if a0['k'] not in ('move', 'copy'):
            return None
        return chase_local(body, tb, a0['place']['l'], through_calls=('by_ref',))
    root = root_of(nd[0][3])
    if root is None:
        return None
    sibs = []
    for bi, c2, t2 in body.calls():
        if c2 is not None and c2.name == 'next' and t2['args'] and root_of(t2) == root:
            if any(bi in body.reachable(s_) for s_ in body.succ(bi)):
                return None      # a next() of this iterator inside a loop: no fixed ordinal
            sibs.append(bi)
    k = sum(1 for bi in sibs if bi != Bn and body.dominates(bi, Bn))
    if any(bi != Bn and not body.dominates(bi, Bn) and not body.dominates(Bn, bi) for bi in sibs):
        return None
    args = tb.call_args(Bn)
    X = strip_sites(detry(elem_source(args[0])))
    while X[0] == 'call' and call_name(X) in ('iter', 'into_iter', 'deref', 'as_slice', 'by_ref', 'iter_mut') and len(X[2]) == 1:
        X = strip_sites(detry(X[2][0]))
    return X, k


def _next_presence(body, tb, sb, env):
    """Discriminant (1 = Some, 0 = None) of the k-th next() tested at sb under a valuation of the collection's element count."""
    if not any(isinstance(k, tuple) and k and k[0] == 'len' for k in env):
        return None
    try:
        no = next_ordinal(body, tb, sb)
    except Exception:
        return None
    if no is None:
        return None
    X, k = no
    n = env.get(('len', X))
    if n is None:
        for key, val in env.items():
            if isinstance(key, tuple) and key and key[0] == 'len' and strip_sites(detry(key[1])) == X:
                n = val
                break
    if n is None:
        return None
    return 1 if n > k else 0


def _back_edge_targets(body):
    hs = getattr(body, '_back_targets', None)
    if hs is None:
        hs = set()
        for b in body.normal_blocks():
            for s in body.succ(b):
                if body.dominates(s, b):
                    hs.add(s)
        body._back_targets = hs
    return hs


def ret_values_under(body, tb, env, start=0, stop_blocks=()):
    """(block, idx, term) of the return-place definitions reachable under env, each term built from the definitions that are
    themselves reachable under env (so a value merged from several branches shows only the branch taken)."""
    R, dead = reach_under(body, tb, env, start=start, stop_blocks=stop_blocks, want_dead=True)
    outside = executed_before(body, start)
    saved, saved_d = tb.allowed, tb.dead_edges
    out = []
    try:
        tb.allowed = frozenset(R | outside)
        tb.dead_edges = dead or None
        for d in tb.defs(0):
            if d[0] in R:
                out.append((d[0], d[1], norm_returned(tb.def_term(0, d))))
    finally:
        tb.allowed, tb.dead_edges = saved, saved_d
    return out


def calls_under(body, tb, env, start=0, stop_blocks=()):
    """(block, callee, argument terms) of the calls executed under the valuation env, in block order; the argument terms are
    built from the definitions on those paths only."""
    R, dead = reach_under(body, tb, env, start=start, stop_blocks=stop_blocks, want_dead=True)
    outside = executed_before(body, start)
    saved, saved_d = tb.allowed, tb.dead_edges
    out = []
    try:
        tb.allowed = frozenset(R | outside)
        tb.dead_edges = dead or None
        for bi in sorted(R):
            t = body.term(bi)
            if t and t['k'] == 'call' and not body.blocks[bi]['cleanup']:
                out.append((bi, body.callee(bi), tb.call_args(bi)))
    finally:
        tb.allowed, tb.dead_edges = saved, saved_d
    return out


def visit_terms(t, pred, out, depth=0, stripped=False):
    """Collect into `out` the distinct stripped sub-terms of t satisfying pred, looking into the closures given to Option/Result
    combinators (their parameter bound to the payload, their captures substituted)."""
    for x in walk(t):
        if isinstance(x, tuple) and x and isinstance(x[0], str) and pred(strip_sites(x) if stripped else x):
            sx = strip_sites(x)
            if sx not in out:
                out.append(sx)
        if depth < 2 and isinstance(x, tuple) and x and x[0] == 'call' and call_name(x) in ('map_or', 'is_some_and', 'is_none_or', 'map', 'and_then', 'filter') and x[2]:
            clo = x[2][-1]
            cv = closure_value(clo, {('param', 2): ('vfield', x[2][0], 'Some', '0')})
            if cv is not None:
                visit_terms(cv, pred, out, depth + 1, stripped)


def find_terms(body, tb, pred):
    """All distinct (stripped) sub-terms satisfying pred among switch discriminants and call arguments of the body."""
    out = []
    def visit(t, depth=0):
        visit_terms(t, pred, out, depth)
    for bi in body.normal_blocks():
        t = body.term(bi)
        if not t:
            continue
        n = len(body.blocks[bi]['stmts'])
        if t['k'] == 'switch':
            visit(tb.operand_term(t['discr'], bi, n))
        elif t['k'] == 'call':
            for a in t['args']:
                visit(tb.operand_term(a, bi, n))
    for bi, si, t in ret_defs(tb):
        visit(t)
    return out


def accept_sites(body, tb):
    """Definitions of the return place that may carry a success value: Result::Ok / Option::Some aggregates,
    `true`, or a pass-through of a callee's Result/Option/bool (anything that is not an explicit Err/None/false or a `?` residual)."""
    out = []
    for bi, si, t in ret_defs(tb):
        if isinstance(t, tuple) and t:
            if t[0] == 'agg' and t[2] in ('Err', 'None'):
                continue
            if m_call(t, name='from_residual') is not None:
                continue
            if t == ('bool', False):
                continue
        out.append((bi, si, t))
    return out


def detry_q(t):
    """Erase only the `?` operator: Try::branch(x).Continue.0 -> x  (payload projections `.Ok.0` / `.Some.0` are kept, so that
    "x is Ok" and "the payload of x is Some" stay different questions)."""
    if not isinstance(t, tuple) or not t:
        return t
    if t[0] == 'try':
        return detry_q(t[1])
    if t[0] == 'vfield' and t[2] == 'Continue':
        a = m_call(t[1], name='branch', trait='Try')
        if a is not None:
            return detry_q(a[0])
    return tuple(detry_q(x) if isinstance(x, tuple) else x for x in t)


def detry(t):
    """Erase `?` everywhere in a term: Try::branch(x).Continue.0 -> x."""
    if not isinstance(t, tuple) or not t:
        return t
    if t[0] == 'try':
        return success_payload(detry(t[1]))
    if t[0] == 'vfield' and t[2] == 'Continue':
        a = m_call(t[1], name='branch', trait='Try')
        if a is not None:
            return success_payload(detry(a[0]))
    if t[0] == 'vfield' and t[2] == 'Ok' and t[3] == '0':
        # the Ok payload read after a test of the discriminant: the success value, as with `?`
        return success_payload(detry(t[1]))
    if t[0] == 'vfield' and t[2] == 'Some' and t[3] == '0':
        # Some payload of `result.ok()` (possibly merged with the residuals of failed `?`s): the success value of the result
        base = detry(t[1])
        alts = phi_alts(base)
        live = [a for a in alts if m_call(a, name='from_residual') is None]
        if live and all(isinstance(a, tuple) and a and a[0] == 'call' and strip_generics(a[1]) == 'core::result::Result::ok' and len(a[2]) == 1 for a in live):
            pay = []
            for a in live:
                if a[2][0] not in pay:
                    pay.append(a[2][0])
            return pay[0] if len(pay) == 1 else ('phi', tuple(sorted(pay, key=repr)))
        return ('vfield', base, t[2], t[3])
    return tuple(detry(x) if isinstance(x, tuple) else x for x in t)


def success_payload(x):
    """`?` applied to an explicitly built Result/Option: Ok(v)? == v; a merge of Err(..) and Ok(v) alternatives yields v
    (the Err alternatives leave through the residual); any other Result-valued term stands for its success value."""
    if isinstance(x, tuple) and x:
        if x[0] == 'agg' and x[2] in ('Ok', 'Some') and (x[1].endswith('Result') or x[1].endswith('Option')) and len(x[3]) == 1:
            return x[3][0]
        if x[0] == 'call' and strip_generics(x[1]) == 'core::result::Result::ok' and len(x[2]) == 1:
            return success_payload(x[2][0])      # r.ok()? : the success value of r
        if x[0] == 'phi':
            def failure(a):
                if isinstance(a, tuple) and a and a[0] == 'agg' and a[2] in ('Err', 'None') and (a[1].endswith('Result') or a[1].endswith('Option')):
                    return True
                return m_call(a, name='from_residual') is not None      # the value a failed `?` hands to the caller
            alts = [a for a in x[1] if not failure(a)]
            if alts and len(alts) < len(x[1]) or any(isinstance(a, tuple) and a and a[0] == 'agg' and a[2] in ('Ok', 'Some') for a in alts):
                pay = []
                for a in alts:
                    p = success_payload(a)
                    if p not in pay:
                        pay.append(p)
                return pay[0] if len(pay) == 1 else ('phi', tuple(sorted(pay, key=repr)))
    return x


def strip_into(t):
    """Erase Into::into / From::from conversion calls (used when comparing CBOR-building terms)."""
    if not isinstance(t, tuple) or not t:
        return t
    if t[0] == 'call':
        c = CALLEES.get(t[1])
        if c is not None and c.name in ('into', 'from') and (c.is_trait_method('Into') or c.is_trait_method('From')) and len(t[2]) == 1:
            return strip_into(t[2][0])
    return tuple(strip_into(x) if isinstance(x, tuple) else x for x in t)


def dump_fn(F, b, out=None):
    """Debug helper: print return definitions and switch discriminants as terms."""
    import sys
    w = (out or sys.stdout).write
    tb = TermBuilder(F, b)
    for bi, si, t in ret_defs(tb):
        w('RET bb%d %s %s\n' % (bi, b.line(bi, si), fmt(detry(t))))
    for bi in b.normal_blocks():
        t = b.term(bi)
        if t and t['k'] == 'switch':
            n = len(b.blocks[bi]['stmts'])
            w('SW bb%d %s %s else %s\n' % (bi, fmt(detry(tb.operand_term(t['discr'], bi, n))), t['targets'], t['otherwise']))


_RET_CACHE = {}


def return_term_of(F, body):
    k = (id(F), body.path)
    if k not in _RET_CACHE:
        _RET_CACHE[k] = TermBuilder(F, body).return_term()
    return _RET_CACHE[k]


def success_alts(t):
    """Alternatives of a returned term that are not explicit errors / `?` residuals / None."""
    out = []
    for a in phi_alts(t):
        if isinstance(a, tuple) and a:
            if a[0] == 'agg' and a[2] in ('Err', 'None'):
                continue
            if m_call(a, name='from_residual') is not None:
                continue
        out.append(a)
    return out


_CTOR_CACHE = {}


def ctor_hashes(F):
    k = id(F)
    if k not in _CTOR_CACHE:
        hs = set()
        for adt in (ENVELOPE, CASE, ASSERTION):
            for b, bi, si, rv in agg_sites(F, adt, include_expansion=True):
                hs.add(b.hash)
        _CTOR_CACHE[k] = hs
    return _CTOR_CACHE[k]


def inline(F, t, depth=6, stack=(), strip=True, into_ctors=True):
    """Expand calls to crate-local functions that have a single success value, substituting parameters.
    With strip=True Ok(..)/Some(..)/`?` wrappers are erased along the way.  Used to look through thin constructor wrappers."""
    if depth <= 0 or not isinstance(t, tuple) or not t:
        return t
    t = detry(t)
    if strip and t[0] == 'agg' and t[2] in ('Ok', 'Some') and (t[1].endswith('Result') or t[1].endswith('Option')) and len(t[3]) == 1:
        return inline(F, t[3][0], depth, stack, strip, into_ctors)
    if t[0] == 'call':
        c = CALLEES.get(t[1])
        if c is not None:
            b = F.by_hash.get(c.best_hash)
            if b is not None and b.path not in stack and b.dk != 'Closure' and len(t[2]) == b.arg_count and (into_ctors or b.hash not in ctor_hashes(F)):
                alts = success_alts(return_term_of(F, b))
                if len(alts) == 1 and not contains(alts[0], lambda x: x[0] in ('undef', 'unknown')):
                    m = {('param', i + 1): a for i, a in enumerate(t[2])}
                    return inline(F, subst(alts[0], m), depth - 1, stack + (b.path,), strip, into_ctors)
    return t


def inline_deep(F, t, depth=12, root=True):
    """inline() applied at every sub-term (top-down), so wrappers nested inside core calls are expanded too.
    Only the root has its Ok/Some wrapper stripped."""
    if depth <= 0 or not isinstance(t, tuple) or not t:
        return t
    t2 = inline(F, t, 6, (), strip=root, into_ctors=False)
    if not isinstance(t2, tuple) or not t2:
        return t2
    return tuple(inline_deep(F, x, depth - 1, False) if isinstance(x, tuple) else x for x in t2)


def closure_return_values(F, clo_path, env):
    """TABLE: set of boolean values a closure body can return under the atom valuation env (stripped term -> value)."""
    cb = F.closure(clo_path)
    if cb is None:
        return None, None
    tb = TermBuilder(F, cb)
    reach = reach_under(cb, tb, env)
    vals = set()
    for bi, si, t in ret_defs(tb):
        if bi not in reach:
            continue
        v = eval_bool(t, env)
        vals.add(v)
    return vals, tb


def closure_atoms(F, clo_path, pred):
    cb = F.closure(clo_path)
    if cb is None:
        return []
    tb = TermBuilder(F, cb)
    out = find_terms(cb, tb, pred)
    for bi, si, t in ret_defs(tb):
        for x in walk(t):
            if isinstance(x, tuple) and x and isinstance(x[0], str) and pred(x):
                sx = strip_sites(x)
                if sx not in out:
                    out.append(sx)
    return out


# ---------------------------------------------------------------- sequence normal form
# A vector-valued term is normalised to a list of parts, in order:
#   ('one', v)    a single element v
#   ('each', v)   one element per element of a source collection, v mentions ('elem', src)
# so that `vec![a]; for x in xs { v.push(f(x)) }`, `once(a).chain(xs.iter()).map(f).collect()`,
# `let mut v = Vec::new(); v.push(a); v.extend(xs.iter().map(f))` all compare equal.

def _apply_callable(f, v):
    """Value of calling a closure / fn item on v (None when f is not understood)."""
    if not isinstance(f, tuple) or not f:
        return None
    if f[0] == 'closure':
        return closure_value(f, {('param', 2): v})
    if f[0] == 'fnref':
        return ('call', f[1], (v,), None)
    return None


def _norm_elem(v):
    """Normalise ('elem', src) sources inside a per-element value."""
    if not isinstance(v, tuple) or not v:
        return v
    if v[0] == 'elem':
        return ('elem', elem_source(_norm_elem(v[1])))
    return tuple(_norm_elem(x) if isinstance(x, tuple) else x for x in v)


def has_free_rec(t):
    """t mentions the loop-carried value ('rec',) of an ENCLOSING merge: a 'rec' under a nested merge that has a rec-free
    alternative belongs to that nested loop head, not to ours."""
    if not isinstance(t, tuple) or not t:
        return False
    if t == ('rec',):
        return True
    if t[0] == 'phi':
        alts = t[1]
        if any(not has_free_rec(a) for a in alts):
            return False
        return True
    return any(has_free_rec(x) for x in t if isinstance(x, tuple))


def seq_iter_parts(it, depth=0):
    """Parts produced by an iterator-valued term, or None."""
    if depth > 12 or not isinstance(it, tuple) or not it:
        return None
    it = detry(it)
    if it[0] == 'call':
        nm = call_name(it)
        a = it[2]
        c = CALLEES.get(it[1])
        is_iter = c is not None and (c.is_trait_method('Iterator') or c.is_trait_method('IntoIterator') or c.is_trait_method('DoubleEndedIterator'))
        if nm == 'map' and len(a) == 2 and is_iter:
            inner = seq_iter_parts(a[0], depth + 1)
            if inner is None:
                return None
            out = []
            for kind, v in inner:
                r = _apply_callable(a[1], v)
                if r is None:
                    return None
                out.append((kind, r))
            return out
        if nm == 'chain' and len(a) == 2 and is_iter:
            x, y = seq_iter_parts(a[0], depth + 1), seq_iter_parts(a[1], depth + 1)
            if x is None or y is None:
                return None
            return x + y
        if nm == 'once' and len(a) == 1 and strip_generics(it[1]).endswith('iter::sources::once::once'):
            return [('one', a[0])]
        if nm == 'empty' and not a:
            return []
        if nm in ('iter', 'into_iter', 'cloned', 'copied', 'iter_mut', 'by_ref', 'drain') and a:
            # a source adaptor over a collection: either a literal sequence or an opaque collection
            lit = seq_parts(a[0], depth + 1, literal_only=True)
            if lit is not None:
                return lit
            if nm in ('cloned', 'copied', 'by_ref'):
                return seq_iter_parts(a[0], depth + 1)
            return [('each', ('elem', elem_source(a[0])))]
    # anything else iterable: an opaque collection
    lit = seq_parts(it, depth + 1, literal_only=True)
    if lit is not None:
        return lit
    if it[0] in ('unknown', 'undef', 'rec'):
        return None
    return [('each', ('elem', elem_source(it)))]


def loop_headers(body):
    """Blocks that switch on the discriminant of an Iterator::next() result (the header of a for / while-let loop)."""
    hs = getattr(body, '_loop_headers', None)
    if hs is not None:
        return hs
    hs = []
    next_dests = set()
    for bi, c, t in body.calls():
        if c is not None and c.name == 'next' and c.is_trait_method('Iterator') and not t['dest']['p']:
            next_dests.add(t['dest']['l'])
    for h in body.normal_blocks():
        t = body.term(h)
        if not t or t['k'] != 'switch':
            continue
        d = t['discr']
        if d.get('k') not in ('move', 'copy') or d['place']['p']:
            continue
        for st in body.blocks[h]['stmts']:
            if st['k'] == 'assign' and st['place']['l'] == d['place']['l'] and st['rv']['k'] == 'discr' and st['rv']['place']['l'] in next_dests and not st['rv']['place']['p']:
                hs.append(h)
    body._loop_headers = hs
    return hs


def loop_push_total(body, push_block, use_block):
    """A `push` inside a `for`/`while let Some(..) = it.next()` loop adds one element per iteration, for every iteration,
    and the vector is only consumed (at use_block) after the iterator is exhausted:
      (a) from the Some edge of the innermost enclosing next()-switch, the header is unreachable once the push block is removed
          (no `continue` / conditional push), and
      (b) from that edge the consumer is unreachable once the header is removed (no `break` that leaves with a partial vector)."""
    heads = []
    for h in loop_headers(body):
        if not body.dominates(h, push_block) or h not in body.reachable(push_block):
            continue
        heads.append(h)
    # innermost = dominated by every other candidate
    heads = [h for h in heads if all(body.dominates(o, h) for o in heads)]
    if len(heads) != 1:
        return False
    h = heads[0]
    t = body.term(h)
    some = [bb for v, bb in t['targets'] if v == 1]
    if len(some) != 1:
        return False
    s = some[0]
    if h in body.reachable(s, removed_blocks=[push_block]):
        return False
    uses = [use_block] if isinstance(use_block, int) else list(use_block or [])
    # leaving the loop early is only harmful when the consumer can be reached that way: follow flags / Err values set on the
    # way out (collect::<Result<..>>() leaves with Err(e), which the following `?` turns into a return)
    tb_ = getattr(body, '_tb', None)
    if tb_ is None and CURRENT_FACTS[0] is not None:
        tb_ = body._tb = TermBuilder(CURRENT_FACTS[0], body)
    away = reach_under(body, tb_, {}, start=s, stop_blocks=[h]) if tb_ is not None else body.reachable(s, removed_blocks=[h])
    if any(u != push_block and u in away for u in uses):
        return False
    return True


SEQ_CTX = [None]     # (body, use_block) while a rule wants loop totality checked


def seq_parts(t, depth=0, literal_only=False):
    """Parts of a vector-valued term, or None when its construction is not understood.
    With literal_only, an opaque collection (a parameter, a field, a call result) yields None instead of a single 'each' part."""
    if depth > 12 or not isinstance(t, tuple) or not t:
        return None
    t = detry(t)
    k = t[0]
    if k in ('list', 'array'):
        return [('one', x) for x in t[1]]
    if k == 'call':
        nm = call_name(t)
        sp = strip_generics(t[1])
        if nm in ('new', 'with_capacity') and ('::Vec::' in sp or sp.startswith('alloc::vec::Vec')):
            return []
        if nm == 'collect':
            return seq_iter_parts(t[2][0], depth + 1)
        if nm in ('from_iter',) and t[2]:
            return seq_iter_parts(t[2][-1], depth + 1)
        if nm in ('to_vec', 'into_vec') and t[2]:
            return seq_parts(t[2][0], depth + 1, literal_only)
    if k == 'mut':
        nm = call_name(t)
        base, args = t[3][t[2]], t[3]
        if nm == 'push' and t[2] == 0 and len(args) == 2:
            b = seq_parts(base, depth + 1, literal_only)
            if b is None:
                return None
            return b + [('one', args[1])]
        if nm in ('extend', 'extend_from_slice', 'append') and t[2] == 0 and len(args) == 2:
            b = seq_parts(base, depth + 1, literal_only)
            e = seq_iter_parts(args[1], depth + 1)
            if b is None or e is None:
                return None
            return b + e
        if nm in ('insert',):
            return None
    if k == 'phi':
        alts = list(t[1])
        init = [a for a in alts if not has_free_rec(a)]
        loop = [a for a in alts if has_free_rec(a)]
        if len(init) == 1 and loop:
            b = seq_parts(init[0], depth + 1, literal_only)
            if b is None:
                return None
            out = list(b)
            # every loop alternative is `push(rec, v)`; several alternatives = pushes on different paths of one iteration
            vals = []
            for a in loop:
                if a[0] == 'mut' and call_name(a) == 'push' and a[2] == 0 and len(a[3]) == 2 and a[3][0] == ('rec',):
                    vals.append(a[3][1])
                else:
                    return None
            if len(vals) != 1:
                return None
            if SEQ_CTX[0] is not None:
                body, use_block = SEQ_CTX[0]
                site = loop[0][4] if len(loop[0]) > 4 else None
                if site is None:
                    return None
                if site[0] != body.path:
                    # the loop lives in a helper that was looked through: its vector leaves that helper at the return
                    F = CURRENT_FACTS[0]
                    hb = F.by_path.get(site[0]) if F is not None else None
                    if hb is None:
                        return None
                    rets = [i for i in hb.normal_blocks() if (hb.term(i) or {}).get('k') == 'return']
                    if not loop_push_total(hb, site[1], rets):
                        return None
                elif not loop_push_total(body, site[1], use_block):
                    return None
            out.append(('each', vals[0]))
            return out
        return None
    if literal_only:
        return None
    if k in ('unknown', 'undef', 'rec'):
        return None
    return [('each', ('elem', elem_source(t)))]


def seq_norm(t, body=None, use_block=None):
    """Canonical, site-free, `?`-free form of seq_parts (or None).  With body (and the block consuming the vector) loops that
    build the vector are also checked to push once per element without skipping or leaving early."""
    SEQ_CTX[0] = (body, use_block) if body is not None else None
    try:
        p = seq_parts(t)
    finally:
        SEQ_CTX[0] = None
    if p is None:
        return None
    return [(k, strip_sites(_norm_elem(detry(v)))) for k, v in p]


# ---------------------------------------------------------------- universally quantified guards
# "the accept exit is reached only if P(e) holds for every element e of collection C" is written in several ways:
#   if !C.iter().all(|e| P(e)) { bail }        if C.iter().any(|e| !P(e)) { bail }        for e in C { if !P(e) { bail } }
# ForAll objects give the rules one interface to all of them: the atoms of the element predicate and its truth table.

class ForAll:
    def __init__(self, F, body, tb, kind, coll, **kw):
        self.F, self.body, self.tb, self.kind, self.coll = F, body, tb, kind, coll
        self.__dict__.update(kw)
        # the term standing for "the element" inside atoms
        self.elem = ('param', 2) if kind in ('all', 'any') else ('elem', coll)

    def atoms(self, pred):
        """Distinct sub-terms of the element predicate satisfying pred (pred sees stripped terms)."""
        if self.kind in ('all', 'any'):
            return closure_atoms(self.F, self.clo[1], pred)
        out = []
        for bi in self.region:
            t = self.body.term(bi)
            if not t:
                continue
            n = len(self.body.blocks[bi]['stmts'])
            ts = []
            if t['k'] == 'switch':
                ts.append(self.tb.operand_term(t['discr'], bi, n))
            elif t['k'] == 'call':
                ts.extend(self.tb.operand_term(a, bi, n) for a in t['args'])
            for tt in ts:
                visit_terms(tt, pred, out, 0, stripped=True)
        return out

    def values(self, env):
        """Set of truth values of "this element passes" under the valuation env of its atoms."""
        if self.kind in ('all', 'any'):
            vals, _ = closure_return_values(self.F, self.clo[1], env)
            if vals is None or None in vals:
                return {True, False}
            return set(vals) if self.kind == 'all' else {not v for v in vals}
        reach = reach_under(self.body, self.tb, env, start=self.some, stop_blocks=[self.header])
        out = set()
        if self.header in reach:
            out.add(True)
        # an exit that leaves the loop without coming back to the header
        for bi in reach:
            if bi == self.header:
                continue
            t = self.body.term(bi)
            if t is not None and t['k'] in ('return', 'unreachable'):
                out.add(False)
            elif bi not in self.region:
                out.add(False)
        return out

    def captured(self, t):
        """Map an upvar of the predicate closure to the captured value in the host body (identity for loops)."""
        if self.kind in ('all', 'any') and isinstance(t, tuple) and t and t[0] == 'upvar' and t[1] < len(self.clo[2]):
            return strip_sites(self.clo[2][t[1]])
        return t

    def describe(self):
        if self.kind in ('all', 'any'):
            return '%s(%s, closure) is %s on every path to the exit' % (self.kind, fmt(self.coll), 'true' if self.kind == 'all' else 'false')
        return 'loop over %s (header bb%d) runs to exhaustion before the exit and continues only when the element passes' % (fmt(self.coll), self.header)


def forall_guards(F, body, tb, accept_blocks, coll_ok):
    """ForAll guards under which every accept block lies, over collections c with coll_ok(stripped c)."""
    out = []
    accept_blocks = list(accept_blocks)
    # closure forms
    def is_q(nm):
        def p(t):
            if t[0] != 'call' or call_name(t) != nm or len(t[2]) != 2 or t[2][1][0] != 'closure':
                return False
            return coll_ok(strip_sites(elem_source(t[2][0])))
        return p
    for nm, passing in (('all', True), ('any', False)):
        for g in find_terms(body, tb, is_q(nm)):
            ok, info = guard_dominates(body, tb, accept_blocks, lambda x, g=g: strip_sites(x) == g, passing)
            if ok:
                out.append(ForAll(F, body, tb, nm, strip_sites(elem_source(g[2][0])), clo=g[2][1], term=g, info=info))
    # loop form
    for h in body.normal_blocks():
        t = body.term(h)
        if not t or t['k'] != 'switch':
            continue
        n = len(body.blocks[h]['stmts'])
        dt = tb.operand_term(t['discr'], h, n)
        if not (dt[0] == 'discr' and isinstance(dt[1], tuple) and dt[1][0] == 'next'):
            continue
        coll = strip_sites(dt[1][1])
        if not coll_ok(coll):
            continue
        some = [bb for v, bb in t['targets'] if v == 1]
        none = [bb for v, bb in t['targets'] if v == 0]
        if len(some) != 1 or len(none) != 1:
            continue
        # every accept lies behind the exhausted edge of this loop (flags set on the way out are followed: `let ok = loop-result; if ok {..}`)
        reach = reach_under(body, tb, {}, removed_edges={(h, none[0])})
        if any(a in reach for a in accept_blocks):
            continue
        region = {b for b in body.reachable(some[0], removed_blocks=[h]) if h in body.reachable(b)}
        out.append(ForAll(F, body, tb, 'loop', coll, header=h, some=some[0], region=region, info='accept only behind the exhausted edge bb%d->bb%d' % (h, none[0])))
    return out


def forall_table(g, atoms, expected):
    """Check the truth table of a ForAll guard's element predicate: for every valuation of atoms, the element may pass
    (continue towards the accept) only if expected(values) is true, and can pass when it is. Returns list of bad rows."""
    import itertools
    bad = []
    for vals in itertools.product((False, True), repeat=len(atoms)):
        env = dict(zip(atoms, vals))
        got = g.values(env)
        want = bool(expected(vals))
        if want and True not in got:
            bad.append((vals, sorted(got), 'never passes'))
        if not want and True in got:
            bad.append((vals, sorted(got), 'passes'))
    return bad


# ---------------------------------------------------------------- expected compositions, compared modulo delegation
def expected_call(F, name, *args, self_suffix='Envelope'):
    """A call term to the crate's method `name` (for writing the expected value of a composition); None if absent."""
    b = F.method1(self_suffix, name)
    if b is None or any(a is None for a in args):
        return None
    if b.path not in CALLEES:
        CALLEES[b.path] = Callee({'path': b.path, 'name': b.name, 'hash': b.hash, 'krate': F.krate, 'impl_self': b.impl_self, 'dk': b.dk})
    return ('call', b.path, tuple(args), None)


NONE = ('agg', 'core::option::Option', 'None', (), ())


def pure_delegation(F, b):
    """A body whose only way to fail is the failure of a call that is part of its success value: it adds no check of its own.
    (`verify_signature_from` returns self but bails when the check fails: replacing the call by its value would drop the check.)"""
    k = ('pure', id(F), b.path)
    if k in _RET_CACHE:
        return _RET_CACHE[k]
    tb = TermBuilder(F, b)
    try:
        rds = ret_defs(tb)
    except Exception:
        _RET_CACHE[k] = False       # too large to summarise: not treated as a pure delegation (never expanded)
        return False
    succ = [t for bi, si, t in rds if not (t[0] == 'agg' and t[2] in ('Err', 'None')) and m_call(t, name='from_residual') is None]
    ok = len(succ) == 1
    if ok:
        sv = strip_sites(succ[0])
        for bi, si, t in rds:
            if t[0] == 'agg' and t[2] in ('Err', 'None') and (t[1].endswith('Result') or t[1].endswith('Option')):
                ok = False      # an explicit refusal of its own
            elif m_call(t, name='from_residual') is not None:
                src = None
                for x in walk(t):
                    a = m_call(x, name='branch', trait='Try') if isinstance(x, tuple) and x and x[0] == 'call' else None
                    if a is not None:
                        src = strip_sites(a[0])
                        break
                if src is None or not contains(sv, lambda y: y == src):
                    ok = False  # a `?` on something that does not flow into the result: a check
        # a panic-guarded value (assert!, unwrap of a test) is not modelled: treat bodies with explicit panics as impure
    _RET_CACHE[k] = ok
    return ok


def _expand_once_everywhere(F, t):
    """All terms obtained from t by expanding exactly one crate-local call (at any position) one level. Only pure delegations are
    expanded: a callee that can refuse on its own stays an opaque call, so that its check is part of the compared composition."""
    out = []
    if not isinstance(t, tuple) or not t:
        return out
    if t[0] == 'call':
        c = CALLEES.get(t[1])
        cb = F.by_hash.get(c.best_hash) if c is not None else None
        e = inline(F, t, depth=1, strip=True) if (cb is not None and pure_delegation(F, cb)) else t
        if e != t:
            out.append(e)
    for i, x in enumerate(t):
        if isinstance(x, tuple):
            for y in _expand_once_everywhere(F, x):
                out.append(t[:i] + (y,) + t[i + 1:])
    return out


def expansions(F, t, steps=3, cap=400):
    """Canonicalised variants of t reachable by at most `steps` single-call expansions."""
    t0 = detry(t)
    seen = {_canon_calls(strip_sites(t0)): t0}
    frontier = [t0]
    for _ in range(steps):
        nxt = []
        for x in frontier:
            for y in _expand_once_everywhere(F, x):
                k = _canon_calls(strip_sites(detry(y)))
                if k not in seen and len(seen) < cap:
                    seen[k] = y
                    nxt.append(y)
        frontier = nxt
    return set(seen)


def same_mod_inline(F, a, b, steps=3):
    """Two compositions are the same when some expansion of one (crate-local calls replaced by their single success value, at
    most `steps` times, anywhere) equals some expansion of the other: seal == seal_opt(.., None) == encrypt_to_recipient(sign_opt(.., None), ..)
    == encrypt_to_recipient(sign(..), ..)."""
    if a is None or b is None:
        return False
    return bool(expansions(F, a, steps) & expansions(F, b, steps))


def _canon_calls(t):
    """Callee keys replaced by their generics-free resolved path, so a synthetic expected call compares equal to a real one."""
    if not isinstance(t, tuple) or not t:
        return t
    if t[0] == 'call':
        c = CALLEES.get(t[1])
        key = strip_generics(c.best) if c is not None else t[1]
        return ('call', key, tuple(_canon_calls(x) for x in t[2]))
    return tuple(_canon_calls(x) if isinstance(x, tuple) else x for x in t)


# ---------------------------------------------------------------- "index of the first element satisfying P"
class FirstIndex:
    """position(iter(C), |e| P(e))  or the loop  i = 0; for e in C { if P(e) { found = Some(i); break } i += 1 }."""

    def __init__(self, F, body, tb, kind, coll, **kw):
        self.F, self.body, self.tb, self.kind, self.coll = F, body, tb, kind, coll
        self.__dict__.update(kw)
        self.elem = ('param', 2) if kind == 'closure' else ('elem', coll)

    def atoms(self, pred):
        if self.kind == 'closure':
            return closure_atoms(self.F, self.clo[1], pred)
        return ForAll.atoms(self, pred)

    def hit_values(self, env):
        """Truth values of "this element is the one found" under env."""
        if self.kind == 'closure':
            vals, _ = closure_return_values(self.F, self.clo[1], env)
            if vals is None or None in vals:
                return {True, False}
            return set(vals)
        R = reach_under(self.body, self.tb, env, start=self.some, stop_blocks=[self.header, self.hit])
        out = set()
        if self.hit in R:
            out.add(True)
        if self.header in R:
            out.add(False)
        return out

    def captured(self, t):
        if self.kind == 'closure' and isinstance(t, tuple) and t and t[0] == 'upvar' and t[1] < len(self.clo[2]):
            return strip_sites(self.clo[2][t[1]])
        return t


def first_index(F, body, tb, opt_term):
    """Recognise an Option<usize> term as the index of the first matching element of a collection. -> FirstIndex or None"""
    st = strip_sites(detry(opt_term))
    p = m_call(st, name='position', trait='Iterator')
    if p is not None and len(p) == 2 and p[1][0] == 'closure':
        return FirstIndex(F, body, tb, 'closure', strip_sites(elem_source(p[0])), clo=p[1], term=st)
    alts = phi_alts(st)
    somes = [a for a in alts if a[0] == 'agg' and a[1].endswith('Option') and a[2] == 'Some']
    nones = [a for a in alts if a[0] == 'agg' and a[1].endswith('Option') and a[2] == 'None']
    if len(somes) != 1 or len(somes) + len(nones) != len(alts):
        return None
    K = somes[0][3][0]
    for h in loop_headers(body):
        t = body.term(h)
        some = [bb for v, bb in t['targets'] if v == 1]
        none = [bb for v, bb in t['targets'] if v == 0]
        if len(some) != 1 or len(none) != 1:
            continue
        n = len(body.blocks[h]['stmts'])
        dt = tb.operand_term(t['discr'], h, n)
        if not (dt[0] == 'discr' and dt[1][0] == 'next'):
            continue
        coll = strip_sites(dt[1][1])
        inside = body.reachable(some[0], removed_blocks=[h])
        region = {b for b in inside if h in body.reachable(b)}
        for hb in sorted(inside):
            for si, s in enumerate(body.blocks[hb]['stmts']):
                if not (s['k'] == 'assign' and s['rv']['k'] == 'agg' and s['rv'].get('adt', '').endswith('Option') and s['rv'].get('variant') == 'Some' and len(s['rv']['fields']) == 1):
                    continue
                f = s['rv']['fields'][0]
                if f.get('k') not in ('copy', 'move') or f['place']['p']:
                    continue
                I = f['place']['l']
                if strip_sites(tb.operand_term(f, hb, si)) != K:
                    continue
                # the counter: 0 before the loop, +1 on every iteration that is not the hit
                zero = inc = None
                ok = True
                for d in tb.defs(I):
                    dbi, dsi, kind, payload = d
                    if kind != 'assign':
                        ok = False
                        break
                    rv = payload
                    if rv['k'] == 'use' and rv['op'].get('k') == 'const' and rv['op'].get('int') == 0 and body.dominates(dbi, h) and dbi not in region:
                        zero = dbi
                    elif dbi in region:
                        tv = strip_sites(tb.rvalue_term(rv, dbi, dsi))
                        if tv[0] == 'binop' and tv[1] == 'Add' and const_int(tv[3]) == 1:
                            inc = dbi
                        else:
                            ok = False
                    else:
                        ok = False
                if not ok or zero is None or inc is None:
                    continue
                if h in body.reachable(some[0], removed_blocks=[inc, hb]):
                    continue      # an iteration can come back to the header without counting
                if h in body.reachable(hb, removed_blocks=[]) and hb in region:
                    continue      # the hit does not leave the loop
                return FirstIndex(F, body, tb, 'loop', coll, header=h, some=some[0], region=region, hit=hb, term=st)
    return None


# ---------------------------------------------------------------- searches (any / find / loop with early exit) and selections (filter / conditional push)
class Search(FirstIndex):
    """`C.iter().any(|e| P(e))` or a loop over C that sets the result to true / returns on the first element with P(e)."""
    pass


def bool_search(F, body, tb=None):
    """For a bool-returning body: the search it performs, or None.  -> Search with .coll, .elem, .atoms, .hit_values"""
    tb = tb or TermBuilder(F, body)
    rt = strip_sites(detry(return_term_of(F, body)))
    a = m_call(rt, name='any', trait='Iterator')
    if a is not None and len(a) == 2 and a[1][0] == 'closure':
        return Search(F, body, tb, 'closure', strip_sites(elem_source(a[0])), clo=a[1], term=rt)
    # loop form: `true` is produced inside the loop (and leaves it), `false` only behind the exhausted edge
    carriers = {0}
    changed = True
    while changed:
        changed = False
        for bl in body.blocks:
            for st in bl['stmts']:
                if st['k'] == 'assign' and not st['place']['p'] and st['place']['l'] in carriers and st['rv']['k'] == 'use' \
                        and st['rv']['op'].get('k') in ('move', 'copy') and not st['rv']['op']['place']['p'] and st['rv']['op']['place']['l'] not in carriers:
                    carriers.add(st['rv']['op']['place']['l'])
                    changed = True
    trues, falses, others = [], [], []
    for bi in body.normal_blocks():
        for si, st in enumerate(body.blocks[bi]['stmts']):
            if st['k'] == 'assign' and not st['place']['p'] and st['place']['l'] in carriers:
                rv = st['rv']
                if rv['k'] == 'use' and rv['op'].get('k') == 'const' and 'bool' in rv['op']:
                    (trues if rv['op']['bool'] else falses).append(bi)
                elif rv['k'] == 'use' and rv['op'].get('k') in ('move', 'copy') and not rv['op']['place']['p'] and rv['op']['place']['l'] in carriers:
                    pass
                else:
                    others.append(bi)
        t = body.term(bi)
        if t and t['k'] == 'call' and not t['dest']['p'] and t['dest']['l'] in carriers:
            others.append(bi)
    if others or len(trues) != 1 or not falses:
        return None
    hit = trues[0]
    for h in loop_headers(body):
        t = body.term(h)
        some = [bb for v, bb in t['targets'] if v == 1]
        none = [bb for v, bb in t['targets'] if v == 0]
        if len(some) != 1 or len(none) != 1:
            continue
        inside = body.reachable(some[0], removed_blocks=[h])
        region = {b for b in inside if h in body.reachable(b)}
        if hit not in inside or hit in region:
            continue
        behind = body.reachable(none[0])
        if not all(f in behind and f not in inside for f in falses):
            continue
        dt = tb.operand_term(t['discr'], h, len(body.blocks[h]['stmts']))
        if not (dt[0] == 'discr' and dt[1][0] == 'next'):
            continue
        return Search(F, body, tb, 'loop', strip_sites(dt[1][1]), header=h, some=some[0], region=region, hit=hit, term=rt)
    return None


class Selection:
    """`C.into_iter().filter(|e| P(e)).collect()` or `for e in C { if P(e) { v.push(e) } }` (optionally with a map of the kept element)."""

    def __init__(self, F, body, tb, kind, coll, **kw):
        self.F, self.body, self.tb, self.kind, self.coll = F, body, tb, kind, coll
        self.__dict__.update(kw)
        self.elem = ('param', 2) if kind == 'closure' else ('elem', coll)

    def atoms(self, pred):
        if self.kind == 'closure':
            return closure_atoms(self.F, self.clo[1], pred)
        return ForAll.atoms(self, pred)

    def keep_values(self, env):
        if self.kind == 'closure':
            vals, _ = closure_return_values(self.F, self.clo[1], env)
            if vals is None or None in vals:
                return {True, False}
            return set(vals)
        R = reach_under(self.body, self.tb, env, start=self.some, stop_blocks=[self.header, self.push])
        out = set()
        if self.push in R:
            out.add(True)
        if self.header in R:
            out.add(False)
        return out

    def captured(self, t):
        if self.kind == 'closure' and isinstance(t, tuple) and t and t[0] == 'upvar' and t[1] < len(self.clo[2]):
            return strip_sites(self.clo[2][t[1]])
        return t


def selection(F, body, tb, vec_term, use_block=None):
    """Recognise a vector term as a selection of the elements of a collection. -> Selection (with .value: the kept element's image) or None"""
    t = detry(vec_term)
    col = m_call(t, name='collect', trait='Iterator')
    if col is not None:
        it = col[0]
        mapped = None
        mp = m_call(it, name='map', trait='Iterator')
        if mp is not None:
            mapped = mp[1]
            it = mp[0]
        fl = m_call(it, name='filter', trait='Iterator')
        if fl is not None and fl[1][0] == 'closure':
            coll = strip_sites(elem_source(fl[0]))
            value = ('elem', coll)
            if mapped is not None:
                value = _apply_callable(mapped, value)
                if value is None:
                    return None
            return Selection(F, body, tb, 'closure', coll, clo=fl[1], value=strip_sites(_norm_elem(detry(value))))
        return None
    if t[0] == 'phi':
        init = [a for a in t[1] if not has_free_rec(a)]
        loop = [a for a in t[1] if has_free_rec(a)]
        if len(init) == 1 and len(loop) == 1 and seq_parts(init[0], literal_only=True) == []:
            a = loop[0]
            if a[0] == 'mut' and call_name(a) == 'push' and a[2] == 0 and len(a[3]) == 2 and a[3][0] == ('rec',) and len(a) > 4 and a[4][0] == body.path:
                push_block = a[4][1]
                heads = [h for h in loop_headers(body) if body.dominates(h, push_block) and h in body.reachable(push_block)]
                heads = [h for h in heads if all(body.dominates(o, h) for o in heads)]
                if len(heads) != 1:
                    return None
                h = heads[0]
                tt = body.term(h)
                some = [bb for v, bb in tt['targets'] if v == 1]
                if len(some) != 1:
                    return None
                dt = tb.operand_term(tt['discr'], h, len(body.blocks[h]['stmts']))
                if not (dt[0] == 'discr' and dt[1][0] == 'next'):
                    return None
                coll = strip_sites(dt[1][1])
                inside = body.reachable(some[0], removed_blocks=[h])
                region = {b for b in inside if h in body.reachable(b)}
                # no way to the consumer that skips the rest of the collection
                if use_block is not None:
                    away = reach_under(body, tb, {}, start=some[0], stop_blocks=[h])
                    if use_block in away and use_block != push_block:
                        return None
                # at most one push per iteration
                if push_block in body.reachable(body.succ(push_block)[0], removed_blocks=[h]) if body.succ(push_block) else False:
                    return None
                return Selection(F, body, tb, 'loop', coll, header=h, some=some[0], region=region, push=push_block, value=strip_sites(_norm_elem(detry(a[3][1]))))
    return None


# ---------------------------------------------------------------- left fold over a collection
def fold_form(F, b, tb):
    """The returned value of b as a left fold over a collection: (init, step, acc) where step is the per-element term and acc the
    marker standing for the accumulator inside it. Iterator::fold(iter(c), init, |acc, x| step) and
    `let mut a = init; for x in c { a = step }; a` are the same fold."""
    rt = strip_sites(tb.return_term())
    a = m_call(rt, name='fold')
    if a is not None and len(a) == 3 and a[2][0] == 'closure':
        cb = F.closure(a[2][1])
        if cb is None:
            return None
        step = strip_sites(TermBuilder(F, cb).return_term())
        return strip_sites(a[1]), step, ('param', 2)
    alts = phi_alts(rt)
    if len(alts) == 2:
        rec = [x for x in alts if contains(x, lambda y: y == ('rec',))]
        base = [x for x in alts if not contains(x, lambda y: y == ('rec',))]
        if len(rec) == 1 and len(base) == 1:
            if not fold_step_unconditional(b, tb):
                return None
            return base[0], rec[0], ('rec',)
        if len(base) == 2:
            # a loop whose step does not mention the accumulator at all: report it as a fold with a constant step
            loops = [x for x in base if contains(x, lambda y: isinstance(y, tuple) and y and y[0] == 'elem')]
            rest = [x for x in base if x not in loops]
            if len(loops) == 1 and len(rest) == 1:
                return rest[0], loops[0], ('rec',)
    return None


def fold_step_unconditional(b, tb):
    """Loop form of a fold: the accumulator is re-assigned in EVERY iteration - the block of its in-loop definition dominates every
    back edge of that loop (a `continue` / `if .. { acc = step }` around the step makes it a filtered fold, which is another function)."""
    heads = _back_edge_targets(b)
    def in_loop(d):
        return any(b.dominates(h, d[0]) and h in b.reachable(d[0]) for h in heads)
    if any(in_loop(d) for d in tb.defs(0)):
        A = 0       # the return place itself is the accumulator
    else:
        accs = set()
        for d in tb.defs(0):
            bi, si, kind, payload = d
            if kind == 'assign' and payload['k'] == 'use' and payload['op']['k'] in ('copy', 'move') and not payload['op']['place']['p']:
                accs.add(chase_local(b, tb, payload['op']['place']['l'], through_calls=('clone',)))
            elif kind == 'call' and b.callee(bi) is not None and b.callee(bi).name == 'clone' and payload['args'] and payload['args'][0]['k'] in ('copy', 'move') \
                    and not payload['args'][0]['place']['p']:
                accs.add(chase_local(b, tb, payload['args'][0]['place']['l'], through_calls=('clone',)))
        if len(accs) != 1:
            return False
        A = next(iter(accs))
    steps = []
    for d in tb.defs(A):
        hs = [h for h in heads if b.dominates(h, d[0]) and h in b.reachable(d[0])]
        if hs:
            steps.append((d, hs))
    if len(steps) != 1:
        return False
    d, hs = steps[0]
    # innermost loop containing the step
    h = max(hs, key=lambda x: sum(1 for y in hs if b.dominates(y, x)))
    sources = [x for x in b.normal_blocks() if h in b.succ(x) and b.dominates(h, x)]
    return bool(sources) and all(b.dominates(d[0], x) for x in sources)


# ---------------------------------------------------------------- adjacent scan with a carried "previous" element
def chase_local(body, tb, l, through_calls=()):
    """Root local of a chain of single-definition copies / moves / re-borrows (and, optionally, calls that hand their first
    argument on: digest, into_iter, by_ref ..). Stops at a local with several definitions or any other kind of definition."""
    seen = set()
    while l not in seen:
        seen.add(l)
        ds = [d for d in tb.defs(l) if d[2] in ('assign', 'call')]
        if len(ds) != 1 or len(tb.defs(l)) != 1:
            return l
        bi, si, kind, payload = ds[0]
        if kind == 'assign':
            rv = payload
            if rv['k'] == 'ref' and all(p == 'deref' for p in rv['place']['p']):
                l = rv['place']['l']
                continue
            if rv['k'] == 'use' and rv['op']['k'] in ('copy', 'move') and all(p == 'deref' for p in rv['op']['place']['p']):
                l = rv['op']['place']['l']
                continue
            return l
        c = body.callee(bi)
        a = payload['args']
        if c is not None and c.name in through_calls and a and a[0]['k'] in ('copy', 'move') and all(p == 'deref' for p in a[0]['place']['p']):
            l = a[0]['place']['l']
            continue
        return l
    return l


def _some_payload_def(d):
    """definition `x = (opt as Some).0` -> the option local, else None"""
    bi, si, kind, rv = d
    if kind != 'assign' or rv['k'] != 'use' or rv['op']['k'] not in ('copy', 'move'):
        return None
    p = rv['op']['place']['p']
    if len(p) == 2 and isinstance(p[0], dict) and p[0].get('name') == 'Some' and isinstance(p[1], dict) and p[1].get('f') == 0:
        return rv['op']['place']['l']
    return None


def prev_scan(body, tb, cmp_block):
    """`let mut it = c.iter(); let Some(mut prev) = it.next() else {..}; for cur in it { if cmp(digest(prev), digest(cur)) { prev = cur } else {..} }`
    recognised on the definitions of the two compared locals (their value terms are both "an element of c"):
      cur  : one definition, the Some payload of next(I) inside a loop;
      prev : two definitions - the Some payload of an earlier next() on the SAME iterator, made before the loop, and `prev = cur`
             in a block that dominates every back edge of that loop.
    Returns {'prev_arg': 0|1, 'header': loop header block, 'update': block of prev = cur, 'cur_next': block of the loop's next()} or None."""
    t = body.term(cmp_block)
    if not t or t['k'] != 'call' or len(t['args']) != 2:
        return None
    roots = []
    for a in t['args']:
        if a['k'] not in ('copy', 'move') or a['place']['p']:
            return None
        roots.append(chase_local(body, tb, a['place']['l'], through_calls=('digest', 'as_ref', 'borrow', 'deref')))
    def next_iter_root(opt_local):
        ds = tb.defs(opt_local)
        if len(ds) != 1 or ds[0][2] != 'call':
            return None, None
        bi = ds[0][0]
        c = body.callee(bi)
        if c is None or c.name != 'next':
            return None, None
        a0 = ds[0][3]['args'][0]
        if a0['k'] not in ('copy', 'move'):
            return None, None
        return chase_local(body, tb, a0['place']['l'], through_calls=('into_iter', 'by_ref', 'iter_mut_ref')), bi
    for pi in (0, 1):
        P, C = roots[pi], roots[1 - pi]
        cd = tb.defs(C)
        if len(cd) != 1:
            continue
        copt = _some_payload_def(cd[0])
        if copt is None:
            continue
        iroot_c, cur_next = next_iter_root(copt)
        if iroot_c is None:
            continue
        pd = [d for d in tb.defs(P)]
        if len(pd) != 2:
            continue
        init = [d for d in pd if _some_payload_def(d) is not None]
        upd = [d for d in pd if d[2] == 'assign' and _some_payload_def(d) is None]
        if len(init) != 1 or len(upd) != 1:
            continue
        iroot_p, first_next = next_iter_root(_some_payload_def(init[0]))
        if iroot_p is None or iroot_p != iroot_c:
            continue
        # prev = cur
        rv = upd[0][3]
        src = None
        if rv['k'] == 'use' and rv['op']['k'] in ('copy', 'move'):
            src = chase_local(body, tb, rv['op']['place']['l'])
        elif rv['k'] == 'ref' and all(p == 'deref' for p in rv['place']['p']):
            src = chase_local(body, tb, rv['place']['l'])
        if src != C:
            continue
        ub = upd[0][0]
        heads = [h for h in _back_edge_targets(body) if body.dominates(h, cmp_block) and body.dominates(h, cur_next) or h == cur_next]
        heads = [h for h in heads if body.dominates(init[0][0], h)]
        if len(heads) != 1:
            continue
        h = heads[0]
        back_sources = [x for x in body.normal_blocks() if h in body.succ(x) and body.dominates(h, x)]
        if not back_sources or not all(body.dominates(ub, x) for x in back_sources):
            continue
        if not body.dominates(cmp_block, ub):
            continue
        return {'prev_arg': pi, 'header': h, 'update': ub, 'cur_next': cur_next, 'prev': P, 'cur': C, 'iter': iroot_c}
    return None
