"""Normal form 2: iterator-adaptor chains lowered to explicit loops (MIR level), closures inlined at their call.

    xs.iter().filter(p).map(f).collect::<Vec<_>>()      ==>   v = Vec::new(); for x in xs.iter() { if !p(&x) { continue } v.push(f(x)) }
    it.any(p) / all(p) / find(p) / find_map(f) / position(p) / fold(init, g) / for_each(g) / v.extend(it) / collect::<Result<Vec<_>,_>>()

After lowering, a loop written by hand and the adaptor chain that does the same thing are the same kind of CFG: a `next()` header, the
element bound from its Some payload, conditions as switches in the host body, effects (push, early exit, accumulator update) as
host statements.  The transformation keeps behaviour (it is what the adaptors' own implementations do); anything it does not
understand (an unknown adaptor, a callable that is neither a closure built in the host nor a function item, an unknown collect
target) is left exactly as written."""
import copy
from . import facts as factsmod
from .normalize import _remap, _rename_local, _KEEP

ITER_TRAITS = ('Iterator', 'DoubleEndedIterator')
STAGES = {'map': 1, 'filter': 1, 'filter_map': 1, 'cloned': 0, 'copied': 0, 'by_ref': 0, 'inspect': 1}
TERMINALS = {'collect': 0, 'any': 1, 'all': 1, 'find': 1, 'find_map': 1, 'position': 1, 'fold': 2, 'for_each': 1, 'try_for_each': 1}
UNIT = {'k': 'const', 'ty': '()', 'val': '()'}


def _fn_op(path, name, krate, impl_self=None, trait=None, self_ty=None, args=()):
    fn = {'path': path, 'krate': krate, 'hash': 'synthetic:' + path, 'name': name, 'dk': 'AssocFn', 'args': list(args)}
    if impl_self:
        fn['impl_self'] = impl_self
    if trait:
        fn['trait'] = trait
        fn['self_ty'] = self_ty or ''
    return {'k': 'const', 'ty': 'fn', 'fn': fn}


def _const_bool(v):
    return {'k': 'const', 'ty': 'bool', 'int': 1 if v else 0, 'bool': bool(v), 'val': 'true' if v else 'false'}


def _const_usize(n):
    return {'k': 'const', 'ty': 'usize', 'int': n, 'val': '%d_usize' % n}


def _pl(l, *proj):
    return {'l': l, 'p': list(proj)}


def _mv(l, *proj):
    return {'k': 'move', 'place': _pl(l, *proj)}


def _cp(l, *proj):
    return {'k': 'copy', 'place': _pl(l, *proj)}


class Builder:
    """Appends locals / blocks to a raw body."""

    def __init__(self, raw, span):
        self.raw = raw
        self.span = span

    def local(self, ty='?', name=None):
        self.raw['locals'].append({'ty': ty, 'name': name, 'mut': True})
        return len(self.raw['locals']) - 1

    def block(self):
        self.raw['blocks'].append({'cleanup': False, 'stmts': [], 'term': None})
        return len(self.raw['blocks']) - 1

    def assign(self, b, place, rv):
        self.raw['blocks'][b]['stmts'].append({'k': 'assign', 'place': place, 'rv': rv, 'span': self.span})

    def use(self, b, dst, op):
        self.assign(b, _pl(dst), {'k': 'use', 'op': op})

    def goto(self, b, t):
        self.raw['blocks'][b]['term'] = {'k': 'goto', 't': t}

    def switch(self, b, op, targets, otherwise, dty='isize'):
        self.raw['blocks'][b]['term'] = {'k': 'switch', 'discr': op, 'dty': dty, 'targets': [list(x) for x in targets], 'otherwise': otherwise, 'span': self.span}

    def call(self, b, func, args, dest, target):
        self.raw['blocks'][b]['term'] = {'k': 'call', 'func': func, 'args': args, 'dest': _pl(dest), 't': target, 'unwind': 'continue',
                                        'span': self.span, 'fn_span': self.span}

    def unreachable(self):
        b = self.block()
        self.raw['blocks'][b]['term'] = {'k': 'unreachable'}
        return b


def _single_def(raw, l):
    """The unique whole-local definition of l: ('call', block) / ('assign', block, stmt index) / None."""
    found = []
    for bi, bl in enumerate(raw['blocks']):
        if bl['cleanup']:
            continue
        for si, st in enumerate(bl['stmts']):
            if st['k'] == 'assign' and st['place']['l'] == l and not st['place']['p']:
                found.append(('assign', bi, si))
        t = bl['term']
        if t and t['k'] == 'call' and t['dest']['l'] == l and not t['dest']['p']:
            found.append(('call', bi))
    return found[0] if len(found) == 1 else None


def _callee(t):
    f = t['func']
    if f.get('k') == 'const' and 'fn' in f:
        return factsmod.Callee(f['fn'])
    return None


def _is_iter_method(c, names):
    return c is not None and c.name in names and any(c.is_trait_method(tr) for tr in ITER_TRAITS)


def _plain_local(op):
    return op.get('k') in ('move', 'copy') and not op['place']['p']


class Lowering:
    def __init__(self, F):
        self.F = F
        self.inlined_closures = set()
        self.count = 0

    # ------------------------------------------------------------------ callables
    def callable_of(self, raw, op):
        """-> ('closure', local, closure body) / ('fn', operand) / None"""
        if op.get('k') == 'const' and 'fn' in op:
            return ('fn', op)
        if not _plain_local(op):
            return None
        l = op['place']['l']
        for _ in range(4):
            d = _single_def(raw, l)
            if d is None or d[0] != 'assign':
                return None
            rv = raw['blocks'][d[1]]['stmts'][d[2]]['rv']
            if rv['k'] == 'agg' and rv.get('ak') == 'closure':
                cb = self.F.by_path.get(rv['closure'])
                if cb is None:
                    return None
                return ('closure', l, cb)
            if rv['k'] == 'use' and _plain_local(rv['op']):
                l = rv['op']['place']['l']
                continue
            if rv['k'] == 'use' and rv['op'].get('k') == 'const' and 'fn' in rv['op']:
                return ('fn', rv['op'])
            return None
        return None

    def emit_call(self, B, cur, callable_, args, ret_ty='?'):
        """Emit `dst = callable(args..)` starting in block cur; returns (dst local, block where control continues)."""
        raw = B.raw
        dst = B.local(ret_ty)
        if callable_[0] == 'fn':
            nxt = B.block()
            B.call(cur, copy.deepcopy(callable_[1]), args, dst, nxt)
            return dst, nxt
        _, clo_local, cb = callable_
        H = self.lowered_raw(cb)
        loff = len(raw['locals'])
        boff = len(raw['blocks'])
        poff = len(raw.get('promoted', []))
        raw['locals'].extend(copy.deepcopy(H['locals']))
        raw.setdefault('promoted', []).extend(copy.deepcopy(H.get('promoted', [])))
        cont = None
        nblocks = []
        for hb in H['blocks']:
            nb = _remap(hb, loff, boff, poff)
            _rename_local(nb, loff, dst)
            nblocks.append(nb)
        raw['blocks'].extend(nblocks)
        cont = B.block()
        for nb in nblocks:
            nt = nb['term']
            if nt and nt['k'] == 'return':
                nb['term'] = {'k': 'goto', 't': cont}
            elif nt and nt['k'] == 'resume':
                nb['term'] = {'k': 'unreachable'}
        # environment: by reference unless the closure takes it by value
        env_ty = H['locals'][1]['ty'] if len(H['locals']) > 1 else ''
        if env_ty.lstrip().startswith('&'):
            B.assign(cur, _pl(loff + 1), {'k': 'ref', 'mut': 'mut ' in env_ty[:8], 'place': _pl(clo_local)})
        else:
            B.use(cur, loff + 1, _mv(clo_local))
        for i, a in enumerate(args):
            B.use(cur, loff + 2 + i, a)
        B.goto(cur, boff)
        self.inlined_closures.add(cb.path)
        return dst, cont

    # ------------------------------------------------------------------ per-body driver
    def lowered_raw(self, body):
        if body.path in self._done:
            return self._done[body.path]
        if body.path in self._busy:
            return body.raw
        self._busy.add(body.path)
        raw = copy.deepcopy(body.raw)
        changed = False
        limit = max(600, 8 * len(body.raw['blocks']))
        for _ in range(40):
            if not self.lower_one(raw):
                break
            changed = True
            if len(raw['blocks']) > limit:
                # a closure that (directly or through the function it belongs to) contains the chain it is inlined into keeps
                # re-creating work: give this body up and leave it as written
                raw, changed = body.raw, False
                break
        self._busy.discard(body.path)
        self._done[body.path] = raw if changed else body.raw
        return self._done[body.path]

    def chain(self, raw, op):
        """Walk back from an iterator operand through adaptor stages. -> (source local, [stage dicts], [blocks to neutralise]) or None"""
        if not _plain_local(op):
            return None
        cur = op['place']['l']
        stages = []
        dead = []
        for _ in range(12):
            d = _single_def(raw, cur)
            if d is None:
                break
            if d[0] == 'assign':
                rv = raw['blocks'][d[1]]['stmts'][d[2]]['rv']
                if rv['k'] == 'use' and rv['op'].get('k') == 'move' and not rv['op']['place']['p']:
                    cur = rv['op']['place']['l']
                    continue
                if rv['k'] == 'ref' and rv.get('mut') and not rv['place']['p']:
                    # `&mut it` handed to a by-reference terminal (any/all/find/position/find_map)
                    cur = rv['place']['l']
                    continue
                break
            t = raw['blocks'][d[1]]['term']
            c = _callee(t)
            if _is_iter_method(c, STAGES) and t['args'] and _plain_local(t['args'][0]) and len(t['args']) == 1 + STAGES[c.name]:
                st = {'name': c.name, 'block': d[1]}
                if STAGES[c.name]:
                    cal = self.callable_of(raw, t['args'][1])
                    if cal is None:
                        return None
                    st['callable'] = cal
                stages.append(st)
                dead.append(d[1])
                cur = t['args'][0]['place']['l']
                continue
            break
        stages.reverse()
        return cur, stages, dead

    def lower_one(self, raw):
        for bi, bl in enumerate(raw['blocks']):
            if bl['cleanup']:
                continue
            t = bl['term']
            if not t or t['k'] != 'call' or t.get('lowered'):
                continue
            c = _callee(t)
            kind = None
            if _is_iter_method(c, TERMINALS) and len(t['args']) == 1 + TERMINALS[c.name]:
                kind = c.name
                it_op = t['args'][0]
            elif c is not None and c.name == 'extend' and c.is_trait_method('Extend') and len(t['args']) == 2:
                kind = 'extend'
                it_op = t['args'][1]
            elif c is not None and c.name in ('then', 'then_some') and 'bool' in (c.raw.get('impl_self') or '') and len(t['args']) == 2 and t['t'] is not None and not t['dest']['p']:
                if self.lower_bool_then(raw, bi, c.name):
                    self.count += 1
                    return True
                t['lowered'] = 'skipped'
                continue
            if kind is None or t['t'] is None or t['dest']['p']:
                continue
            if self.lower_terminal(raw, bi, kind, it_op, c):
                self.count += 1
                return True
            t['lowered'] = 'skipped'
        return False

    def lower_bool_then(self, raw, bi, name):
        """`c.then(|| v)` / `c.then_some(v)`  ==>  if c { Some(v) } else { None }"""
        t = raw['blocks'][bi]['term']
        dest = t['dest']['l']
        cont = t['t']
        B = Builder(raw, t.get('span'))
        cal = None
        if name == 'then':
            cal = self.callable_of(raw, t['args'][1])
            if cal is None:
                return False
        cond, val = t['args'][0], t['args'][1]
        raw['blocks'][bi]['term'] = None
        yes, no, done = B.block(), B.block(), B.block()
        B.goto(done, cont)
        B.switch(bi, cond, [(0, no)], yes, dty='bool')
        cur = yes
        if name == 'then':
            v, cur = self.emit_call(B, cur, cal, [])
            vop = _mv(v)
        else:
            vop = val
        B.assign(cur, _pl(dest), {'k': 'agg', 'ak': 'adt', 'adt': 'core::option::Option', 'variant': 'Some', 'fields': [vop], 'field_names': ['0']})
        B.goto(cur, done)
        B.assign(no, _pl(dest), {'k': 'agg', 'ak': 'adt', 'adt': 'core::option::Option', 'variant': 'None', 'fields': [], 'field_names': []})
        B.goto(no, done)
        return True

    def lower_terminal(self, raw, bi, kind, it_op, c):
        t = raw['blocks'][bi]['term']
        span = t.get('span')
        dest = t['dest']['l']
        dest_ty = raw['locals'][dest]['ty']
        ch = self.chain(raw, it_op)
        if ch is None:
            return False
        src, stages, dead = ch
        # `extend(v, collection)` / collect over a non-iterator (IntoIterator) source: keep a by-value source as is
        cal = None
        if kind in ('any', 'all', 'find', 'find_map', 'position', 'for_each', 'try_for_each'):
            cal = self.callable_of(raw, t['args'][1])
            if cal is None:
                return False
        if kind == 'fold':
            cal = self.callable_of(raw, t['args'][2])
            if cal is None:
                return False
        mode = None
        if kind == 'collect':
            d = dest_ty.replace(' ', '')
            if d.startswith('alloc::vec::Vec<'):
                mode = 'vec'
            elif d.startswith('core::result::Result<alloc::vec::Vec<'):
                mode = 'result_vec'
            elif d.startswith('core::option::Option<alloc::vec::Vec<'):
                mode = 'option_vec'
            else:
                return False
        if kind == 'extend':
            # only Vec targets; the source must be an iterator value we can call next() on
            a0 = t['args'][0]
            if not _plain_local(a0) or 'Vec<' not in raw['locals'][a0['place']['l']]['ty']:
                return False
            sty = raw['locals'][src]['ty']
            if not stages and not any(x in sty for x in ('Iter<', 'IntoIter<', 'iter::', 'Map<', 'Filter<', 'Cloned<', 'Copied<', 'Chain<', 'Windows<')):
                return False
        B = Builder(raw, span)
        cont = t['t']
        args = t['args']
        # neutralise the adaptor constructions: their results are no longer consumed
        for db in dead:
            dt = raw['blocks'][db]['term']
            raw['blocks'][db]['term'] = {'k': 'goto', 't': dt['t']}
        pre = bi
        raw['blocks'][pre]['term'] = None
        head = B.block()
        # ---- initialisation
        vec = None
        acc = None
        idx = None
        if kind == 'collect':
            vec = B.local('alloc::vec::Vec<?>') if mode != 'vec' else dest
            if mode == 'vec':
                raw['locals'][dest]['ty'] = dest_ty
            nb = B.block()
            B.call(pre, _fn_op('alloc::vec::Vec::<T>::new', 'new', 'alloc', impl_self='alloc::vec::Vec<T>'), [], vec, nb)
            B.goto(nb, head)
        elif kind == 'fold':
            acc = dest
            B.use(pre, acc, args[1])
            B.goto(pre, head)
        elif kind == 'position':
            idx = B.local('usize')
            B.use(pre, idx, _const_usize(0))
            B.goto(pre, head)
        else:
            B.goto(pre, head)
        # ---- header
        itref = B.local('&mut ' + raw['locals'][src]['ty'])
        opt = B.local('core::option::Option<?>')
        dsc = B.local('isize')
        B.assign(head, _pl(itref), {'k': 'ref', 'mut': True, 'place': _pl(src)})
        sw = B.block()
        B.call(head, _fn_op('core::iter::traits::iterator::Iterator::next', 'next', 'core', trait='core::iter::traits::iterator::Iterator',
                            self_ty=raw['locals'][src]['ty'], args=[raw['locals'][src]['ty']]), [_mv(itref)], opt, sw)
        B.assign(sw, _pl(dsc), {'k': 'discr', 'place': _pl(opt)})
        body = B.block()
        exit_ = B.block()
        done = B.block()
        B.goto(done, cont)
        B.switch(sw, _mv(dsc), [(0, exit_), (1, body)], B.unreachable())
        x = B.local('?')
        B.use(body, x, _mv(opt, {'dc': 1, 'name': 'Some'}, {'f': 0, 'name': '0', 'ty': '?'}))
        cur = body
        # ---- stages
        for st in stages:
            nm = st['name']
            if nm in ('cloned', 'copied', 'by_ref'):
                continue
            if nm == 'inspect':
                _, cur = self.emit_call(B, cur, st['callable'], [_cp(x)], '()')
                continue
            if nm == 'map':
                x, cur = self.emit_call(B, cur, st['callable'], [_mv(x)])
                continue
            if nm == 'filter':
                keep, cur = self.emit_call(B, cur, st['callable'], [_cp(x)], 'bool')
                nxt = B.block()
                B.switch(cur, _mv(keep), [(0, head)], nxt, dty='bool')
                cur = nxt
                continue
            if nm == 'filter_map':
                o, cur = self.emit_call(B, cur, st['callable'], [_mv(x)], 'core::option::Option<?>')
                d2 = B.local('isize')
                B.assign(cur, _pl(d2), {'k': 'discr', 'place': _pl(o)})
                nxt = B.block()
                B.switch(cur, _mv(d2), [(0, head), (1, nxt)], B.unreachable())
                x = B.local('?')
                B.use(nxt, x, _mv(o, {'dc': 1, 'name': 'Some'}, {'f': 0, 'name': '0', 'ty': '?'}))
                cur = nxt
                continue
            return False
        # ---- terminal
        push = _fn_op('alloc::vec::Vec::<T, A>::push', 'push', 'alloc', impl_self='alloc::vec::Vec<T, A>')
        def emit_push(cur, vec_local, val_op):
            r = B.local('&mut alloc::vec::Vec<?>')
            through = ['deref'] if raw['locals'][vec_local]['ty'].lstrip().startswith('&') else []
            B.assign(cur, _pl(r), {'k': 'ref', 'mut': True, 'place': _pl(vec_local, *through)})
            u = B.local('()')
            nb2 = B.block()
            B.call(cur, copy.deepcopy(push), [_mv(r), val_op], u, nb2)
            return nb2
        if kind == 'collect' and mode == 'vec':
            cur = emit_push(cur, vec, _mv(x))
            B.goto(cur, head)
            B.goto(exit_, done)
        elif kind == 'collect':
            ok_name, bad_name, ok_i, bad_i = ('Ok', 'Err', 0, 1) if mode == 'result_vec' else ('Some', 'None', 1, 0)
            adt = 'core::result::Result' if mode == 'result_vec' else 'core::option::Option'
            d2 = B.local('isize')
            B.assign(cur, _pl(d2), {'k': 'discr', 'place': _pl(x)})
            okb = B.block()
            badb = B.block()
            B.switch(cur, _mv(d2), [(ok_i, okb), (bad_i, badb)], B.unreachable())
            y = B.local('?')
            B.use(okb, y, _mv(x, {'dc': ok_i, 'name': ok_name}, {'f': 0, 'name': '0', 'ty': '?'}))
            c2 = emit_push(okb, vec, _mv(y))
            B.goto(c2, head)
            if mode == 'result_vec':
                e = B.local('?')
                B.use(badb, e, _mv(x, {'dc': 1, 'name': 'Err'}, {'f': 0, 'name': '0', 'ty': '?'}))
                B.assign(badb, _pl(dest), {'k': 'agg', 'ak': 'adt', 'adt': adt, 'variant': 'Err', 'fields': [_mv(e)], 'field_names': ['0']})
            else:
                B.assign(badb, _pl(dest), {'k': 'agg', 'ak': 'adt', 'adt': adt, 'variant': 'None', 'fields': [], 'field_names': []})
            B.goto(badb, done)
            B.assign(exit_, _pl(dest), {'k': 'agg', 'ak': 'adt', 'adt': adt, 'variant': ok_name, 'fields': [_mv(vec)], 'field_names': ['0']})
            B.goto(exit_, done)
        elif kind == 'extend':
            cur = emit_push(cur, args[0]['place']['l'], _mv(x))
            B.goto(cur, head)
            B.use(exit_, dest, copy.deepcopy(UNIT))
            B.goto(exit_, done)
        elif kind in ('any', 'all'):
            r, cur = self.emit_call(B, cur, cal, [_mv(x)], 'bool')
            hit = B.block()
            if kind == 'any':
                B.switch(cur, _mv(r), [(0, head)], hit, dty='bool')
            else:
                B.switch(cur, _mv(r), [(0, hit)], head, dty='bool')
            B.use(hit, dest, _const_bool(kind == 'any'))
            B.goto(hit, done)
            B.use(exit_, dest, _const_bool(kind == 'all'))
            B.goto(exit_, done)
        elif kind == 'find':
            r, cur = self.emit_call(B, cur, cal, [_cp(x)], 'bool')
            hit = B.block()
            B.switch(cur, _mv(r), [(0, head)], hit, dty='bool')
            B.assign(hit, _pl(dest), {'k': 'agg', 'ak': 'adt', 'adt': 'core::option::Option', 'variant': 'Some', 'fields': [_mv(x)], 'field_names': ['0']})
            B.goto(hit, done)
            B.assign(exit_, _pl(dest), {'k': 'agg', 'ak': 'adt', 'adt': 'core::option::Option', 'variant': 'None', 'fields': [], 'field_names': []})
            B.goto(exit_, done)
        elif kind == 'find_map':
            o, cur = self.emit_call(B, cur, cal, [_mv(x)], 'core::option::Option<?>')
            d2 = B.local('isize')
            B.assign(cur, _pl(d2), {'k': 'discr', 'place': _pl(o)})
            hit = B.block()
            B.switch(cur, _mv(d2), [(0, head), (1, hit)], B.unreachable())
            B.use(hit, dest, _mv(o))
            B.goto(hit, done)
            B.assign(exit_, _pl(dest), {'k': 'agg', 'ak': 'adt', 'adt': 'core::option::Option', 'variant': 'None', 'fields': [], 'field_names': []})
            B.goto(exit_, done)
        elif kind == 'position':
            r, cur = self.emit_call(B, cur, cal, [_mv(x)], 'bool')
            hit = B.block()
            miss = B.block()
            B.switch(cur, _mv(r), [(0, miss)], hit, dty='bool')
            B.assign(hit, _pl(dest), {'k': 'agg', 'ak': 'adt', 'adt': 'core::option::Option', 'variant': 'Some', 'fields': [_cp(idx)], 'field_names': ['0']})
            B.goto(hit, done)
            B.assign(miss, _pl(idx), {'k': 'binop', 'op': 'Add', 'a': _cp(idx), 'b': _const_usize(1)})
            B.goto(miss, head)
            B.assign(exit_, _pl(dest), {'k': 'agg', 'ak': 'adt', 'adt': 'core::option::Option', 'variant': 'None', 'fields': [], 'field_names': []})
            B.goto(exit_, done)
        elif kind == 'fold':
            r, cur = self.emit_call(B, cur, cal, [_mv(acc), _mv(x)])
            B.use(cur, acc, _mv(r))
            B.goto(cur, head)
            B.goto(exit_, done)
        elif kind == 'try_for_each':
            if not dest_ty.replace(' ', '').startswith('core::result::Result<'):
                return False
            r, cur = self.emit_call(B, cur, cal, [_mv(x)], dest_ty)
            d2 = B.local('isize')
            B.assign(cur, _pl(d2), {'k': 'discr', 'place': _pl(r)})
            bad = B.block()
            B.switch(cur, _mv(d2), [(0, head), (1, bad)], B.unreachable())
            B.use(bad, dest, _mv(r))
            B.goto(bad, done)
            B.assign(exit_, _pl(dest), {'k': 'agg', 'ak': 'adt', 'adt': 'core::result::Result', 'variant': 'Ok', 'fields': [copy.deepcopy(UNIT)], 'field_names': ['0']})
            B.goto(exit_, done)
        elif kind == 'for_each':
            r, cur = self.emit_call(B, cur, cal, [_mv(x)], '()')
            B.goto(cur, head)
            B.use(exit_, dest, copy.deepcopy(UNIT))
            B.goto(exit_, done)
        else:
            return False
        return True

    # ------------------------------------------------------------------ whole crate
    def run(self):
        self._done = {}
        self._busy = set()
        F = self.F
        new = []
        # closures first (deeper paths first) so that hosts inline already-lowered closure bodies
        order = sorted(F.bodies, key=lambda b: -b.path.count('{closure#'))
        lowered = {}
        for b in order:
            raw = self.lowered_raw(b)
            lowered[b.path] = raw
        for b in F.bodies:
            raw = lowered[b.path]
            new.append(b if raw is b.raw else factsmod.Body(raw, F.krate))
        if self.count == 0:
            return None
        L = F.derived(new)
        # closures whose every use was inlined disappear
        keep = []
        for b in L.bodies:
            if b.dk == 'Closure' and b.path in self.inlined_closures and not self.closure_still_called(L, b):
                continue
            keep.append(b)
        L = F.derived(keep)
        _KEEP.append(L)
        return L

    def closure_still_called(self, L, cb):
        """Is the closure value still handed to some call (an adaptor we did not lower, a library function, ..)?"""
        for b in L.bodies:
            locs = set()
            for bl in b.blocks:
                for st in bl['stmts']:
                    if st['k'] == 'assign' and st['rv'].get('k') == 'agg' and st['rv'].get('ak') == 'closure' and st['rv'].get('closure') == cb.path and not st['place']['p']:
                        locs.add(st['place']['l'])
            if not locs:
                continue
            # follow plain moves
            changed = True
            while changed:
                changed = False
                for bl in b.blocks:
                    for st in bl['stmts']:
                        if st['k'] == 'assign' and not st['place']['p'] and st['rv'].get('k') == 'use' and _plain_local(st['rv']['op']) and st['rv']['op']['place']['l'] in locs and st['place']['l'] not in locs:
                            locs.add(st['place']['l'])
                            changed = True
            for bl in b.blocks:
                t = bl['term']
                if t and t['k'] == 'call':
                    for a in t['args']:
                        if _plain_local(a) and a['place']['l'] in locs:
                            return True
        return False


def lowered(F):
    """-> (Facts with adaptor chains lowered to loops, number of chains lowered) or (None, 0)"""
    lw = Lowering(F)
    L = lw.run()
    return L, lw.count
