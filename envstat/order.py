"""ORDER rule: iteration order of std HashMap/HashSet must not reach an ordered sink without a sanitiser."""
from .lib import *
from .terms import TermBuilder

ITER = {'iter', 'into_iter', 'keys', 'values', 'drain', 'into_keys', 'into_values', 'iter_mut', 'values_mut'}
SANITISERS = {'sort', 'sort_by', 'sort_by_key', 'sort_unstable', 'sort_unstable_by', 'sort_unstable_by_key', 'sort_by_cached_key',
              'sort_by_cbor_encoding', 'sorted', 'sorted_by', 'sorted_by_key', 'sorted_unstable'}
INSENSITIVE = {'any', 'all', 'count', 'sum', 'min', 'max', 'is_subset', 'is_superset', 'is_disjoint', 'contains', 'len', 'is_empty', 'product',
               'min_by', 'max_by', 'min_by_key', 'max_by_key'}
# crate sinks proved order-insensitive by other obligations (node construction sorts by digest and suppresses duplicates: C01.2, C04.3)
CRATE_INSENSITIVE = {'add_assertion_envelope', 'add_assertion', 'add_assertion_envelopes', 'add_assertions', 'add_optional_assertion_envelope',
                     'add_assertion_envelope_salted', 'add_assertion_salted'}
ORDERED_TYPES = ('alloc::vec::Vec', 'alloc::collections::vec_deque::VecDeque', 'alloc::string::String')
UNORDERED_TYPES = ('std::collections::hash::set::HashSet', 'std::collections::hash::map::HashMap', 'alloc::collections::btree',
                   'dcbor::map::Map', 'dcbor::set::Set')


def is_hash_source(c):
    if c is None or c.name not in ITER:
        return False
    tys = ' '.join([c.self_ty or ''] + list(c.args) + [c.raw.get('impl_self') or ''])
    b = c.best
    return ('HashMap<' in tys or 'HashSet<' in tys or 'hash::map::' in b or 'hash::set::' in b) and 'btree' not in b


def chain_to(t, site):
    """Names of the operations enclosing the call with the given site, outermost first; None if absent."""
    if not isinstance(t, tuple) or not t:
        return None
    if t[0] == 'call' and t[3] == site:
        return []
    kids = []
    if t[0] == 'call':
        kids = list(t[2])
        label = ('call', t[1])
    elif t[0] == 'mut':
        kids = list(t[3])
        label = ('mut', t[1])
    elif t[0] == 'agg':
        kids = list(t[3])
        label = ('agg', t[1] + '::' + t[2])
    elif t[0] == 'closure':
        kids = list(t[2])
        label = ('closure', t[1])
    else:
        kids = [x for x in t[1:] if isinstance(x, tuple)]
        # containers of terms (tuples of terms)
        flat = []
        for k in kids:
            if k and isinstance(k[0], tuple):
                flat.extend(k)
            else:
                flat.append(k)
        kids = flat
        label = (t[0], '')
    for k in kids:
        r = chain_to(k, site)
        if r is not None:
            return [label] + r
    return None


def classify_chain(chain):
    """-> ('sanitised'|'insensitive'|'ordered'|'neutral', op)"""
    verdict = ('neutral', None)
    for kind, name in chain:
        last = strip_generics(name).split('::')[-1] if name else ''
        c = CALLEES.get(name)
        if kind in ('call', 'mut'):
            if last in SANITISERS:
                return ('sanitised', last)
            if last in INSENSITIVE:
                return ('insensitive', last)
            if last in CRATE_INSENSITIVE and c is not None and c.is_method('Envelope', last):
                return ('insensitive', last)
            if last in ('from_vec', 'from_iter', 'try_from_vec', 'insert', 'extend', 'collect', 'from') and c is not None:
                tys = ' '.join([c.self_ty or ''] + list(c.args) + [c.raw.get('impl_self') or '', (c.res or {}).get('impl_self') or ''])
                if any(u in tys for u in UNORDERED_TYPES) and not any(tys.strip().startswith(o) for o in ORDERED_TYPES):
                    # destination is an unordered / canonically ordered container
                    dest = c.args[0] if last in ('collect', 'from_iter') and c.args else (c.self_ty or c.raw.get('impl_self') or '')
                    if last == 'collect':
                        dest = c.args[1] if len(c.args) > 1 else ''
                    if last == 'from':
                        dest = c.self_ty or c.raw.get('impl_self') or (c.args[0] if c.args else '')
                    if any(u in dest for u in UNORDERED_TYPES):
                        return ('sanitised', last + '->' + dest.split('<')[0].split('::')[-1])
            if last in ('collect', 'from_iter', 'push', 'extend', 'extend_from_slice', 'join', 'to_vec', 'concat'):
                tys = ' '.join(list(c.args) + [c.self_ty or '']) if c else ''
                if any(o in tys for o in ORDERED_TYPES) or last in ('push', 'join', 'to_vec'):
                    verdict = ('ordered', last)
        elif kind == 'agg' and name.endswith('CBORCase::Array'):
            verdict = ('ordered', 'CBORCase::Array')
    return verdict


def hash_order_flows(F, body):
    """All (block, Callee, verdict, op, consumer description) for hash-iteration sources in body (closures of body included via their own bodies)."""
    out = []
    tb = TermBuilder(F, body)
    sources = [(bi, c) for bi, c, t in body.calls() if is_hash_source(c)]
    if not sources:
        return out
    # candidate consumer terms: every call's arguments, every return definition, every aggregate statement
    terms = []
    for bi, c, t in body.calls():
        v = tb.call_value(bi)
        terms.append((bi, v))
    for bi, si, t in ret_defs(tb):
        terms.append((bi, t))
    for bi, bl in enumerate(body.blocks):
        if bl['cleanup']:
            continue
        for si, st in enumerate(bl['stmts']):
            if st['k'] == 'assign' and st['rv']['k'] == 'agg':
                terms.append((bi, tb.rvalue_term(st['rv'], bi, si)))
    for sbi, sc in sources:
        site = (body.path, sbi)
        verdicts = []
        for bi, t in terms:
            ch = chain_to(t, site)
            if ch is None or not ch:
                continue
            verdicts.append((classify_chain(ch), bi, ch))
        # the strongest statement wins per consumer; overall: any ordered flow without sanitiser is a finding
        ordered = [v for v in verdicts if v[0][0] == 'ordered']
        safe = [v for v in verdicts if v[0][0] in ('sanitised', 'insensitive')]
        if ordered:
            # an ordered flow is acceptable only if that same value is later sanitised (a longer chain containing it)
            bad = []
            for (vd, bi, ch) in ordered:
                longer_safe = [s for s in safe if len(s[2]) > len(ch) and s[2][-len(ch):] == ch]
                if not longer_safe:
                    bad.append((vd, bi, ch))
            if bad:
                vd, bi, ch = bad[0]
                out.append((sbi, sc, 'ordered', vd[1], ' <- '.join(strip_generics(n).split('::')[-1] if n else k for k, n in ch), bi))
                continue
        if safe:
            vd, bi, ch = safe[0]
            out.append((sbi, sc, vd[0], vd[1], ' <- '.join(strip_generics(n).split('::')[-1] if n else k for k, n in ch), bi))
        elif verdicts:
            vd, bi, ch = verdicts[0]
            out.append((sbi, sc, 'neutral', None, ' <- '.join(strip_generics(n).split('::')[-1] if n else k for k, n in ch), bi))
        else:
            out.append((sbi, sc, 'unused', None, '', sbi))
    return out
