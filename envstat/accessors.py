"""Per-case tables of the small case predicates and accessors that every other rule treats as opaque."""
from .lib import *
from .terms import TermBuilder

P1 = ('param', 1)
IS_VARIANT = {'is_leaf': 'Leaf', 'is_node': 'Node', 'is_wrapped': 'Wrapped', 'is_known_value': 'KnownValue', 'is_assertion': 'Assertion',
              'is_encrypted': 'Encrypted', 'is_compressed': 'Compressed', 'is_elided': 'Elided'}
IS_SUBJECT = {'is_subject_assertion': 'Assertion', 'is_subject_encrypted': 'Encrypted', 'is_subject_compressed': 'Compressed', 'is_subject_elided': 'Elided'}


def case_rows(F, b, variants):
    """variant name -> set of outcome terms (stripped) of body b when discr(case(self)) is that variant."""
    tb = TermBuilder(F, b)
    atoms = find_terms(b, tb, lambda x: x[0] == 'discr' and m_call(x[1], name='case', self_suffix='Envelope') is not None and strip_sites(m_call(x[1], name='case', self_suffix='Envelope')[0]) == P1)
    if len(atoms) != 1:
        return None
    rows = {}
    for idx, v in enumerate(variants):
        reach = reach_under(b, tb, {atoms[0]: idx})
        outs = set()
        for bi, si, t in ret_defs(tb):
            if bi in reach:
                for a in phi_alts(strip_sites(detry(t))):
                    outs.add(a)
        rows[v] = outs
    return rows


def check_case_predicates(ctx, inst):
    F = ctx.F
    variants = adt_variants(F, CASE)
    n = 0
    for name, v in IS_VARIANT.items():
        if v not in variants:
            continue
        b = F.method1('Envelope', name)
        if b is None:
            ctx.lost(inst, 'Envelope::' + name)
            continue
        rows = case_rows(F, b, variants)
        want = {x: {('bool', x == v)} for x in variants}
        n += 1
        if rows == want:
            ctx.ok(inst, ctx.site(b), '%s is true exactly for the %s case (%d case valuations)' % (name, v, len(variants)), nontrivial=True)
        else:
            ctx.fail(inst, ctx.site(b), '%s does not test exactly the %s case: %s' % (name, v, {k: [fmt(t) for t in o] for k, o in (rows or {}).items() if o != want.get(k)}), key='%s|%s' % (inst, name))
    for name, v in IS_SUBJECT.items():
        if v not in variants:
            continue
        b = F.method1('Envelope', name)
        if b is None:
            ctx.lost(inst, 'Envelope::' + name)
            continue
        rows = case_rows(F, b, variants)
        good = rows is not None
        for x in variants if rows else []:
            outs = rows[x]
            if x == v:
                good &= outs == {('bool', True)}
            elif x == 'Node':
                good &= len(outs) == 1 and all(m_call(o, name=name, self_suffix='Envelope') is not None and strip_sites(m_call(o, name=name, self_suffix='Envelope')[0])[0] == 'vfield'
                                               and strip_sites(m_call(o, name=name, self_suffix='Envelope')[0])[2:] == ('Node', 'subject') for o in outs)
            else:
                good &= outs == {('bool', False)}
        if good:
            ctx.ok(inst, ctx.site(b), '%s: %s -> true, Node -> %s(subject), others -> false' % (name, v, name))
        else:
            ctx.fail(inst, ctx.site(b), '%s table unexpected: %s' % (name, {k: [fmt(t) for t in o] for k, o in (rows or {}).items()}), key='%s|%s' % (inst, name))
    # is_obscured = elided | encrypted | compressed
    b = F.method1('Envelope', 'is_obscured')
    if b is not None:
        import itertools
        tb = TermBuilder(F, b)
        names = [nm for nm in ('is_elided', 'is_encrypted', 'is_compressed') if IS_VARIANT[nm] in variants]
        atoms = find_terms(b, tb, lambda x: x[0] == 'call' and call_name(x) in names and strip_sites(x[2][0]) == P1)
        if {call_name(a) for a in atoms} != set(names):
            ctx.fail(inst, ctx.site(b), 'is_obscured consults %s (expected %s)' % (sorted({call_name(a) for a in atoms}), names), key=inst + '|is_obscured_atoms')
        else:
            bad = []
            for vals in itertools.product((False, True), repeat=len(atoms)):
                env = dict(zip(atoms, vals))
                reach = reach_under(b, tb, env)
                outs = {eval_bool(t, env) for bi, si, t in ret_defs(tb) if bi in reach}
                if outs != {any(vals)}:
                    bad.append((vals, outs))
            if bad:
                ctx.fail(inst, ctx.site(b), 'is_obscured is not elided | encrypted | compressed: %s' % bad[:2], key=inst + '|is_obscured_table')
            else:
                ctx.ok(inst, ctx.site(b), 'is_obscured = is_elided | is_encrypted | is_compressed')
    # as_predicate / as_object
    for name, fld in (('as_predicate', 'predicate'), ('as_object', 'object')):
        b = F.method1('Envelope', name)
        if b is None:
            ctx.lost(inst, 'Envelope::' + name)
            continue
        rows = case_rows(F, b, variants)
        good = rows is not None
        for x in variants if rows else []:
            outs = rows[x]
            if x == 'Assertion':
                ok1 = len(outs) == 1
                for o in outs:
                    inner = o[3][0] if o[0] == 'agg' and o[2] == 'Some' else None
                    a = m_call(inner, name=fld, self_suffix='Assertion') if inner is not None else None
                    ok1 &= a is not None and a[0][0] == 'vfield' and a[0][2:] == ('Assertion', '0')
                good &= ok1
            else:
                good &= all(o[0] == 'agg' and o[2] == 'None' for o in outs) and bool(outs)
        if good:
            ctx.ok(inst, ctx.site(b), '%s: Assertion -> Some(%s of the assertion), every other case -> None' % (name, fld))
        else:
            ctx.fail(inst, ctx.site(b), '%s table unexpected: %s' % (name, {k: [fmt(t) for t in o] for k, o in (rows or {}).items()}), key='%s|%s' % (inst, name))
    for name in ('predicate', 'object'):
        b = F.method1('Assertion', name)
        if b is None:
            ctx.lost(inst, 'Assertion::' + name)
            continue
        rt = strip_sites(TermBuilder(F, b).return_term())
        if rt == ('vfield', P1, '', name):
            ctx.ok(inst, ctx.site(b), 'Assertion::%s returns the %s field' % (name, name))
        else:
            ctx.fail(inst, ctx.site(b), 'Assertion::%s returns %s' % (name, fmt(rt)), key='%s|Assertion::%s' % (inst, name))
    b = F.method1('Envelope', 'case')
    if b is not None:
        rt = strip_sites(TermBuilder(F, b).return_term())
        if rt == ('vfield', P1, '', '0'):
            ctx.ok(inst, ctx.site(b), 'Envelope::case returns the wrapped EnvelopeCase')
        else:
            ctx.fail(inst, ctx.site(b), 'Envelope::case returns %s' % fmt(rt), key=inst + '|case')
