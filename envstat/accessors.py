"""Per-case tables of the small case predicates and accessors that every other rule treats as opaque."""
from .lib import *
from .terms import TermBuilder

P1 = ('param', 1)
IS_VARIANT = {'is_leaf': 'Leaf', 'is_node': 'Node', 'is_wrapped': 'Wrapped', 'is_known_value': 'KnownValue', 'is_assertion': 'Assertion',
              'is_encrypted': 'Encrypted', 'is_compressed': 'Compressed', 'is_elided': 'Elided'}
IS_SUBJECT = {'is_subject_assertion': 'Assertion', 'is_subject_encrypted': 'Encrypted', 'is_subject_compressed': 'Compressed', 'is_subject_elided': 'Elided'}


def case_rows(F, b, variants):
    """variant name -> set of outcome terms (stripped) of body b when discr(case(self)) is that variant."""
    tb = TermBuilder(F, b)
    atoms = find_terms(b, tb, lambda x: x[0] == 'discr' and m_call(x[1], name='case', self_suffix='Envelope') is not None and strip_sites(m_call(x[1], name='case', self_suffix='Envelope')[0]) == P1)
    if len(atoms) != 1:
        return None
    rows = {}
    for idx, v in enumerate(variants):
        reach = reach_under(b, tb, {atoms[0]: idx})
        outs = set()
        for bi, si, t in ret_defs(tb):
            if bi in reach:
                for a in phi_alts(strip_sites(detry(t))):
                    outs.add(a)
        rows[v] = outs
    return rows


_SHAPE_MEMO = {}


def shapes(variants, depth=2):
    """Abstract envelopes: a chain of 0..depth Node cases ending in a non-Node case (the subject chain). ('Node', 'Node', 'Elided') is
    a node whose subject is a node whose subject is an elided element."""
    inner = [v for v in variants if v != 'Node']
    out = []
    for d in range(depth + 1):
        for v in inner:
            out.append(('Node',) * d + (v,))
    return out


def shape_eval(F, b, shape, variants, stack=()):
    """Value of the bool predicate body b(&self) on the abstract envelope `shape`, or None when it is not determined by the subject
    chain's cases. Interprets: tests of discr(case(x)) and calls g(x) of crate predicates for x in {self, the matched node's subject,
    subject(self)}; everything else is left unknown."""
    key = (id(F), b.hash, shape)
    if key in _SHAPE_MEMO:
        return _SHAPE_MEMO[key]
    if (b.hash, shape) in stack or len(stack) > 12:
        return None
    tb = TermBuilder(F, b)
    def target(x):
        """shape of the envelope denoted by term x (None: unknown / not applicable under this shape)"""
        x = strip_sites(detry(x))
        while x[0] == 'call' and call_name(x) in ('clone', 'deref', 'borrow', 'as_ref') and len(x[2]) == 1:
            x = strip_sites(detry(x[2][0]))
        if x == P1:
            return shape
        if x[0] == 'vfield' and x[2:] == ('Node', 'subject'):
            c = m_call(x[1], name='case', self_suffix='Envelope')
            base = target(c[0]) if c is not None else None
            return base[1:] if base and base[0] == 'Node' and len(base) > 1 else None
        s = m_call(x, name='subject', self_suffix='Envelope')
        if s is not None:
            base = target(s[0])
            if base is None:
                return None
            return base[1:] if base[0] == 'Node' and len(base) > 1 else (base if base[0] != 'Node' else None)
        return None
    env = {}
    def consider(x):
        if x[0] == 'discr':
            c = m_call(x[1], name='case', self_suffix='Envelope')
            if c is not None:
                sh = target(c[0])
                if sh is not None:
                    env[x] = variants.index(sh[0])
            return
        if x[0] == 'call' and len(x[2]) == 1:
            c = callee_of(x)
            g = F.by_hash.get(c.best_hash) if c is not None else None
            if g is not None and g.local_ty(0) == 'bool':
                sh = target(x[2][0])
                if sh is not None:
                    v = shape_eval(F, g, sh, variants, stack + ((b.hash, shape),))
                    if v is not None:
                        env[x] = v
    cands = find_terms(b, tb, lambda x: x[0] == 'discr' or (x[0] == 'call' and len(x[2]) == 1))
    for bi, si, t in ret_defs(tb):
        for x in walk(t):
            if isinstance(x, tuple) and x and x[0] == 'call' and len(x[2]) == 1:
                sx = strip_sites(x)
                if sx not in cands:
                    cands.append(sx)
    for x in cands:
        consider(x)
    outs = set()
    for bi, si, t in ret_values_under(b, tb, env):
        for a in phi_alts(strip_sites(detry(t))):
            outs.add(eval_bool(a, env))
    res = None
    if len(outs) == 1:
        v = next(iter(outs))
        if isinstance(v, bool):
            res = v
    _SHAPE_MEMO[key] = res
    return res


def case_env(F, b, tb, vname, variants, target=None):
    """Valuation that fixes the case of self (param 1) to `vname` for body b: the discriminant of case(self) and every call g(self) of a
    crate bool predicate that is determined by self's case (is_compressed(self), is_obscured(self), ..). Returns (env, number of atoms)."""
    shape = (vname,) if vname != 'Node' else ('Node', 'Leaf')
    if target is None:
        target = P1
    elif not callable(target):
        _t = target
        target = None
    env = {}
    def is_target(x):
        x = strip_sites(detry(x))
        while x[0] == 'call' and call_name(x) in ('clone', 'deref', 'borrow', 'as_ref') and len(x[2]) == 1:
            x = strip_sites(detry(x[2][0]))
        return x == P1 if target is P1 else (target(x) if target is not None else x == _t)
    for x in find_terms(b, tb, lambda x: x[0] == 'discr' or (x[0] == 'call' and len(x[2]) == 1)):
        if x[0] == 'discr':
            c = m_call(x[1], name='case', self_suffix='Envelope')
            if c is not None and is_target(c[0]):
                env[x] = variants.index(vname)
            continue
        if not is_target(x[2][0]):
            continue
        c = callee_of(x)
        g = F.by_hash.get(c.best_hash) if c is not None else None
        if g is None or g.local_ty(0) != 'bool':
            continue
        vals = set()
        for sh in ([shape] if vname != 'Node' else [('Node', v) for v in variants if v != 'Node']):
            vals.add(shape_eval(F, g, sh, variants))
        if len(vals) == 1 and isinstance(next(iter(vals)), bool):
            env[x] = next(iter(vals))
    return env, len(env)


def shape_table(F, b, variants, want):
    """Compare b with the expected predicate `want(shape) -> bool` on every abstract envelope; returns list of (shape, got, expected) that differ."""
    bad = []
    for sh in shapes(variants):
        got = shape_eval(F, b, sh, variants)
        if got is None or got != want(sh):
            bad.append(('/'.join(sh), got, want(sh)))
    return bad


def check_case_predicates(ctx, inst):
    F = ctx.F
    variants = adt_variants(F, CASE)
    n = 0
    for name, v in IS_VARIANT.items():
        if v not in variants:
            continue
        b = F.method1('Envelope', name)
        if b is None:
            ctx.lost(inst, 'Envelope::' + name)
            continue
        n += 1
        bad = shape_table(F, b, variants, lambda sh, v=v: sh[0] == v)
        if not bad:
            ctx.ok(inst, ctx.site(b), '%s is true exactly for the %s case (%d abstract envelopes: subject chains up to depth 2)' % (name, v, len(shapes(variants))), nontrivial=True)
        else:
            ctx.fail(inst, ctx.site(b), '%s does not test exactly the %s case: (envelope, got, expected) %s' % (name, v, bad[:4]), key='%s|%s' % (inst, name))
    for name, v in IS_SUBJECT.items():
        if v not in variants:
            continue
        b = F.method1('Envelope', name)
        if b is None:
            ctx.lost(inst, 'Envelope::' + name)
            continue
        bad = shape_table(F, b, variants, lambda sh, v=v: sh[-1] == v)
        if not bad:
            ctx.ok(inst, ctx.site(b), '%s: true exactly when the innermost subject is the %s case (through any chain of node subjects; %d abstract envelopes)' % (name, v, len(shapes(variants))))
        else:
            ctx.fail(inst, ctx.site(b), '%s is not "the innermost subject is %s": (envelope, got, expected) %s' % (name, v, bad[:4]), key='%s|%s' % (inst, name))
    # is_obscured = elided | encrypted | compressed
    b = F.method1('Envelope', 'is_obscured')
    if b is not None:
        OB = {'Elided', 'Encrypted', 'Compressed'}
        bad = shape_table(F, b, variants, lambda sh: sh[0] in OB)
        if not bad:
            ctx.ok(inst, ctx.site(b), 'is_obscured = the element itself is Elided | Encrypted | Compressed (%d abstract envelopes)' % len(shapes(variants)))
        else:
            ctx.fail(inst, ctx.site(b), 'is_obscured is not elided | encrypted | compressed of the element itself: (envelope, got, expected) %s' % bad[:4], key=inst + '|is_obscured_table')
    # as_predicate / as_object
    for name, fld in (('as_predicate', 'predicate'), ('as_object', 'object')):
        b = F.method1('Envelope', name)
        if b is None:
            ctx.lost(inst, 'Envelope::' + name)
            continue
        rows = case_rows(F, b, variants)
        good = rows is not None
        for x in variants if rows else []:
            outs = rows[x]
            if x == 'Assertion':
                ok1 = len(outs) == 1
                for o in outs:
                    inner = o[3][0] if o[0] == 'agg' and o[2] == 'Some' else None
                    a = m_call(inner, name=fld, self_suffix='Assertion') if inner is not None else None
                    ok1 &= a is not None and a[0][0] == 'vfield' and a[0][2:] == ('Assertion', '0')
                good &= ok1
            else:
                good &= all(o[0] == 'agg' and o[2] == 'None' for o in outs) and bool(outs)
        if good:
            ctx.ok(inst, ctx.site(b), '%s: Assertion -> Some(%s of the assertion), every other case -> None' % (name, fld))
        else:
            ctx.fail(inst, ctx.site(b), '%s table unexpected: %s' % (name, {k: [fmt(t) for t in o] for k, o in (rows or {}).items()}), key='%s|%s' % (inst, name))
    for name in ('predicate', 'object'):
        b = F.method1('Assertion', name)
        if b is None:
            ctx.lost(inst, 'Assertion::' + name)
            continue
        rt = strip_sites(TermBuilder(F, b).return_term())
        if rt == ('vfield', P1, '', name):
            ctx.ok(inst, ctx.site(b), 'Assertion::%s returns the %s field' % (name, name))
        else:
            ctx.fail(inst, ctx.site(b), 'Assertion::%s returns %s' % (name, fmt(rt)), key='%s|Assertion::%s' % (inst, name))
    b = F.method1('Envelope', 'case')
    if b is not None:
        rt = strip_sites(TermBuilder(F, b).return_term())
        if rt == ('vfield', P1, '', '0'):
            ctx.ok(inst, ctx.site(b), 'Envelope::case returns the wrapped EnvelopeCase')
        else:
            ctx.fail(inst, ctx.site(b), 'Envelope::case returns %s' % fmt(rt), key=inst + '|case')


def check_constant_registry(ctx, inst, kinds=('Function', 'Parameter', 'KnownValue')):
    """The well-known constants of a registry are distinct values: within each kind (Function, Parameter, KnownValue) the numeric codes
    built by `new_with_static_name(code, name)` are pairwise distinct, so are the names, and each `<NAME>_VALUE` / `<NAME>_RAW` integer
    constant equals the code of `<NAME>`. Two constants with one code are one value to every comparison, parser and registry."""
    F = ctx.F
    for kind in kinds:
        rows = []
        for path, b in F.consts.items():
            if not b.local_ty(0).endswith('::' + kind):
                continue
            t = strip_sites(TermBuilder(F, b).return_term())
            a = m_call(t, name='new_with_static_name')
            if a is None or const_int(a[0]) is None:
                ctx.fail(inst, ctx.site(b), '%s constant %s is not built by new_with_static_name(<integer>, <name>): %s' % (kind, path.split('::')[-1], fmt(t)[:120]),
                         key='%s|form|%s' % (inst, path.split('::')[-1]))
                continue
            rows.append((path, const_int(a[0]), strip_sites(a[1]), b))
        if not rows:
            if kind == 'KnownValue' and not ctx.has('known_value'):
                continue
            if kind in ('Function', 'Parameter') and not ctx.has('expression'):
                continue
            ctx.lost(inst, '%s constants' % kind)
            continue
        bad = False
        by_code, by_name = {}, {}
        for path, code, name, b in rows:
            by_code.setdefault(code, []).append(path.split('::')[-1])
            by_name.setdefault(name, []).append(path.split('::')[-1])
            for suffix in ('_VALUE', '_RAW'):
                vb = F.consts.get(path + suffix)
                if vb is not None:
                    v = const_int(strip_sites(TermBuilder(F, vb).return_term()))
                    if v != code:
                        bad = True
                        ctx.fail(inst, ctx.site(vb), '%s%s = %s but %s carries code %s' % (path.split('::')[-1], suffix, v, path.split('::')[-1], code),
                                 key='%s|value|%s' % (inst, path.split('::')[-1]))
        for code, names in sorted(by_code.items()):
            if len(names) > 1:
                bad = True
                ctx.fail(inst, ctx.site(rows[0][3]), '%s constants %s share the code %d: they are one and the same value to every comparison and parser' % (kind, sorted(names), code),
                         key='%s|dupcode|%s|%s' % (inst, kind, '+'.join(sorted(names))))
        for name, names in sorted(by_name.items(), key=lambda kv: str(kv[0])):
            if len(names) > 1:
                bad = True
                ctx.fail(inst, ctx.site(rows[0][3]), '%s constants %s share the name %s' % (kind, sorted(names), fmt(name)), key='%s|dupname|%s|%s' % (inst, kind, '+'.join(sorted(names))))
        if not bad:
            ctx.ok(inst, ctx.site(rows[0][3]), '%d %s constants: codes pairwise distinct, names pairwise distinct, *_VALUE / *_RAW agree' % (len(rows), kind), sample=str(len(rows)))
