"""ERRFLOW: where does the Err of a fallible call go?  Every call whose result is a `Result` is classified as
  propagated (`?`, returned as is, every path from its Err edge ends in an error return / panic),
  swallowed   (`.ok()`, `unwrap_or*`, `is_ok()/is_err()` used as data, `if let Ok(..)`/`match` whose Err edge can reach a non-error
               return, a dropped value), or
  escaping    (stored, passed on to another function: judged there).
Swallowing an error is sometimes the specification ("try the next sealed message"); those sites are a frozen table in the property
modules. Any other swallow is an error-discipline violation: the caller is told "absent / false / default" where the truth is "failed"."""
from .lib import *
from .terms import TermBuilder

SWALLOWERS = {'ok', 'unwrap_or', 'unwrap_or_else', 'unwrap_or_default', 'is_ok', 'is_err', 'err', 'is_ok_and', 'is_err_and', 'map_or', 'map_or_else'}
CARRIERS = {'map', 'map_err', 'and_then', 'or_else', 'inspect', 'inspect_err', 'context', 'with_context'}
PANICKERS = {'unwrap', 'expect', 'unwrap_err', 'expect_err'}


def host_of(F, b):
    h = b
    for _ in range(6):
        if h.dk != 'Closure':
            break
        h2 = F.closure_host(h)
        if h2 is None:
            break
        h = h2
    return h


def _is_result_ty(ty):
    return ty.replace(' ', '').startswith('core::result::Result<')


def _error_value(t):
    """Is a returned term an error-ish value (Err(..), a `?` residual) ?"""
    t = strip_sites(t)
    if t[0] == 'agg' and t[2] == 'Err':
        return True
    if m_call(t, name='from_residual') is not None:
        return True
    if t[0] == 'agg' and t[2] == 'Some' and t[3] and isinstance(t[3][0], tuple) and t[3][0] and t[3][0][0] == 'agg' and t[3][0][2] == 'Err':
        return True      # Some(Err(e)): the error handed to a find_map/try-style consumer
    return False


def classify(F, b, tb, bi):
    """-> ('propagate'|'swallow'|'escape'|'panic', how) for the Result produced by the call at block bi."""
    t = b.term(bi)
    if t['dest']['p'] or t['t'] is None:
        return ('escape', 'stored into a place')
    R = t['dest']['l']
    carriers = {R}
    verdicts = []
    # follow plain moves
    changed = True
    while changed:
        changed = False
        for bl in b.blocks:
            for st in bl['stmts']:
                if st['k'] == 'assign' and not st['place']['p'] and st['rv']['k'] == 'use' and st['rv']['op'].get('k') in ('move', 'copy') \
                        and not st['rv']['op']['place']['p'] and st['rv']['op']['place']['l'] in carriers and st['place']['l'] not in carriers:
                    carriers.add(st['place']['l'])
                    changed = True
    if 0 in carriers:
        verdicts.append(('propagate', 'returned as is'))
    used = False
    # blocks testing the discriminant of the result; later re-tests dominated by the first one are drop elaboration, not logic
    tests = []
    for bj, bl in enumerate(b.blocks):
        if bl['cleanup']:
            continue
        for st in bl['stmts']:
            if st['k'] == 'assign' and st['rv']['k'] == 'discr' and st['rv']['place']['l'] in carriers and not st['rv']['place']['p']:
                tests.append(bj)
    first_tests = [x for x in tests if not any(y != x and b.dominates(y, x) for y in tests)]
    for bj, bl in enumerate(b.blocks):
        if bl['cleanup']:
            continue
        tt = bl['term']
        # discriminant read
        for si, st in enumerate(bl['stmts']):
            if st['k'] == 'assign' and st['rv']['k'] == 'discr' and st['rv']['place']['l'] in carriers and not st['rv']['place']['p']:
                used = True
                if bj not in first_tests:
                    continue
                d = st['place']['l']
                if tt and tt['k'] == 'switch' and tt['discr'].get('k') in ('move', 'copy') and tt['discr']['place']['l'] == d:
                    err_t = None
                    for v, bb in tt['targets']:
                        if v == 1:
                            err_t = bb
                    if err_t is None:
                        err_t = tt['otherwise']
                    if (b.term(err_t) or {}).get('k') == 'unreachable':
                        continue
                    vals = ret_values_under(b, tb, {('discr', strip_sites(tb.call_value(bi))): 1}, start=err_t)
                    nonerr = [v for v in vals if not _error_value(v[2])]
                    # a loop `continue` on Err is a swallow as well: the function goes on as if nothing happened
                    if nonerr or not vals:
                        verdicts.append(('swallow', 'the Err arm of a match / if-let continues to a non-error result'))
                    else:
                        verdicts.append(('propagate', 'every path from the Err arm returns an error'))
        if not tt or tt['k'] != 'call':
            continue
        for ai, a in enumerate(tt['args']):
            if a.get('k') in ('move', 'copy') and not a['place']['p'] and a['place']['l'] in carriers:
                used = True
                c = b.callee(bj)
                nm = c.name if c is not None else ''
                p = strip_generics(c.best) if c is not None else ''
                if nm == 'branch' and c.is_trait_method('Try'):
                    verdicts.append(('propagate', '`?`'))
                elif p.startswith('core::result::Result::') and nm in SWALLOWERS:
                    verdicts.append(('swallow', '.%s()' % nm))
                elif (p.startswith('core::result::Result::') or 'anyhow' in p) and nm in CARRIERS:
                    if not tt['dest']['p'] and _is_result_ty(b.local_ty(tt['dest']['l'])):
                        verdicts.append(classify(F, b, tb, bj))
                    else:
                        verdicts.append(('escape', '.%s()' % nm))
                elif p.startswith('core::result::Result::') and nm in PANICKERS:
                    verdicts.append(('panic', '.%s()' % nm))
                elif nm in ('collect', 'from_iter', 'push', 'extend', 'insert'):
                    verdicts.append(('escape', 'collected'))
                else:
                    verdicts.append(('escape', 'passed to %s' % (nm or 'a call')))
    if not used and 0 not in carriers:
        # by-reference uses (as_ref, is_ok(&r)) and field projections
        for bl in b.blocks:
            for st in bl['stmts']:
                if st['k'] == 'assign' and st['rv']['k'] in ('ref',) and st['rv']['place']['l'] in carriers:
                    used = True
        if not used:
            verdicts.append(('swallow', 'the result is dropped'))
        else:
            verdicts.append(('escape', 'borrowed'))
    for kind in ('swallow', 'panic', 'escape', 'propagate'):
        for v in verdicts:
            if v[0] == kind:
                return v
    return ('escape', 'no use found')


def swallow_sites(F):
    """-> list of dict(host, body, block, callee, how, key)"""
    out = []
    for b in F.bodies:
        if b.span and b.span.get('exp') and b.span.get('mac') in ('Clone', 'Debug', 'PartialEq', 'Default'):
            continue
        tb = None
        for bi, c, t in b.calls():
            if c is None or t['dest']['p']:
                continue
            if not _is_result_ty(b.local_ty(t['dest']['l'])):
                continue
            p = strip_generics(c.best)
            if p.startswith('core::result::Result::') or p.startswith('core::ops::') or 'anyhow' in p.split('::')[0]:
                continue     # a combinator / `?` plumbing / error construction: not a source of errors
            if tb is None:
                tb = TermBuilder(F, b)
            v = classify(F, b, tb, bi)
            if v[0] == 'swallow':
                h = host_of(F, b)
                out.append({'host': h, 'body': b, 'block': bi, 'callee': c, 'how': v[1],
                            'key': '%s|%s' % (h.path.replace('bc_envelope::', ''), c.name)})
    return out


# Sites where dropping the error IS the specified behaviour (each confirmed by reading; key = enclosing function | callee)
ALLOWED_SWALLOWS = {
    'base::envelope::Envelope::is_false|extract_subject': 'is_false(): "not a bool leaf" is false by definition',
    'base::envelope::Envelope::is_true|extract_subject': 'is_true(): "not a bool leaf" is false by definition',
    'base::envelope::Envelope::is_null|extract_subject': 'is_null(): "not the null leaf" is false by definition',
    'base::elide::<impl base::envelope::Envelope>::elide_set_with_action|compress': 'Compress action on an element that cannot be compressed (already encrypted / elided) leaves it as it is (fix D3)',
    '<dcbor::cbor::CBOR as base::format::EnvelopeFormat>::format_item|envelope_summary': 'formatting falls back to an "<error>" marker',
    '<dcbor::cbor::CBOR as base::format::EnvelopeFormat>::format_item|from_untagged_cbor': 'formatting falls back to the generic CBOR rendering',
    'extension::attachment::attachment_impl::<impl base::envelope::Envelope>::attachments_with_vendor_and_conforms_to|attachment_vendor': 'filter over attachments already validated by the loop before it (C19.3): extraction cannot fail there',
    'extension::attachment::attachment_impl::<impl base::envelope::Envelope>::attachments_with_vendor_and_conforms_to|attachment_conforms_to': 'same (C19.3)',
    '<extension::expressions::response::Response as core::convert::TryFrom<base::envelope::Envelope>>::try_from|try_from': 'early-failure responses carry no ARID: the subject is then tried as the Unknown known value',
    'extension::recipient::<impl base::envelope::Envelope>::first_plaintext_in_sealed_messages|decrypt': 'a sealed message for another recipient fails to open: the next one is tried (C10.3)',
    'extension::signature::signature_impl::<impl base::envelope::Envelope>::has_some_signature_from_key_returning_metadata|object_for_predicate': 'a metadata wrapper without outer signature is not a signature object: the next one is tried (fix D4)',
    'extension::sskr::<impl base::envelope::Envelope>::sskr_join|sskr_combine': 'a share group without quorum: the next identifier group is tried (C11.2)',
    'extension::sskr::<impl base::envelope::Envelope>::sskr_join|from_data_ref': 'recovered secret of the wrong size: the next group is tried',
    'extension::sskr::<impl base::envelope::Envelope>::sskr_join|decrypt_subject': 'recovered key does not open the envelope: the next group is tried',
}
MIN_SITES_SEEN = 10      # scanner health: the crate has 14 such sites today; seeing fewer than this means the scan went blind


def check(ctx, inst, file_suffixes, what):
    """Error discipline for one family (source files): no fallible call's error is turned into absent/false/default except at the listed sites."""
    F = ctx.F
    sites = swallow_sites(F)
    # the table is for the default feature set; a reduced configuration simply has fewer sites
    if len(sites) < MIN_SITES_SEEN and len(ctx.features) >= 12:
        ctx.lost(inst, 'error-swallow scanner found only %d sites crate-wide (expected >= %d)' % (len(sites), MIN_SITES_SEEN))
        return
    n = 0
    for s in sites:
        f = (s['host'].span or {}).get('file', '')
        if not any(f.endswith(x) for x in file_suffixes):
            continue
        n += 1
        if s['key'] in ALLOWED_SWALLOWS:
            ctx.ok(inst, ctx.site(s['body'], s['block']), 'error of %s deliberately not propagated: %s' % (s['callee'].name, ALLOWED_SWALLOWS[s['key']]), nontrivial=True)
        else:
            ctx.fail(inst, ctx.site(s['body'], s['block']), 'the error of %s is swallowed (%s): the caller of %s gets "absent / false / default" where the operation failed' % (
                s['callee'].name, s['how'], s['host'].name), key='%s|swallow|%s' % (inst, s['key']), rule='ERRFLOW/SWALLOW')
    ctx.ok(inst, '-', '%s: %d error-dropping sites, all in the reviewed table; every other fallible call propagates its error, panics (C16) or hands the Result on' % (what, n), nontrivial=False)
    ctx.count('swallow_sites_' + inst, n)
