"""C14 — equivalence and identity comparisons are exact."""
from ..lib import *
from ..terms import TermBuilder
from .. import rec

NEED_DEPS = True
USES_QUERIES = True
EXPLANATION = (
    "FLOW/TABLE/REC rules. C14.1: is_equivalent_to = eq(digest(self), digest(other)). C14.2: is_identical_to evaluated under "
    "every valuation of (equivalent, structural digests equal) returns exactly (F,*)->false, (T,F)->false, (T,T)->true; any branch "
    "on something else makes an outcome set non-singleton and fails. C14.3: PartialEq::eq = is_identical_to(self, other). C14.4: "
    "structural digest = from_image(image) where the visitor is run by the structure walk (walk with hide_nodes = false) and, for "
    "EVERY visited element (the append post-dominates the visitor's entry), appends digest(element) preceded by a per-class marker; "
    "the marker constants of {elided, encrypted, compressed} are pairwise distinct and the non-obscured arm appends no marker, so the "
    "per-element contribution is injective in (class, digest). Depends on C15.1 (walk completeness) and C01.4 (immutability). "
    "Reflexivity/symmetry/transitivity follow from comparing a pure function of an immutable value. C14.6: identity preserved by encoding and decoding = every C05 instance (writer/reader table agreement, predicate tables, writer image inside reader domain) re-evaluated under this property. C14.7: walk completeness (every C15.1 instance, incl. no depth test) re-evaluated here.")
TRUSTED = ['Digest PartialEq compares the 32 bytes', 'Digest::from_image = SHA-256']
FLOORS = {'C14.1': 1, 'C14.2': 1, 'C14.3': 1, 'C14.4': 3, 'C14.6': 30, 'C14.7': 8}
P1, P2 = ('param', 1), ('param', 2)


def check(ctx):
    F = ctx.F
    # C14.1
    b = F.method1('Envelope', 'is_equivalent_to')
    if b is None:
        ctx.lost('C14.1', 'Envelope::is_equivalent_to')
    else:
        rt = strip_sites(TermBuilder(F, b).return_term())
        a = m_call(rt, name='eq', trait='PartialEq')
        if a is not None and {m_digest(a[0]), m_digest(a[1])} == {P1, P2}:
            ctx.ok('C14.1', ctx.site(b), 'is_equivalent_to = (digest(self) == digest(other))', sample=fmt(rt))
        else:
            ctx.fail('C14.1', ctx.site(b), 'is_equivalent_to is %s' % fmt(rt), key='C14.1')
    # C14.2
    b = F.method1('Envelope', 'is_identical_to')
    if b is None:
        ctx.lost('C14.2', 'Envelope::is_identical_to')
    else:
        tb = TermBuilder(F, b)
        def eqv(x):
            if x[0] != 'call':
                return False
            a = m_call(x, name='is_equivalent_to', self_suffix='Envelope')
            if a is not None and {strip_sites(a[0]), strip_sites(a[1])} == {P1, P2}:
                return True
            a = m_call(x, name='eq', trait='PartialEq')
            return a is not None and {m_digest(strip_sites(a[0])), m_digest(strip_sites(a[1]))} == {P1, P2}
        def sd(x):
            a = m_call(x, name='eq', trait='PartialEq')
            if a is None:
                return False
            l = m_call(strip_sites(a[0]), name='structural_digest', self_suffix='Envelope')
            r = m_call(strip_sites(a[1]), name='structural_digest', self_suffix='Envelope')
            return l is not None and r is not None and {l[0], r[0]} == {P1, P2}
        atoms_e = find_terms(b, tb, eqv)
        atoms_s = find_terms(b, tb, sd)
        for bi, si, t in ret_defs(tb):
            for x in walk(t):
                if isinstance(x, tuple) and x and isinstance(x[0], str):
                    if eqv(x) and strip_sites(x) not in atoms_e:
                        atoms_e.append(strip_sites(x))
                    if sd(x) and strip_sites(x) not in atoms_s:
                        atoms_s.append(strip_sites(x))
        if len(atoms_e) != 1 or len(atoms_s) != 1:
            ctx.fail('C14.2', ctx.site(b), 'identity does not consist of (equivalence, structural-digest equality): found %d / %d such tests' % (len(atoms_e), len(atoms_s)), key='C14.2|atoms')
        else:
            rows = {}
            for e in (False, True):
                for s in (False, True):
                    env = {atoms_e[0]: e, atoms_s[0]: s}
                    reach = reach_under(b, tb, env)
                    outs = set()
                    for bi, si, t in ret_defs(tb):
                        if bi in reach:
                            outs.add(eval_bool(t, env))
                    rows[(e, s)] = outs
            expect = {(False, False): {False}, (False, True): {False}, (True, False): {False}, (True, True): {True}}
            if rows == expect:
                ctx.ok('C14.2', ctx.site(b), 'identity table over (equivalent, structural equal): FF->F FT->F TF->F TT->T', sample=str(rows))
            else:
                ctx.fail('C14.2', ctx.site(b), 'identity table is %s (None = depends on something else), expected %s' % (rows, expect), key='C14.2|table')
    # C14.3
    impl = F.trait_impl('PartialEq', 'Envelope', 'eq')
    if len(impl) != 1:
        ctx.lost('C14.3', 'PartialEq for Envelope')
    else:
        rt = strip_sites(TermBuilder(F, impl[0]).return_term())
        a = m_call(rt, name='is_identical_to', self_suffix='Envelope')
        if a is not None and {a[0], a[1]} == {P1, P2}:
            ctx.ok('C14.3', ctx.site(impl[0]), '== delegates to is_identical_to', sample=fmt(rt))
        else:
            ctx.fail('C14.3', ctx.site(impl[0]), 'PartialEq::eq is %s' % fmt(rt), key='C14.3')
    # C14.4
    b = F.method1('Envelope', 'structural_digest')
    if b is None:
        ctx.lost('C14.4', 'Envelope::structural_digest')
        return
    tb = TermBuilder(F, b)
    rt = strip_sites(tb.return_term())
    a = m_call(rt, name='from_image', self_suffix='Digest')
    cell = None
    if a is not None:
        ii = m_call(a[0], name='into_inner')
        if ii is not None and m_call(ii[0], name='new', path_end='RefCell::new') is not None:
            cell = ii[0]
    if cell is None:
        ctx.fail('C14.4', ctx.site(b), 'structural digest is not from_image(accumulated image): %s' % fmt(rt), key='C14.4|shape')
        return
    # the walk call: walk(self, false, visitor)
    walks = [(bi, tb.call_args(bi)) for bi, c, t in b.calls() if c is not None and c.name == 'walk' and c.is_method('Envelope', 'walk')]
    if len(walks) != 1:
        ctx.fail('C14.4', ctx.site(b), 'image is not produced by exactly one Envelope::walk', key='C14.4|walk')
        return
    wa = walks[0][1]
    if strip_sites(wa[0]) != P1 or strip_sites(wa[1]) != ('bool', False):
        ctx.fail('C14.4', ctx.site(b, walks[0][0]), 'the image must come from the STRUCTURE walk of self (hide_nodes = false); got walk(%s, %s)' % (fmt(wa[0]), fmt(wa[1])), key='C14.4|walkmode')
    else:
        ctx.ok('C14.4', ctx.site(b, walks[0][0]), 'image produced by walk(self, hide_nodes=false, visitor): every element is visited (C15.1)')
    vis = wa[2]
    if vis[0] != 'closure':
        ctx.fail('C14.4', ctx.site(b), 'visitor is not a closure', key='C14.4|visitor')
        return
    cb = F.closure(vis[1])
    ctb = TermBuilder(F, cb)
    # append of digest bytes for every element: an extend_from_slice(data(digest(p2))) call that post-dominates entry
    ext = []
    for bi, c, t in cb.calls():
        if c is not None and c.name in ('extend_from_slice', 'extend'):
            args = ctb.call_args(bi)
            src = strip_sites(args[1])
            d = m_call(src, name='data', self_suffix='Digest')
            if d is not None and m_digest(d[0]) == P2:
                ext.append(bi)
    if not ext:
        ctx.fail('C14.4', ctx.site(cb), 'visitor does not append the element\'s digest bytes to the image', key='C14.4|append')
    else:
        rets = [i for i in cb.normal_blocks() if (cb.term(i) or {}).get('k') == 'return']
        reach = cb.reachable(0, removed_blocks=ext)
        if any(r in reach for r in rets):
            ctx.fail('C14.4', ctx.site(cb, ext[0]), 'some visited elements contribute nothing to the image (the digest append can be skipped): identity would ignore them', key='C14.4|conditional')
        else:
            ctx.ok('C14.4', ctx.site(cb, ext[0]), 'digest(element) is appended for every visited element (append post-dominates the visitor entry)')
    # markers per class
    sw = [x for x in switch_on(ctb, cb, lambda d: d[0] == 'discr' and m_call(d[1], name='case', self_suffix='Envelope') is not None and strip_sites(m_call(d[1], name='case', self_suffix='Envelope')[0]) == P2)]
    if len(sw) != 1:
        ctx.fail('C14.4', ctx.site(cb), 'visitor does not classify the element by its case', key='C14.4|classify')
        return
    variants = adt_variants(F, CASE)
    markers = {}
    dterm = strip_sites(sw[0][1])
    for idx, vname in enumerate(variants):
        # the marker bytes pushed when the element's case is this variant (finite valuation of the case discriminant; a
        # marker computed by a helper / carried in an Option is read on the paths of that valuation only)
        seq = []
        for bi, c, args in calls_under(cb, ctb, {dterm: idx}):
            if c is not None and c.name == 'push' and len(args) == 2:
                seq.append(const_int(args[1]))
        markers[vname] = tuple(seq)
    obsc = [v for v in ('Elided', 'Encrypted', 'Compressed') if v in variants]
    plain = [v for v in variants if v not in obsc]
    cls = {'plain': None}
    bad = False
    pm = {markers[v] for v in plain}
    if len(pm) != 1:
        ctx.fail('C14.4', ctx.site(cb), 'non-obscured cases do not share one marker: %s' % {v: markers[v] for v in plain}, key='C14.4|plain')
        bad = True
    classes = {'not obscured': pm.pop() if pm else ()}
    for v in obsc:
        classes[v] = markers[v]
    vals = list(classes.values())
    if any(None in m for m in vals):
        ctx.fail('C14.4', ctx.site(cb), 'a marker is not a constant: %s' % classes, key='C14.4|nonconst')
        bad = True
    if len(set(vals)) != len(vals):
        ctx.fail('C14.4', ctx.site(cb), 'obscuration classes are not distinguishable: markers %s' % classes, key='C14.4|markers')
        bad = True
    if not bad:
        ctx.ok('C14.4', ctx.site(cb, sw[0][0]), 'per-class markers pairwise distinct: %s' % classes, sample=str(classes))



_check_inner = check


def check(ctx):
    _check_inner(ctx)
    # C14.5: "obscuring any present element gives a result that is equivalent but not identical": each obscuring action replaces a
    # present element by an element of an obscured class (so its marker changes) - the action arms, elide() and compress() per case.
    from .. import obscure
    obscure.check_obscure_region(ctx, 'C14.5')
    obscure.check_elide_primitive(ctx, 'C14.5')
    if ctx.has('compress'):
        from .C13 import check_compress_table
        check_compress_table(ctx, 'C14.5', 'C14.5')
    # C14.6: "identity is preserved by encoding and decoding": the round-trip agreement of writer and reader (every C05 instance)
    # re-evaluated under this property
    from . import C05
    from .C07 import Relabel
    try:
        C05.check(Relabel(ctx, 'C14.6', ['C05']))
    except Exception as e:
        ctx.fail('C14.6', '-', 'encode/decode agreement (C05) could not be evaluated: %r' % e, key='C14.6|c05')
    # C14.7: the structural digest is built on the structure walk, so "identical iff equivalent and the same obscuration pattern" needs
    # the walk to reach EVERY element at every depth: the C15.1 instances (visitor once per element, every child kind entered, no depth
    # test) re-evaluated under this property
    from . import C15
    try:
        C15.check(Relabel(ctx, 'C14.7', ['C15.1']))
    except Exception as e:
        ctx.fail('C14.7', '-', 'walk completeness (C15.1) could not be evaluated: %r' % e, key='C14.7|c15')
