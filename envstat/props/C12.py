"""C12 — inclusion proofs are complete, sound and minimally revealing."""
from ..lib import *
from ..terms import TermBuilder
from .. import rec

REQUIRES = ['proof']
EXPLANATION = (
    "GUARD/FLOW/REC rules. C12.1: confirm_contains_set yields a possibly-true value only on the passing edge of "
    "digest(self) == digest(proof), and that value is contains_all(proof, target) (search in the proof for the caller's targets). "
    "C12.2: proof_contains_set returns Some only on the passing edge of is_subset(target, R) with R = reveal_set(self, target) and the "
    "value is elide_removing_set(elide_revealing_set(self, R), target). C12.3: the reveal-set collector and the found-set remover "
    "recurse into each of the five child kinds exactly once; the collector inserts digest(self) into the path set before the "
    "membership test, extends the result with that same path set on the membership edge, and hands the extended path set to every "
    "child. C12.4: contains_all = is_empty(remove_all_found(self, clone(target))); the remover removes digest(self) from the target "
    "set. C12.5 minimal disclosure: elide_revealing_set / elide_removing_set are elide_set_with_action(self, t, true/false, Elide), "
    "and that descent's decision table (obscure iff membership != revealing), Elide arm (= Elided(digest(self))), elide primitive and "
    "same-case rebuild over all five child kinds are re-evaluated here (the C03 instances). C12.6: the single-target entry points "
    "are the set versions over {digest(target)}, and every recursive search reachable from a proof entry point enters all five "
    "child kinds. C12.7 (known finding D10): the prover elides every caller-supplied target while the verifier needs every target found, so a target nested inside another target yields a proof that is rejected; reported as long as the removing set is the raw target set. Does not decide set semantics of std HashSet.")
TRUSTED = ['HashSet::{contains,insert,remove,is_subset,is_empty,extend} have their std semantics']
FLOORS = {'C12.1': 2, 'C12.2': 2, 'C12.3': 11, 'C12.4': 1, 'C12.5': 8, 'C12.6': 4, 'C12.7': 1}
P1, P2, P3, P4 = ('param', 1), ('param', 2), ('param', 3), ('param', 4)


def check(ctx):
    _check_core(ctx)
    F = ctx.F
    pcs = F.method1('Envelope', 'proof_contains_set')
    ccs = F.method1('Envelope', 'confirm_contains_set')
    # ---- C12.6 the single-target entry points are the set versions over the one-element set {digest(target)}
    def singleton(S):
        S = strip_sites(S)
        ds = [x for x in walk(S) if isinstance(x, tuple) and x and x[0] == 'call' and m_digest(x) is not None and strip_sites(m_digest(x)) == P2]
        others = [x for x in walk(S) if isinstance(x, tuple) and x and x[0] == 'param' and x != P2]
        return bool(ds) and not others
    for name, setfn, rest in (('proof_contains_target', pcs, ()), ('confirm_contains_target', ccs, (P3,))):
        b = F.method1('Envelope', name)
        if b is None or setfn is None:
            ctx.lost('C12.6', 'Envelope::' + name)
            continue
        tb = TermBuilder(F, b)
        for bi, si, t in ret_defs(tb):
            v = strip_sites(detry(t))
            c = callee_of(v) if v[0] == 'call' else None
            if c is not None and c.best_hash == setfn.hash and len(v[2]) == 2 + len(rest) and strip_sites(v[2][0]) == P1 and singleton(v[2][1]) \
                    and tuple(strip_sites(x) for x in v[2][2:]) == rest:
                ctx.ok('C12.6', ctx.site(b, bi, si), '%s = %s(self, {digest(target)}%s): judged there' % (name, setfn.name, ', proof' if rest else ''), sample=fmt(v))
            else:
                ctx.fail('C12.6', ctx.site(b, bi, si), '%s is not %s over the one-element set {digest(target)} (its own search / test is not one the set rules cover): %s'
                         % (name, setfn.name, fmt(v)), key='C12.6|' + name, rule='FLOW/IDIOM-UNKNOWN')
    # ---- C12.7 prover / verifier agreement for nested targets. The verifier accepts iff every target digest is found in the proof, and an
    # elided element has no children there; the prover elides EVERY caller-supplied target (the removing set is the raw target set).
    # A target that lies inside another target is therefore hidden under the elided outer one, and the produced proof is rejected.
    # Reported when the removing set of the produced proof is exactly the caller's target set (no nesting-aware filtering, no refusal).
    if pcs is not None:
        ptb = TermBuilder(F, pcs)
        for bi, si, t in accept_sites(pcs, ptb):
            v = strip_sites(t[3][0]) if t[0] == 'agg' and t[2] == 'Some' else strip_sites(t)
            o = m_call(v, name='elide_removing_set', self_suffix='Envelope')
            if o is None:
                continue
            nesting_guard = find_terms(pcs, ptb, lambda x: x[0] == 'call' and call_name(x) in ('is_disjoint', 'intersection', 'difference', 'retain') )
            if strip_sites(o[1]) == P2 and not nesting_guard:
                ctx.fail('C12.7', ctx.site(pcs, bi, si), 'the proof elides every caller-supplied target (removing set = the raw target set) while the verifier must find every target in '
                         'the proof, and nothing below an elided element is present there: for a target set in which one target lies inside another (an assertion and '
                         'its object, a node and its subject) the produced proof is rejected by confirm_contains_set', key='C12.7|nested-targets')
            else:
                ctx.ok('C12.7', ctx.site(pcs, bi, si), 'the removing set of the produced proof is not the raw target set (nested targets are treated before eliding)')
    # every recursive search reachable from a proof entry point visits all five child kinds (a kind never entered hides targets there)
    seen = set()
    for entry in ('proof_contains_set', 'proof_contains_target', 'confirm_contains_set', 'confirm_contains_target'):
        e = F.method1('Envelope', entry)
        for r in (rec.reachable_recursive(F, e) if e is not None else []):
            if r.hash in seen:
                continue
            seen.add(r.hash)
            cov, other = rec.coverage(rec.recursive_call_sites(F, r))
            missing = [k for k in rec.CHILD_KINDS if not cov.get(k)]
            if missing:
                ctx.fail('C12.6', ctx.site(r), 'recursive search %s (reachable from %s) never enters child kind(s) %s' % (r.name, entry, missing), key='C12.6|cover|' + r.name)
            else:
                ctx.ok('C12.6', ctx.site(r), 'recursive search %s enters all five child kinds' % r.name)
    # ---- C12.5 minimal disclosure: the two elision steps of the proof are the default-action (Elide) descents, whose decision table,
    # obscure region, elide primitive and rebuild are the C03 instances re-evaluated here
    from .. import obscure
    ELIDE = ('agg', 'bc_envelope::base::elide::ObscureAction', 'Elide', (), ())
    for name, flag in (('elide_revealing_set', True), ('elide_removing_set', False)):
        b = F.method1('Envelope', name)
        if b is None:
            ctx.lost('C12.5', 'Envelope::' + name)
            continue
        want = expected_call(F, 'elide_set_with_action', P1, P2, ('bool', flag), ELIDE)
        rt = TermBuilder(F, b).return_term()
        if want is not None and same_mod_inline(F, rt, want):
            ctx.ok('C12.5', ctx.site(b), '%s(self, t) = elide_set_with_action(self, t, %s, Elide)' % (name, str(flag).lower()), sample=fmt(strip_sites(rt)))
        else:
            ctx.fail('C12.5', ctx.site(b), '%s is %s, not the default-action descent elide_set_with_action(self, t, %s, Elide)' % (name, fmt(strip_sites(rt)), str(flag).lower()),
                     key='C12.5|wrapper|' + name)
    from .C07 import Relabel
    R = Relabel(ctx, 'C12.5', ['T', 'R', 'P', 'B'])
    obscure.check_target_table(R, 'T')
    obscure.check_obscure_region(R, 'R', arms=('Elide',))
    obscure.check_elide_primitive(R, 'P')
    obscure.check_rebuild(R, 'B', 'B/kinds')


def _check_core(ctx):
    F = ctx.F
    pcs = F.method1('Envelope', 'proof_contains_set')
    ccs = F.method1('Envelope', 'confirm_contains_set')
    collectors = rec.reachable_recursive(F, pcs) if pcs else []
    removers = rec.reachable_recursive(F, ccs) if ccs else []
    col = collectors[0] if len(collectors) == 1 else None
    remover = removers[0] if len(removers) == 1 else None
    # ---- C12.1
    b = ccs
    if b is None:
        ctx.lost('C12.1', 'Envelope::confirm_contains_set')
    else:
        tb = TermBuilder(F, b)
        acc = accept_sites(b, tb)
        if not acc:
            ctx.lost('C12.1', 'accept exit of confirm_contains_set')
        def guard(x):
            if x[0] != 'call' or call_name(x) not in ('eq', 'ne'):
                return False
            l, r = m_digest(x[2][0]), m_digest(x[2][1])
            return l is not None and r is not None and {strip_sites(l), strip_sites(r)} == {P1, P3}
        for bi, si, t in acc:
            site = ctx.site(b, bi, si)
            v = strip_sites(inline(F, t))
            if v == ('bool', True):
                ctx.fail('C12.1', site, 'confirmation returns a constant true', key='C12.1|const')
                continue
            # is_empty(remover(proof, clone(target)))  - private helper names are irrelevant, the remover is found by role
            ie = m_call(v, name='is_empty')
            rm = ie[0] if ie else None
            good = False
            if rm is not None and rm[0] == 'mut' and remover is not None and CALLEES.get(rm[1]) is not None and CALLEES[rm[1]].best_hash == remover.hash:
                good = rm[3][0] == P3 and rm[3][rm[2]] == P2 and rm[2] == 1
            if not good:
                ctx.fail('C12.1', site, 'confirmation result is %s, not is_empty(remove-found(proof, clone(target)))' % fmt(v), key='C12.1|value')
                continue
            ctx.ok('C12.1', site, 'result = is_empty(remove-found(proof, clone(target))): the search runs in the proof for the caller\'s targets', sample=fmt(v))
            gs = find_terms(b, tb, guard)
            if not gs:
                ctx.fail('C12.1', site, 'the root-digest conjunct digest(self) == digest(proof) is missing', key='C12.1|noguard')
                continue
            ok, info = guard_dominates(b, tb, [bi], guard, call_name(gs[0]) == 'eq')
            if ok:
                ctx.ok('C12.1', site, 'possibly-true result dominated by digest(self) == digest(proof); ' + info, sample=fmt(gs[0]))
            else:
                ctx.fail('C12.1', site, 'result not dominated by the root-digest comparison: ' + info, key='C12.1|dominance')
    # ---- C12.2
    b = pcs
    if b is None:
        ctx.lost('C12.2', 'Envelope::proof_contains_set')
    else:
        tb = TermBuilder(F, b)
        acc = accept_sites(b, tb)
        if not acc:
            ctx.lost('C12.2', 'accept exit of proof_contains_set')
        def empty(t):
            return m_call(t, name='new') is not None or m_call(t, name='default') is not None
        def is_R(t):
            # result set of collector(self, target, {}, &mut {})
            r = strip_sites(inline(F, t))
            if r[0] != 'mut' or col is None or CALLEES.get(r[1]) is None or CALLEES[r[1]].best_hash != col.hash:
                return False
            a = r[3]
            return len(a) == 4 and r[2] == 3 and a[0] == P1 and a[1] == P2 and empty(a[2]) and empty(a[3])
        def guard(x):
            return x[0] == 'call' and call_name(x) == 'is_subset' and strip_sites(x[2][0]) == P2 and is_R(x[2][1])
        for bi, si, t in acc:
            site = ctx.site(b, bi, si)
            v = strip_sites(t[3][0]) if t[0] == 'agg' and t[2] == 'Some' else strip_sites(t)
            o = m_call(v, name='elide_removing_set', self_suffix='Envelope')
            i = m_call(o[0], name='elide_revealing_set', self_suffix='Envelope') if o else None
            if o is not None and i is not None and o[1] == P2 and i[0] == P1 and is_R(i[1]):
                ctx.ok('C12.2', site, 'proof = elide_removing_set(elide_revealing_set(self, R), target), R = reveal_set(self, target)', sample=fmt(v))
            else:
                ctx.fail('C12.2', site, 'proof value is %s' % fmt(v), key='C12.2|value')
                continue
            gs = find_terms(b, tb, guard)
            if not gs:
                ctx.fail('C12.2', site, 'Some(proof) is not guarded by is_subset(target, reveal set): a proof would be produced for absent targets', key='C12.2|noguard')
                continue
            ok, info = guard_dominates(b, tb, [bi], guard, True)
            if ok:
                ctx.ok('C12.2', site, 'Some dominated by is_subset(target, R); ' + info)
            else:
                ctx.fail('C12.2', site, 'Some not dominated by the subset test: ' + info, key='C12.2|dominance')
    # ---- C12.3 recursion
    rem = remover
    if col is None or rem is None:
        ctx.lost('C12.3', 'the recursive reveal-set collector (reachable from proof_contains_set: %d found) / found-set remover (reachable from confirm_contains_set: %d found)' % (len(collectors), len(removers)))
        return
    tb = TermBuilder(F, col)
    sites = rec.recursive_call_sites(F, col)
    cov, other = rec.coverage(sites)
    def extended(t):
        t = strip_sites(t)
        m = m_call(t, name='insert', kind='mut')
        return m is not None and t[2] == 0 and m[0] == P3 and m_digest(m[1]) == P1
    for k in rec.CHILD_KINDS:
        ss = cov.get(k, [])
        if len(ss) != 1:
            ctx.fail('C12.3', ctx.site(col), 'reveal-set collector recurses into %s %d times (expected once)' % (k, len(ss)), key='C12.3|collector|' + k)
            continue
        a = ss[0]['args']
        if strip_sites(a[1]) == P2 and extended(a[2]) and strip_sites(a[3]) in (P4,) or (strip_sites(a[1]) == P2 and extended(a[2]) and contains(a[3], lambda x: x == P4)):
            ctx.ok('C12.3', ss[0]['site'], 'collector -> %s with (target, current + digest(self), result)' % k)
        else:
            ctx.fail('C12.3', ss[0]['site'], 'collector passes %s to child %s (expected target, the path set extended by digest(self), result)' % ([fmt(x) for x in a[1:]], k),
                     key='C12.3|collector_ctx|' + k)
    for s in other:
        ctx.fail('C12.3', s['site'], 'collector recurses on something that is not a child of self: %s' % fmt(s['args'][0]), key='C12.3|collector_other')
    # membership edge extends result with the extended path set
    ext = [(bi, tb.call_args(bi)) for bi, c, t in col.calls() if c is not None and c.name == 'extend']
    def memb(x):
        return x[0] == 'call' and call_name(x) == 'contains' and strip_sites(x[2][0]) == P2 and m_digest(strip_sites(x[2][1])) == P1
    good = False
    for bi, a in ext:
        src = elem_source(a[1])
        if extended(src):
            ok, info = guard_dominates(col, tb, [bi], memb, True)
            if ok:
                good = True
                ctx.ok('C12.3', ctx.site(col, bi), 'on contains(target, digest(self)) the result is extended with the path set that already includes digest(self); ' + info)
    # loop form: for d in &path { result.insert(d.clone()) }  (every element, no skipping)
    for bi, c, t in col.calls():
        if good or c is None or c.name != 'insert' or not c.is_method('HashSet', 'insert'):
            continue
        a = tb.call_args(bi)
        v = strip_sites(a[1])
        if contains(a[0], lambda x: x == P4) and v[0] == 'elem' and extended(elem_source(v[1])) and loop_push_total(col, bi, None):
            ok, info = guard_dominates(col, tb, [bi], memb, True)
            if ok:
                good = True
                ctx.ok('C12.3', ctx.site(col, bi), 'on contains(target, digest(self)) every element of the path set that already includes digest(self) is inserted into the result; ' + info)
    if not good:
        ctx.fail('C12.3', ctx.site(col), 'collector does not add (current + digest(self)) to the result exactly when digest(self) is a target', key='C12.3|collector_extend')
    # remover
    tbr = TermBuilder(F, rem)
    sites = rec.recursive_call_sites(F, rem)
    cov, other = rec.coverage(sites)
    for k in rec.CHILD_KINDS:
        ss = cov.get(k, [])
        if len(ss) != 1:
            ctx.fail('C12.3', ctx.site(rem), 'found-set remover recurses into %s %d times (expected once)' % (k, len(ss)), key='C12.3|remover|' + k)
            continue
        a = ss[0]['args']
        if contains(a[1], lambda x: x == P2):
            ctx.ok('C12.3', ss[0]['site'], 'remover -> %s with the same target set' % k)
        else:
            ctx.fail('C12.3', ss[0]['site'], 'remover passes %s to child %s' % (fmt(a[1]), k), key='C12.3|remover_ctx|' + k)
    for s in other:
        ctx.fail('C12.3', s['site'], 'remover recurses on something that is not a child of self: %s' % fmt(s['args'][0]), key='C12.3|remover_other')
    rm = [(bi, tbr.call_args(bi)) for bi, c, t in rem.calls() if c is not None and c.name == 'remove' and c.is_method('HashSet', 'remove')]
    if any(m_digest(strip_sites(a[1])) == P1 and contains(a[0], lambda x: x == P2) for bi, a in rm):
        ctx.ok('C12.4', ctx.site(rem), 'remover removes digest(self) from the target set')
    else:
        ctx.fail('C12.4', ctx.site(rem), 'remover never removes digest(self) from the target set', key='C12.4|remove')
