"""C03 — elision hides exactly the targeted elements and leaves no trace of them."""
from ..lib import *
from ..terms import TermBuilder
from .. import obscure, codec

NEED_DEPS = True
EXPLANATION = (
    "TABLE/FLOW/REC/GUARD rules on the recursive obscuring routine (public Envelope::elide_set_with_action). C03.1: the membership "
    "atom is exactly contains(target, digest(self)); evaluating the MIR branch under the four valuations of (in-target, "
    "is_revealing) reaches the action dispatch for FT/TF and the case dispatch for FF/TT. C03.2: the obscure region contains no "
    "recursive call and each action arm applies a whole-element sink to self (Elide: Elided(digest(self)) only). C03.3: "
    "EnvelopeCase::Elided carries exactly one Digest = [u8;32] newtype and the encoder's Elided arm emits exactly "
    "untagged_cbor(that digest) - no field in which residue could live. C03.4: the routine recurses into each of the five child "
    "kinds exactly once with target/mode/action unchanged. C03.5: unelide's Ok exit is dominated by the passing edge of "
    "digest(self) == digest(argument) and returns the argument. Does not decide byte-level residue or ciphertext opacity."
    " C03.6: every elide_removing_* entry point passes is_revealing = false (or delegates to a removing one), every elide_revealing_* passes true, over the caller's target."
    " C03.7: the mode-generic wrappers (elide_set, elide_array*, elide_target*) return, on every path, the next elide_* entry point's result over the receiver, the caller's target and the caller's mode.")
TRUSTED = ['HashSet::contains is set membership', 'Digest::untagged_cbor is the 32-byte string']
FLOORS = {'C03.1': 1, 'C03.2': 3, 'C03.4': 5, 'C03.5': 1, 'C03.6': 8, 'C03.7': 5}


def check(ctx):
    F = ctx.F
    obscure.check_target_table(ctx, 'C03.1')
    obscure.check_obscure_region(ctx, 'C03.2')
    obscure.check_elide_primitive(ctx, 'C03.2')
    obscure.check_sinks(ctx, 'C03.2/elide', want=('elide',))
    obscure.check_rebuild(ctx, 'C03.4/rebuild', 'C03.4')
    # ---- C03.3 Elided carries one Digest; encoder emits exactly its untagged form
    a = F.adt_by_path.get(CASE)
    ev = [v for v in a['variants'] if v['name'] == 'Elided'] if a else []
    if not ev:
        ctx.lost('C03.3', 'EnvelopeCase::Elided')
    else:
        fs = ev[0]['fields']
        if len(fs) == 1 and ty_matches(fs[0]['ty'], 'Digest'):
            # Digest newtype over [u8; 32]
            dn = [n for n in F.type_tree if n.get('adt', '').endswith('::Digest') and n.get('krate') == 'bc_components']
            inner = dn[0]['children'] if dn else []
            if inner == ['[u8; 32]']:
                ctx.ok('C03.3', '-', 'EnvelopeCase::Elided(Digest), Digest = newtype over [u8; 32]: the placeholder has no room for content')
            else:
                ctx.fail('C03.3', '-', 'Digest is not a bare [u8; 32] newtype: %s' % inner, key='C03.3|digest_type')
        else:
            ctx.fail('C03.3', '-', 'EnvelopeCase::Elided carries %s (expected exactly one Digest)' % [f['ty'] for f in fs], key='C03.3|fields')
    fl = [F, ctx.dep('bc_components'), ctx.dep('dcbor')]
    enc, enc_terms, problems = codec.encoder_table(ctx, fl)
    if enc_terms and 'Elided' in enc_terms:
        val, site = enc_terms['Elided'][:2]
        u = m_call(val, name='untagged_cbor')
        sv = strip_sites(u[0]) if u else None
        if sv is not None and sv[0] == 'vfield' and sv[2] == 'Elided' and sv[3] == '0':
            ctx.ok('C03.3', site, 'encoder emits an elided element as exactly untagged_cbor(its digest)', sample=fmt(val))
        else:
            ctx.fail('C03.3', site, 'encoder emits an elided element as %s' % fmt(val), key='C03.3|encoder')
    else:
        ctx.lost('C03.3', 'encoder arm for Elided')
    # ---- C03.5 unelide
    b = F.method1('Envelope', 'unelide')
    if b is None:
        ctx.lost('C03.5', 'Envelope::unelide')
        return
    tb = TermBuilder(F, b)
    acc = accept_sites(b, tb)
    if not acc:
        ctx.lost('C03.5', 'accept exit of unelide')
    for bi, si, t in acc:
        v = strip_sites(detry(t[3][0])) if t[0] == 'agg' and t[2] == 'Ok' else None
        arg = strip_into(v) if v is not None else None
        if arg != ('param', 2):
            ctx.fail('C03.5', ctx.site(b, bi, si), 'unelide returns %s, not the supplied envelope' % fmt(t), key='C03.5|value')
            continue
        def guard(x):
            if x[0] != 'call' or call_name(x) not in ('eq', 'ne'):
                return False
            l, r = m_digest(x[2][0]), m_digest(x[2][1])
            if l is None or r is None:
                return False
            l, r = strip_into(strip_sites(l)), strip_into(strip_sites(r))
            return {l, r} == {('param', 1), ('param', 2)}
        gs = find_terms(b, tb, guard)
        if not gs:
            ctx.fail('C03.5', ctx.site(b, bi, si), 'no comparison of digest(self) with digest(argument) guards the accept exit', key='C03.5|noguard')
            continue
        passing = call_name(gs[0]) == 'eq'
        ok, info = guard_dominates(b, tb, [bi], guard, passing)
        if ok:
            ctx.ok('C03.5', ctx.site(b, bi, si), 'Ok(argument) dominated by digest(self) == digest(argument); ' + info, sample=fmt(gs[0]))
        else:
            ctx.fail('C03.5', ctx.site(b, bi, si), 'accept exit not dominated by the digest comparison: ' + info, key='C03.5|dominance')
    # ---- C03.6 the removing / revealing entry points keep their mode: every elide_removing_* passes is_revealing = false (or delegates to
    # another removing entry point), every elide_revealing_* passes true, the target and the action are the caller's
    F = ctx.F
    P1 = ('param', 1)
    n = 0
    for b in F.bodies:
        if not (b.impl_self and b.impl_self.endswith('::Envelope') and '{closure' not in b.path):
            continue
        mode = 'revealing' if b.name.startswith('elide_revealing_') else 'removing' if b.name.startswith('elide_removing_') else None
        if mode is None:
            continue
        n += 1
        rt = strip_sites(detry(TermBuilder(F, b).return_term()))
        c = callee_of(rt) if rt[0] == 'call' else None
        good, why = False, fmt(rt)[:160]
        if c is not None and c.name.startswith('elide_') and rt[2] and strip_sites(rt[2][0]) == P1:
            bools = [strip_sites(a) for a in rt[2][1:] if strip_sites(a)[0] == 'bool']
            if bools:
                good = len(bools) == 1 and bools[0][1] == (mode == 'revealing')
            else:
                good = c.name.startswith('elide_' + mode + '_')
            # the caller's target is handed on (as it is, or as the set / array built from it)
            good = good and len(rt[2]) >= 2 and contains(rt[2][1], lambda y: y == ('param', 2))
        if good:
            ctx.ok('C03.6', ctx.site(b), '%s keeps its mode (%s) and hands on the caller\'s target' % (b.name, mode), nontrivial=False)
        else:
            ctx.fail('C03.6', ctx.site(b), '%s does not delegate with is_revealing = %s over the caller\'s target: %s' % (b.name, str(mode == 'revealing').lower(), why), key='C03.6|' + b.name)
    ctx.need('C03.6', n >= 8, 'elide_removing_* / elide_revealing_* entry points')
    # ---- C03.7 the mode-generic wrappers (elide_set, elide_array[_with_action], elide_target[_with_action]) have no answer of their own:
    # what they return is the result of the next elide_* entry point over the receiver, the caller's target and the caller's mode
    n = 0
    for nm in ('elide_set', 'elide_array_with_action', 'elide_array', 'elide_target_with_action', 'elide_target'):
        b = F.method1('Envelope', nm)
        if b is None:
            continue
        n += 1
        rt = strip_sites(detry(TermBuilder(F, b).return_term()))
        c = callee_of(rt) if rt[0] == 'call' else None
        good = (c is not None and c.name.startswith('elide_') and len(rt[2]) >= 3 and strip_sites(rt[2][0]) == P1
                and contains(rt[2][1], lambda y: y == ('param', 2))
                and [strip_sites(a) for a in rt[2][2:]].count(('param', 3)) == 1
                and not any(strip_sites(a)[0] == 'bool' for a in rt[2][2:]))
        if good:
            ctx.ok('C03.7', ctx.site(b), '%s returns %s(self, the caller\'s target, the caller\'s mode ..) on every path' % (nm, c.name), nontrivial=False)
        else:
            ctx.fail('C03.7', ctx.site(b), '%s has an answer of its own (or drops the caller\'s target / mode): returns %s' % (nm, fmt(rt)[:200]), key='C03.7|' + nm)
    ctx.need('C03.7', n >= 5, 'mode-generic elide wrappers')
