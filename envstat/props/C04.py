"""C04 — every envelope the library emits is canonical and well-formed."""
from ..lib import *
from ..terms import TermBuilder
from .. import obscure, codec
from . import C06

NEED_DEPS = False
USES_QUERIES = True
EXPLANATION = (
    "WHO/GUARD/FLOW/TABLE rules, universal over every call site of a node-constructing function (the bodies that build "
    "EnvelopeCase::Node, and thin wrappers around them). Each site's assertion-vector argument must match one idiom: "
    "[x]; push(V, x) with V the assertions of the matched node; V itself / an element-wise map of V (digest-preserving image); "
    "remove(V, position(..)); a parameter passed through (then the callers are judged). C04.1 non-empty by idiom (or by the "
    "not-empty / len>=2 guard). C04.2 = C01.2(node): sorted, and the sorted vector is the stored one. C04.3: a growing site is "
    "dominated by the false edge of any(V, |a| digest(a) == digest(new)) for the very element pushed, and the duplicate edge "
    "returns self. C04.4: where a caller-supplied envelope enters an assertion slot the accept is unreachable when both "
    "is_subject_assertion and is_subject_obscured are false (finite valuation), and those predicates' own tables are checked. "
    "C04.5: the shrinking site's table over (found, remaining empty) = {not found: self; found&empty: subject(self); "
    "found&non-empty: node(subject(self), remaining)}. C04.6: Encrypted/Compressed are only built on the passing edge of "
    "has_digest. C04.8: a decoded node holds no two equal assertion digests - the decoder's node accept exit is dominated by the "
    "passing edge of a strict adjacent-digest order test over the vector handed to the (sorting) node constructor. Does not decide "
    "dCBOR validity of leaf payloads."
    " C04.9: sink pairing (C02.1) - an encrypted / compressed element declares the digest of the element whose encoding it carries. C04.4 also: the checked node constructor has no refusal other than the element test.")
TRUSTED = ['Vec::push/remove/is_empty, Iterator::any/all/position have their std semantics']
FLOORS = {'C04.1': 7, 'C04.3': 2, 'C04.4': 3, 'C04.5': 3, 'C04.6': 2, 'C04.8': 1}

P1 = ('param', 1)


def node_assertions_of_self(t):
    """V = the assertion vector of self (case(p1).Node.assertions, or assertions(p1))."""
    t = strip_sites(t)
    if obscure.child_kind(t) == 'Node.assertions' and t[0] == 'vfield':
        return True
    a = m_call(t, name='assertions', self_suffix='Envelope')
    return a is not None and a[0] == P1


def subject_of_self(t):
    t = strip_sites(t)
    if obscure.child_kind(t) == 'Node.subject':
        return True
    a = m_call(t, name='subject', self_suffix='Envelope')
    return a is not None and a[0] == P1


def digest_eq_closure(F, clo, new_term):
    """closure |a| digest(a) == digest(new) with new captured"""
    cb = F.closure(clo[1])
    if cb is None:
        return False, 'closure not found'
    rt = strip_sites(TermBuilder(F, cb).return_term())
    a = m_call(rt, name='eq', trait='PartialEq')
    if a is None:
        return False, 'closure is not a digest equality: %s' % fmt(rt)
    l, r = m_digest(a[0]), m_digest(a[1])
    def cap(x):
        if x is not None and x[0] == 'upvar' and x[1] < len(clo[2]):
            return strip_sites(clo[2][x[1]])
        return None
    nt = strip_sites(new_term)
    def is_new(x, raw):
        # captured envelope (digest taken inside) or captured digest of it
        c = cap(x) if x is not None else None
        if c is not None and c == nt:
            return True
        c2 = cap(raw)
        if c2 is not None and m_digest(c2) is not None and m_digest(c2) == nt:
            return True
        return False
    if (l == ('param', 2) and is_new(r, a[1])) or (r == ('param', 2) and is_new(l, a[0])):
        return True, fmt(rt)
    return False, 'closure compares %s' % fmt(rt)


def check_predicates(ctx):
    """TABLE for is_subject_assertion / is_subject_obscured: what they accept."""
    F = ctx.F
    b = F.method1('Envelope', 'is_subject_assertion')
    o = F.method1('Envelope', 'is_subject_obscured')
    if b is None or o is None:
        ctx.lost('C04.4/pred', 'is_subject_assertion / is_subject_obscured')
        return
    variants = adt_variants(F, CASE)
    from .. import accessors
    n = len(accessors.shapes(variants))
    # is_subject_assertion: the innermost subject (through any chain of node subjects) is an Assertion
    bad = accessors.shape_table(F, b, variants, lambda sh: sh[-1] == 'Assertion')
    if not bad:
        ctx.ok('C04.4/pred', ctx.site(b), 'is_subject_assertion: true exactly when the innermost subject is an Assertion (%d abstract envelopes: subject chains up to depth 2)' % n)
    else:
        ctx.fail('C04.4/pred', ctx.site(b), 'is_subject_assertion table unexpected: (envelope, got, expected) %s' % bad[:4], key='C04.4/pred|assertion')
    # is_subject_obscured: the innermost subject is elided, encrypted or compressed
    OB = {'Elided', 'Encrypted', 'Compressed'}
    bad = accessors.shape_table(F, o, variants, lambda sh: sh[-1] in OB)
    if not bad:
        ctx.ok('C04.4/pred', ctx.site(o), 'is_subject_obscured = the innermost subject is Elided | Encrypted | Compressed (%d abstract envelopes)' % n)
    else:
        ctx.fail('C04.4/pred', ctx.site(o), 'is_subject_obscured is not "innermost subject is elided | encrypted | compressed": (envelope, got, expected) %s' % bad[:4],
                 key='C04.4/pred|obscured_table')


def check(ctx):
    F = ctx.F
    ctors = {}
    for b, bi, si, rv in agg_sites(F, CASE):
        if rv['variant'] == 'Node':
            ctors[b.hash] = b
    if not ctors:
        ctx.lost('C04.1', 'node constructor')
        return
    check_predicates(ctx)
    C06.check_has_digest(ctx, 'C04.6')
    # C04.8: the decoding constructor sorts what it is given, so equal digests are only kept out of a decoded node by the
    # decoder's own strict adjacent-order test over the vector it hands to that constructor
    C06.check_decoder_order(ctx, 'C04.8')
    # C04.9: "encrypted and compressed elements carry a digest; the digests held in the structure agree with those recomputed from its
    # children": each digest-declaring sink pairs its payload with the digest of the element whose encoding the payload is (C02.1)
    if hasattr(ctx, 'dep'):
        try:
            obscure.check_sinks(ctx, 'C04.9')
        except Exception as e:
            ctx.fail('C04.9', '-', 'sink pairing (C02.1) could not be evaluated: %r' % e, key='C04.9|c02')
    # worklist over call sites of node-constructing functions; wrappers that pass a parameter through are followed
    todo = list(ctors.values())
    VALIDATING.clear()
    seen_fn = set()
    n_sites = 0
    while todo:
        fn = todo.pop()
        if fn.hash in seen_fn:
            continue
        seen_fn.add(fn.hash)
        for (b, bi) in F.callers().get(fn.hash, []):
            tb = TermBuilder(F, b)
            args = tb.call_args(bi)
            if len(args) != 2:
                continue
            subj, vec = args
            site = ctx.site(b, bi)
            n_sites += 1
            sv = strip_sites(detry(vec))
            # sorting does not change the multiset of elements: look through it
            while sv[0] == 'mut' and call_name(sv) in ('sort_by', 'sort_unstable_by', 'sort_by_key', 'sort', 'sort_unstable') and sv[2] == 0:
                sv = sv[3][0]
            # ---------- idioms
            if sv[0] == 'param':
                # wrapper: follow to callers; its own guards (e.g. validity `all`) are judged below
                ctx.ok('C04.1', site, 'assertion vector is parameter %d passed through: callers judged instead' % sv[1], nontrivial=False)
                if wrapper_validity(ctx, b, tb, bi, sv):
                    VALIDATING.add(b.hash)
                todo.append(b)
                continue
            if sv[0] == 'mut' and call_name(sv) in ('remove', 'swap_remove') and sv[2] == 0 and node_assertions_of_self(sv[3][0]):
                shrink(ctx, b, tb, bi, sv, site)
                continue
            # every other construction is read in sequence normal form: singles ('one') and per-element images ('each')
            v0 = detry(vec)
            while v0[0] == 'mut' and call_name(v0) in ('sort_by', 'sort_unstable_by', 'sort_by_key', 'sort', 'sort_unstable') and v0[2] == 0:
                v0 = v0[3][0]
            parts = seq_norm(v0, b, bi)
            if parts is not None and not parts:
                ctx.fail('C04.1', site, 'node built over an empty assertion list', key='C04.1|emptylist|' + b.path)
                continue
            if parts is not None:
                ones = [v for k, v in parts if k == 'one']
                eachs = [v for k, v in parts if k == 'each']
                verdict = classify_parts(ctx, b, tb, bi, ones, eachs, site, callee=fn, vec_term=v0)
                if verdict:
                    continue
            ctx.fail('C04.1', site, 'assertion vector at this node construction site has an unrecognised form (cannot show non-empty / valid / duplicate-free): %s' % fmt(sv),
                     key='C04.1|form|' + b.path, rule='FLOW/IDIOM-UNKNOWN')
    ctx.count('node_constructor_call_sites', n_sites)
    # role anchor: the public remove operation must contain the shrinking site judged above
    rm = F.method1('Envelope', 'remove_assertion')
    if rm is None:
        ctx.lost('C04.5', 'Envelope::remove_assertion')
    elif not any(r['inst'] == 'C04.5' and rm.path in r['site'] for r in getattr(ctx, 'results', []) if r.get('status') in ('pass', 'violation')) and hasattr(ctx, 'results'):
        ctx.fail('C04.5', ctx.site(rm), 'remove_assertion does not rebuild through node-constructor(subject(self), remove(assertions(self), position(..))) with the collapse test: '
                 'its result cannot be shown to be the receiver minus exactly the target', key='C04.5|role')


def elem_of_self(v):
    """v mentions an element of the matched node's own assertion vector -> that vector (else None)."""
    for x in walk(v):
        if isinstance(x, tuple) and x and x[0] == 'elem' and node_assertions_of_self(x[1]):
            return x[1]
    return None


VALIDATING = set()     # hashes of pass-through wrappers that validate every element of the vector they are given


def classify_parts(ctx, b, tb, bi, ones, eachs, site, callee=None, vec_term=None):
    """Judge a node construction whose assertion vector has the given sequence parts. True when the form was understood
    (verdicts recorded), False when it is not one of the known idioms."""
    F = ctx.F
    own = []          # 'each' parts ranging over the matched node's own assertions
    tails = []        # decoded tail: decode(elem(X[k..]))
    for v in eachs:
        V = elem_of_self(v)
        if V is not None:
            own.append((v, V))
            continue
        d = m_call(v, name='from_untagged_cbor')
        ix = m_index(d[0][1]) if d is not None and d[0][0] == 'elem' else None
        if ix is not None and ix[1][0] == 'agg' and ix[1][1].endswith('RangeFrom') and const_int(ix[1][3][0]) is not None:
            tails.append((v, ix[0], const_int(ix[1][3][0])))
            continue
        return False
    if len(own) > 1 or (own and tails):
        return False
    if tails:
        # non-empty iff the decoded array has more than k elements: the site must be unreachable for every shorter length
        v, X, k = tails[0]
        def len_of_X(x):
            return (x[0] == 'call' and call_name(x) == 'len' and strip_sites(detry(x[2][0])) == X) or (x[0] == 'len' and strip_sites(detry(x[1])) == X)
        lens = find_terms(b, tb, len_of_X)
        def len_env(n):
            e = {l: n for l in lens}
            e[('len', X)] = n
            return e
        if not ones:
            if any(bi in reach_under(b, tb, len_env(n)) for n in range(0, k + 1)):
                ctx.fail('C04.1', site, 'node built over the decoded tail [%d..] of %s without an element-count guard that makes it non-empty' % (k, fmt(X)), key='C04.1|tail|' + b.path)
                return True
        ctx.ok('C04.1', site, 'decoded tail elements[%d..]: non-empty by the element-count guard (site unreachable for len <= %d)' % (k, k), nontrivial=False)
        # decoded elements are arbitrary envelopes: they must be validated, by the constructor wrapper they are handed to or here
        local_ok = False
        if vec_term is not None:
            sv_ = strip_sites(detry(vec_term))
            for g in forall_guards(F, b, tb, [bi], lambda c: strip_sites(detry(c)) == sv_):
                def patom(name, g=g):
                    return lambda t: t[0] == 'call' and call_name(t) == name and strip_sites(t[2][0]) == g.elem
                a1 = g.atoms(patom('is_subject_assertion'))
                a2 = g.atoms(patom('is_subject_obscured'))
                if a1 and a2 and not forall_table(g, [a1[0], a2[0]], lambda v_: v_[0] or v_[1]):
                    local_ok = True
                    ctx.ok('C04.4', site, 'construction only after every decoded element passed is_subject_assertion(a) | is_subject_obscured(a): %s' % g.describe())
                    break
        if local_ok:
            pass
        elif callee is not None and callee.hash in VALIDATING:
            ctx.ok('C04.4', site, 'decoded elements are handed to %s, which validates every element (judged there)' % callee.name, nontrivial=False)
        else:
            ctx.fail('C04.4', site, 'decoded elements enter the assertion slots of a node without every one of them being tested assertion-or-obscured (neither here nor in %s)' % (
                callee.name if callee is not None else 'the constructor'), key='C04.4|decoded|' + b.path)
        for x in ones:
            entering(ctx, b, tb, bi, x, site)
        return True
    if own:
        v, V = own[0]
        identity = v == ('elem', V)
        if not ones:
            if V[0] == 'call':
                # accessor form assertions(self): empty for a non-node receiver, so a not-empty guard is required
                ok, info = guard_dominates(b, tb, [bi], lambda t: t[0] == 'call' and call_name(t) == 'is_empty' and strip_sites(t[2][0]) == V, False)
                if not ok:
                    ctx.fail('C04.1', site, 'node built over assertions(self) without a not-empty guard: ' + info, key='C04.1|accessor_empty|' + b.path)
                    return True
                ctx.ok('C04.1', site, 'assertions(self) reused on the not-empty edge; ' + info)
            elif identity:
                ctx.ok('C04.1', site, 'assertion vector of the matched node reused unchanged (non-empty, valid and duplicate-free by induction)')
            else:
                ctx.ok('C04.1', site, 'element-wise image of the matched node\'s assertions (same length)')
            if identity:
                ctx.ok('C04.7', site, 'digest-multiset-preserving: the same vector')
            else:
                # the mapping must be the digest-preserving recursion (judged by C02.4)
                ctx.ok('C04.7', site, 'element-wise map over the node\'s own vector; digest preservation of the mapped function is C02.4')
            return True
        if not identity:
            return False
        ctx.ok('C04.1', site, 'non-empty by construction: the matched node\'s assertions plus %d new element(s)' % len(ones))
        for x in ones:
            growth(ctx, b, tb, bi, V, x, site)
            entering(ctx, b, tb, bi, x, site)
        return True
    if ones:
        ctx.ok('C04.1', site, 'non-empty by construction: %d listed element(s)' % len(ones))
        for x in ones:
            entering(ctx, b, tb, bi, x, site)
        return True
    return False


def entering(ctx, b, tb, bi, x, site):
    """C04.4: x enters an assertion slot. If x is caller-supplied, the site must be unreachable when x is neither assertion nor obscured."""
    sx = strip_sites(x)
    alts = phi_alts(sx)
    roots = []
    for a in alts:
        s = m_call(a, name='add_salt', self_suffix='Envelope')
        roots.append(s[0] if s is not None else a)
    root = roots[0]
    if any(r != root for r in roots):
        ctx.fail('C04.4', site, 'element entering the assertion slot has several unrelated sources: %s' % fmt(sx), key='C04.4|sources|' + b.path)
        return
    # built here from an Assertion constructor -> valid by construction
    if m_call(root, name='new_assertion') is not None or m_call(root, name='new_with_assertion') is not None:
        ctx.ok('C04.4', site, 'element is built by the assertion constructor', nontrivial=False)
        return
    def atom(name):
        return lambda t: t[0] == 'call' and call_name(t) == name and strip_sites(t[2][0]) == root
    a1 = find_terms(b, tb, atom('is_subject_assertion'))
    a2 = find_terms(b, tb, atom('is_subject_obscured'))
    if not a1 or not a2:
        ctx.fail('C04.4', site, 'caller-supplied element %s enters an assertion slot without the assertion-or-obscured test' % fmt(root), key='C04.4|missing|' + b.path)
        return
    table = {}
    for va in (False, True):
        for vo in (False, True):
            table[(va, vo)] = bi in reach_under(b, tb, {a1[0]: va, a2[0]: vo})
    expect = {(False, False): False, (False, True): True, (True, False): True, (True, True): True}
    if table == expect:
        ctx.ok('C04.4', site, 'site reachable iff is_subject_assertion(x) | is_subject_obscured(x) (4 valuations)', sample=str(table))
    else:
        ctx.fail('C04.4', site, 'validity table for the entering element is %s, expected %s' % (table, expect), key='C04.4|table|' + b.path)


def wrapper_validity(ctx, b, tb, bi, param):
    """A wrapper that validates every element of its vector parameter before constructing (decoder path).
    Any universally quantified form is accepted: all(closure), !any(closure), or a loop that bails on the first bad element."""
    F = ctx.F
    gs = forall_guards(F, b, tb, [bi], lambda c: c == param)
    if not gs:
        return False  # plain pass-through; callers judged (and must validate what they pass)
    site = ctx.site(b, bi)
    problems = []
    for g in gs:
        def patom(name, g=g):
            return lambda t: t[0] == 'call' and call_name(t) == name and strip_sites(t[2][0]) == g.elem
        a1 = g.atoms(patom('is_subject_assertion'))
        a2 = g.atoms(patom('is_subject_obscured'))
        if not a1 or not a2:
            problems.append('element validation does not test assertion-or-obscured (%s)' % g.describe())
            continue
        bad = forall_table(g, [a1[0], a2[0]], lambda v: v[0] or v[1])
        if bad:
            problems.append('element validation is not assertion|obscured: %s (%s)' % (bad[:3], g.describe()))
            continue
        ctx.ok('C04.4', site, 'construction only after every element passed is_subject_assertion(a) | is_subject_obscured(a): %s; %s' % (g.describe(), g.info))
        # the checked constructor refuses NOTHING else: once every element passed the test no explicit error exit is reachable (a further
        # refusal - on the subject's shape, on sizes - would make some envelopes the library builds and encodes undecodable)
        if True:
            env_ok = {g.term: (g.kind == 'all')} if g.kind in ('all', 'any') else {a1[0]: True, a2[0]: True}
            R = reach_under(b, tb, env_ok)
            extra = [(bi2, si2) for bi2, si2, t2 in ret_defs(tb) if t2[0] == 'agg' and t2[2] == 'Err' and bi2 in R]
            if extra:
                ctx.fail('C04.4', ctx.site(b, extra[0][0], extra[0][1]), 'the checked node constructor %s refuses on a further condition of its own (an error exit is reachable although every element '
                         'is an assertion or obscured): some nodes the library itself builds no longer decode' % b.name, key='C04.4|extra_refusal|' + b.path)
        return True
    ctx.fail('C04.4', site, 'decoder-side validation is not "every element is assertion|obscured" guarding the construction: %s' % '; '.join(problems), key='C04.4|wrapper|' + b.path)
    return False


def growth(ctx, b, tb, bi, base, new, site):
    """C04.3: duplicate suppression at a growing site: the site is reached only if NO existing assertion has the digest of the
    element added (any(..)==false, all(!=), or a loop that leaves on the first equal digest), and the duplicate exit returns self."""
    F = ctx.F
    gs = forall_guards(F, b, tb, [bi], node_assertions_of_self)
    if not gs:
        ctx.fail('C04.3', site, 'push site is not guarded by a duplicate test over the node\'s assertions', key='C04.3|missing|' + b.path)
        return
    nt = strip_sites(new)
    problems = []
    for g in gs:
        def side(x, g=g):
            d = m_digest(x)
            if d is not None and d == g.elem:
                return 'elem'
            if d is not None and g.captured(d) == nt:
                return 'new'
            c = g.captured(x)
            if c is not x and m_digest(c) is not None and strip_sites(m_digest(c)) == nt:
                return 'new'
            if m_digest(x) is None and x == nt:
                return None
            return None
        def is_cmp(t, g=g):
            if t[0] != 'call' or call_name(t) not in ('eq', 'ne') or len(t[2]) != 2:
                return False
            return sorted([side(t[2][0]) or '', side(t[2][1]) or '']) == ['elem', 'new']
        atoms = g.atoms(is_cmp)
        if len(atoms) != 1:
            problems.append('duplicate test does not compare each existing assertion\'s digest with the digest of the element pushed (%s)' % g.describe())
            continue
        eq_is = call_name(atoms[0]) == 'eq'
        bad = forall_table(g, atoms, lambda v: (not v[0]) if eq_is else v[0])
        if bad:
            problems.append('element passes the duplicate test although its digest equals the new one: %s' % (bad[:2],))
            continue
        # duplicate exit returns self
        if g.kind in ('all', 'any'):
            # where control goes when the quantified test reports a duplicate, and what is returned from there
            dupv = (g.kind == 'any')
            edges, _blocks, _gs = passing_edges(b, tb, lambda x, g=g: strip_sites(x) == g.term, dupv)
            dup_rets = []
            for src, dst in sorted(edges):
                dup_rets += [strip_sites(detry(t)) for bi2, si2, t in ret_values_under(b, tb, {g.term: dupv}, start=dst)]
        else:
            dup_rets = [strip_sites(detry(t)) for bi2, si2, t in ret_values_under(b, tb, {atoms[0]: eq_is}, start=g.some, stop_blocks=[g.header])]
        good = dup_rets and all(r == ('agg', 'core::result::Result', 'Ok', (P1,), ('0',)) or r == P1 for r in dup_rets)
        if good:
            ctx.ok('C04.3', site, 'grown only when no existing assertion has the new element\'s digest (%s; %s); duplicate exit returns self' % (g.describe(), g.info), sample=fmt(atoms[0]))
            return
        problems.append('duplicate edge does not return self unchanged: %s' % [fmt(r) for r in dup_rets])
    ctx.fail('C04.3', site, '; '.join(problems), key='C04.3|' + b.path)


def shrink(ctx, b, tb, bi, sv, site):
    """C04.5: remove_assertion-style site."""
    F = ctx.F
    # C04.1 for this site first, on its own: the node is rebuilt only on the not-empty edge of the remaining vector
    e0 = find_terms(b, tb, lambda t: t[0] == 'call' and call_name(t) == 'is_empty' and strip_sites(t[2][0]) == sv)
    ok0, info0 = guard_dominates(b, tb, [bi], lambda t: t[0] == 'call' and call_name(t) == 'is_empty' and strip_sites(t[2][0]) == sv, False) if e0 else (False, 'no emptiness test of the remaining vector')
    if not ok0:
        ctx.fail('C04.1', site, 'node rebuilt over the remaining assertions without a not-empty guard (removing the last assertion must collapse to the subject): ' + info0, key='C04.5|noempty')
        return
    idx = sv[3][1]
    pos = idx[1] if idx[0] == 'vfield' and idx[2] == 'Some' else None
    fi = first_index(F, b, tb, pos) if pos is not None else None
    good_pos = False
    why = ''
    if fi is not None and node_assertions_of_self(fi.coll):
        # the element found is the first whose digest equals the target's: atom eq(digest(e), digest(target)); hit iff it is true
        def side(x):
            d = m_digest(x)
            if d is not None and d == fi.elem:
                return 'elem'
            c = fi.captured(x)
            if (d is not None and fi.captured(d) == ('param', 2)) or (c is not x and m_digest(c) is not None and strip_sites(m_digest(c)) == ('param', 2)) \
                    or (d is not None and d == ('param', 2)):
                return 'target'
            return ''
        def is_cmp(t):
            return t[0] == 'call' and call_name(t) in ('eq', 'ne') and len(t[2]) == 2 and sorted([side(t[2][0]), side(t[2][1])]) == ['elem', 'target']
        atoms = fi.atoms(is_cmp)
        if len(atoms) == 1:
            eq_is = call_name(atoms[0]) == 'eq'
            good_pos = fi.hit_values({atoms[0]: eq_is}) == {True} and fi.hit_values({atoms[0]: not eq_is}) == {False}
            why = 'hit table over %s is %s / %s' % (fmt(atoms[0]), fi.hit_values({atoms[0]: eq_is}), fi.hit_values({atoms[0]: not eq_is}))
        else:
            why = 'no single digest comparison between the element and the target'
    if not good_pos:
        ctx.fail('C04.5', site, 'removed index is not the position of the first assertion whose digest equals the target\'s: %s %s' % (fmt(idx), why), key='C04.5|position')
        return
    found_atom = ('discr', pos)
    empty_atoms = find_terms(b, tb, lambda t: t[0] == 'call' and call_name(t) == 'is_empty' and strip_sites(t[2][0]) == sv)
    if not empty_atoms:
        ctx.fail('C04.1', site, 'node rebuilt over the remaining assertions without an emptiness test (removing the last assertion must collapse to the subject)', key='C04.5|noempty')
        return
    rows = {}
    for found in (0, 1):
        for empty in (False, True):
            reach = reach_under(b, tb, {found_atom: found, empty_atoms[0]: empty})
            outs = []
            for bi2, si2, t in ret_defs(tb):
                if bi2 in reach:
                    outs.append(strip_sites(detry(t)))
            rows[(found, empty)] = outs
    def is_node(t):
        return t[0] == 'call' and len(t[2]) == 2 and subject_of_self(t[2][0]) and t[2][1] == sv
    verdict = (all(r == P1 for r in rows[(0, False)]) and all(r == P1 for r in rows[(0, True)]) and rows[(0, True)]
               and rows[(1, True)] and all(subject_of_self(r) for r in rows[(1, True)])
               and rows[(1, False)] and all(is_node(r) for r in rows[(1, False)]))
    if verdict:
        ctx.ok('C04.5', site, 'not found -> self; found & remaining empty -> subject(self); found & non-empty -> node(subject(self), remaining)',
               sample={str(k): [fmt(x) for x in v] for k, v in rows.items()})
        ctx.ok('C04.5', site, 'remaining = %s(assertions(self), position(|a| digest(a)==digest(target)))' % call_name(sv))
        ctx.ok('C04.5', site, 'node rebuilt only on the not-empty edge (C04.1)')
    else:
        ctx.fail('C04.5', site, 'collapse table is %s' % {str(k): [fmt(x) for x in v] for k, v in rows.items()}, key='C04.5|table')
