"""C09 — signatures bind to the subject digest and verification is exact."""
from ..lib import *
from ..terms import TermBuilder
from .. import rec

REQUIRES = ['signature']
USES_QUERIES = True
USES_KNOWN_VALUES = True
EXPLANATION = (
    "FLOW/WHO/GUARD/TABLE rules. C09.2: census of every call to Verifier::verify (the verification primitive P is the body that "
    "contains it); each must verify over bytes(digest(subject(receiver))) (C09.1). C09.1 signer side: the first Signer::sign* call signs "
    "digest(subject(self)); with metadata the outer call signs digest(W) for the very wrapped object W that then receives the outer "
    "'signed' assertion. C09.3: in the matcher (the closure that yields Some(Ok(Some(_))) inside the function reached by every public "
    "verification API) the plain accept is dominated by the passing edge of P(self, sig(object), key); the metadata accept (value = "
    "unwrapped subject of the object) by the passing edges of BOTH P(subject(self), inner sig, key) and P(wrapped object, outer sig "
    "taken from the object's own 'signed' assertion, key). C09.4: threshold default = unwrap_or(threshold, len(keys)); the counter "
    "starts at 0 and is incremented only on the passing edge of the per-key check; Ok(true) is reachable exactly for count >= threshold "
    "(ordering table over count <,=,> threshold); Ok(false) only after the key list is exhausted. C09.5: each verify_* wrapper returns "
    "Ok only on the true edge of its has_* and Err otherwise. C09.6: writer and reader both use the 'signed' known value. C09.8 (also: a *_returning_metadata entry point hands back the matcher's result for the caller's key and no other lookup of signature objects): every verify* entry point (and unseal) has each success exit dominated by a positive verdict on self or by the success edge of another verify* call on self. C09.9: add_signatures / add_signatures_opt are left folds of the single-signer writer over the accumulated envelope. Does not "
    "decide the signature schemes themselves ('under no other key')."
    " C09.10: sink pairing and action arms (C02.1 / C02.2) - the obscured form of a part declares the part's own digest, so signatures keep verifying.")
TRUSTED = ['Signer::sign_with_options / Verifier::verify implement their schemes over the given message bytes']
FLOORS = {'C09.1': 3, 'C09.2': 1, 'C09.3': 2, 'C09.4': 4, 'C09.5': 4, 'C09.6': 2, 'C09.8': 8, 'C09.9': 2}
P1, P2, P3 = ('param', 1), ('param', 2), ('param', 3)


def subject_digest_of(t, who):
    """t == digest(subject(who)) or data(digest(subject(who))) or digest(who) when who is already subject(..)"""
    t = strip_sites(t)
    d = m_call(t, name='data', self_suffix='Digest')
    if d is not None:
        t = d[0]
    x = m_digest(t)
    if x is None:
        return False
    s = m_call(x, name='subject', self_suffix='Envelope')
    return s is not None and s[0] == who


def check(ctx):
    F = ctx.F
    # ---- C09.2 census of the primitive
    vsites = F.call_sites(lambda c: c.name == 'verify' and c.is_trait_method('Verifier'))
    if not vsites:
        ctx.lost('C09.2', 'no call to Verifier::verify')
        return
    prims = {}
    for b, bi, c, t in vsites:
        tb = TermBuilder(F, b)
        a = tb.call_args(bi)
        site = ctx.site(b, bi)
        recv = None
        # receiver = the envelope parameter whose subject digest is the message
        for i in range(1, b.arg_count + 1):
            if subject_digest_of(a[2], ('param', i)):
                recv = i
        if recv is None:
            ctx.fail('C09.1', site, 'verification message is %s, not digest(subject(receiver))' % fmt(a[2]), key='C09.1|verify|' + b.path)
            continue
        ctx.ok('C09.1', site, 'verify(key, signature, digest(subject(receiver)))', sample=fmt(a[2]))
        # the call result must be what the body returns
        rt = strip_sites(tb.return_term())
        if rt[0] == 'call' and call_name(rt) == 'verify':
            prims[b.hash] = (b, recv, strip_sites(a[0]), strip_sites(a[1]))
            ctx.ok('C09.2', site, 'verification primitive: %s returns Verifier::verify over the receiver\'s subject digest' % b.name)
        else:
            ctx.fail('C09.2', site, 'the body containing Verifier::verify does not return its verdict unchanged: %s' % fmt(rt), key='C09.2|prim|' + b.path)
    if len(prims) != 1:
        ctx.fail('C09.2', '-', '%d verification primitives found (expected a single one)' % len(prims), key='C09.2|count')
        return
    P, p_recv, p_key, p_sig = list(prims.values())[0]
    def prim_call(t):
        """(receiver, signature, key) of a call to the primitive"""
        if isinstance(t, tuple) and t and t[0] == 'call':
            c = CALLEES.get(t[1])
            if c is not None and c.best_hash == P.hash:
                a = t[2]
                m = {('param', i + 1): a[i] for i in range(len(a))}
                return (strip_sites(m[('param', p_recv)]), strip_sites(subst(p_sig, m)), strip_sites(subst(p_key, m)))
        return None
    # ---- C09.1 signer side
    ssites = F.call_sites(lambda c: c.name in ('sign', 'sign_with_options') and c.is_trait_method('Signer'))
    by_body = {}
    for b, bi, c, t in ssites:
        by_body.setdefault(b.path, []).append((b, bi))
    if not ssites:
        ctx.lost('C09.1', 'no call to Signer::sign*')
    for path, lst in by_body.items():
        b = lst[0][0]
        tb = TermBuilder(F, b)
        msgs = []
        for _, bi in sorted(lst, key=lambda x: x[1]):
            a = tb.call_args(bi)
            msgs.append((bi, a[1]))
        inner = [m for m in msgs if subject_digest_of(m[1], P1)]
        outer = [m for m in msgs if m not in inner]
        if len(inner) != 1:
            ctx.fail('C09.1', ctx.site(b), 'signing does not sign digest(subject(self)) exactly once: messages %s' % [fmt(m[1]) for m in msgs], key='C09.1|sign|' + path)
            continue
        ctx.ok('C09.1', ctx.site(b, inner[0][0]), 'sign(key, digest(subject(self)))', sample=fmt(inner[0][1]))
        # the caller's signing options reach EVERY signature made here (a scheme that requires options - SSH namespace / hash - can
        # otherwise sign the subject but not the metadata wrapper, or the reverse)
        if b.arg_count >= 3 and 'SigningOptions' in b.local_ty(3):
            def opt_of(bi_):
                c_ = b.callee(bi_)
                a_ = tb.call_args(bi_)
                if c_ is None or c_.name != 'sign_with_options' or len(a_) < 3:
                    return None
                x = strip_sites(detry(a_[2]))
                while x[0] == 'call' and call_name(x) in ('clone', 'as_ref', 'cloned') and len(x[2]) == 1:
                    x = strip_sites(detry(x[2][0]))
                return x
            bad_opts = [bi_ for bi_, _m in msgs if opt_of(bi_) != ('param', 3)]
            if bad_opts:
                ctx.fail('C09.1', ctx.site(b, bad_opts[0]), 'a signature in %s is made without the caller\'s signing options (sign(..) or other options instead of sign_with_options(.., options)): '
                         'a scheme that needs them cannot produce this signature' % b.name, key='C09.1|options|' + path)
            else:
                ctx.ok('C09.1', ctx.site(b, msgs[0][0]), 'every signature of %s is made with the caller\'s options (%d sign_with_options calls)' % (b.name, len(msgs)))
        rt = strip_sites(tb.return_term())
        # every exit returns add_assertion(self, 'signed', <signature object>) (one exit, or an early return for the plain form)
        tops = [m_call(a, name='add_assertion', self_suffix='Envelope') for a in phi_alts(rt)]
        if not tops or any(top is None or top[0] != P1 or const_name(top[1]) != 'SIGNED' for top in tops):
            ctx.fail('C09.6', ctx.site(b), 'signing does not return add_assertion(self, \'signed\', signature object): %s' % fmt(rt), key='C09.6|writer')
            continue
        ctx.ok('C09.6', ctx.site(b), 'writer: add_assertion(self, \'signed\', signature object)')
        objs = []
        for top in tops:
            objs.extend(phi_alts(top[2]))
        for bi, msg in outer:
            w = m_digest(strip_sites(msg))
            ok_ = False
            if w is not None:
                for o in objs:
                    oa = m_call(o, name='add_assertion', self_suffix='Envelope')
                    if oa is not None and oa[0] == w and const_name(oa[1]) == 'SIGNED':
                        wr = m_call(w, name='wrap_envelope', self_suffix='Envelope') or m_call(w, name='new_wrapped')
                        ok_ = wr is not None
            if ok_:
                ctx.ok('C09.1', ctx.site(b, bi), 'outer signature signs digest(W) of the wrapped signature+metadata object W that then carries the outer \'signed\' assertion', sample=fmt(msg))
            else:
                ctx.fail('C09.1', ctx.site(b, bi), 'outer signature message %s is not the digest of the wrapped object that receives the outer \'signed\' assertion' % fmt(msg), key='C09.1|outer|' + path)
    # ---- C09.3 matcher
    # The per-object matcher is looked for in two shapes: a closure handed to find_map over the 'signed' objects (as written), or
    # the body of a loop over those objects in the host function (hand-written loop, or the lowered normal form).
    def triple(st, inner_variant):
        return (st[0] == 'agg' and st[2] == 'Some' and st[3] and st[3][0][0] == 'agg' and st[3][0][2] == 'Ok' and st[3][0][3][0][0] == 'agg'
                and st[3][0][3][0][2] == inner_variant)
    def double(st, inner_variant):
        """Ok(Some(v)) / Ok(None): the direct-return spelling of a hand-written matcher loop"""
        return st[0] == 'agg' and st[2] == 'Ok' and st[1].endswith('Result') and st[3] and st[3][0][0] == 'agg' and st[3][0][1].endswith('Option') and st[3][0][2] == inner_variant
    def accept_val(st):
        if triple(st, 'Some'):
            return st[3][0][3][0][3][0]
        if double(st, 'Some'):
            return st[3][0][3][0]
        return None
    scope = None
    for b in F.bodies:
        if b.dk == 'Closure' or scope is not None:
            continue
        for cl in F.closures_of(b):
            tb = TermBuilder(F, cl)
            for bi, si, t in ret_defs(tb):
                if triple(t, 'Some'):
                    if any(prim_call(x) is not None for sb_, dt in switch_on(tb, cl, lambda d: True) for x in walk(dt)):
                        otb = TermBuilder(F, b)
                        binds = rec.closure_bindings(F, b, otb)
                        caps, elem, adaptor = binds.get(cl.path, ((), None, None))
                        caps = [strip_sites(c) for c in caps]
                        scope = {'host': b, 'otb': otb, 'body': cl, 'tb': tb, 'OBJ': P2, 'caps': caps, 'src': strip_sites(elem[1]) if elem else None,
                                 'adaptor': adaptor, 'defs': ret_defs(tb)}
    if scope is None:
        for b in F.bodies:
            if scope is not None:
                break
            tb = TermBuilder(F, b)
            for h in loop_headers(b):
                t = b.term(h)
                dt = tb.operand_term(t['discr'], h, len(b.blocks[h]['stmts']))
                if not (dt[0] == 'discr' and dt[1][0] == 'next'):
                    continue
                coll = strip_sites(dt[1][1])
                oa = m_call(coll, name='objects_for_predicate', self_suffix='Envelope')
                if oa is None:
                    continue
                some = [bb for v, bb in t['targets'] if v == 1]
                if len(some) != 1:
                    continue
                inside = b.reachable(some[0], removed_blocks=[h])
                defs = []
                for bi in sorted(inside):
                    for si, st in enumerate(b.blocks[bi]['stmts']):
                        if st['k'] == 'assign' and st['rv']['k'] == 'agg' and st['rv'].get('variant') == 'Some' and not st['place']['p']:
                            tt = tb.rvalue_term(st['rv'], bi, si)
                            if triple(tt, 'Some') or triple(tt, 'None'):
                                defs.append((bi, si, tt))
                # direct returns from inside the loop: Ok(Some(v)) accepts, Ok(None) is a terminating negative
                none_t = [bb for v, bb in t['targets'] if v == 0]
                after = b.reachable(none_t[0]) if none_t else set()
                for bi, si, tt in ret_defs(tb):
                    if bi in inside and bi not in after and (double(tt, 'Some') or double(tt, 'None')):
                        defs.append((bi, si, tt))
                if any(accept_val(d[2]) is not None for d in defs) and any(prim_call(x) is not None for sb_, dt2 in switch_on(tb, b, lambda d: True) for x in walk(dt2)):
                    scope = {'host': b, 'otb': tb, 'body': b, 'tb': tb, 'OBJ': ('elem', coll), 'caps': None, 'src': coll, 'adaptor': 'loop', 'defs': defs,
                             'header': h, 'some': some[0]}
                    break
    if scope is None:
        ctx.lost('C09.3', 'signature matcher (closure given to find_map over the \'signed\' objects, or loop over them)')
    else:
        outer_fn, cl, otb, caps, adaptor = scope['host'], scope['body'], scope['otb'], scope['caps'], scope['adaptor']
        in_closure = caps is not None
        def up(t):
            if not in_closure:
                return strip_sites(t)
            m = {('upvar', i): c for i, c in enumerate(caps)}
            return strip_sites(subst(t, m))
        # reader side predicate
        src = scope['src']
        oa = m_call(src, name='objects_for_predicate', self_suffix='Envelope') if src else None
        if oa is not None and oa[0] == P1 and const_name(oa[1]) == 'SIGNED':
            ctx.ok('C09.6', ctx.site(outer_fn), 'reader: iterates objects_for_predicate(self, \'signed\')')
        else:
            ctx.fail('C09.6', ctx.site(outer_fn), 'matcher does not iterate the objects of the \'signed\' assertions of self: %s' % (fmt(src) if src else '?'), key='C09.6|reader')
        ctb = scope['tb']
        OBJ = scope['OBJ']
        KEYP = P2        # the key is the second parameter of the enclosing function (captured by the closure form)
        def is_self(t):
            t = up(t)
            if t == P1:
                return True
            s = m_call(t, name='subject', self_suffix='Envelope')
            return s is not None and s[0] == P1
        def is_obj(t):
            t = strip_sites(t)
            if t == OBJ:
                return True
            s = m_call(t, name='subject', self_suffix='Envelope')
            return s is not None and s[0] == OBJ
        def sig_of(t):
            """extract_subject::<Signature>(X).Ok.0 -> X"""
            t = strip_sites(detry(t))
            if t[0] == 'vfield' and t[2] == 'Ok':
                t = t[1]
            a = m_call(t, name='extract_subject', self_suffix='Envelope')
            return a[0] if a is not None else None
        def inner_env(t):
            """unwrap(unwrap_envelope(subject(obj)))"""
            t = strip_sites(detry(t))
            u = m_call(t, name='unwrap') or m_call(t, name='expect')
            if u is not None:
                t = u[0]
            if t[0] == 'vfield' and t[2] == 'Ok':
                t = t[1]
            a = m_call(t, name='unwrap_envelope', self_suffix='Envelope')
            return a is not None and is_obj(a[0])
        def outer_sig_obj(t):
            """object_for_predicate(obj, SIGNED).Ok.0"""
            t = strip_sites(detry(t))
            if t[0] == 'vfield' and t[2] == 'Ok':
                t = t[1]
            a = m_call(t, name='object_for_predicate', self_suffix='Envelope')
            return a is not None and a[0] == OBJ and const_name(a[1]) == 'SIGNED'
        key_ok = lambda k: up(k) == KEYP
        def g_plain(x):
            pc = prim_call(x)
            return pc is not None and is_self(pc[0]) and sig_of(pc[1]) == OBJ and key_ok(pc[2])
        def g_inner(x):
            pc = prim_call(x)
            s = sig_of(pc[1]) if pc else None
            return pc is not None and is_self(pc[0]) and s is not None and inner_env(s) and key_ok(pc[2])
        def g_outer(x):
            pc = prim_call(x)
            s = sig_of(pc[1]) if pc else None
            return pc is not None and is_obj(pc[0]) and s is not None and outer_sig_obj(s) and key_ok(pc[2])
        n_acc = 0
        accept_aggs = []
        for bi, si, t in scope['defs']:
            st = strip_sites(t)
            val = accept_val(st)
            if val is None:
                continue
            accept_aggs.append(st)
            n_acc += 1
            site = ctx.site(cl, bi, si)
            if val == OBJ:
                ok, info = guard_dominates(cl, ctb, [bi], g_plain, True)
                if ok:
                    ctx.ok('C09.3', site, 'plain signature accepted only on the passing edge of verify(self.subject digest, Signature(object), key); ' + info)
                else:
                    ctx.fail('C09.3', site, 'plain signature object accepted without the key check on self: ' + info, key='C09.3|plain')
            elif inner_env(val):
                ok1, info1 = guard_dominates(cl, ctb, [bi], g_inner, True)
                ok2, info2 = guard_dominates(cl, ctb, [bi], g_outer, True)
                if ok1 and ok2:
                    ctx.ok('C09.3', site, 'metadata accepted only after BOTH the inner signature (over self\'s subject) and the outer signature (over the wrapped object) verify under the key; %s; %s' % (info1, info2))
                else:
                    if not ok1:
                        ctx.fail('C09.3', site, 'metadata returned without verifying the inner signature over self\'s subject: ' + info1, key='C09.3|meta_inner')
                    if not ok2:
                        ctx.fail('C09.3', site, 'metadata returned without a verified outer signature over the wrapped object (forged metadata would be accepted): ' + info2, key='C09.3|meta_outer')
            else:
                ctx.fail('C09.3', site, 'matcher accepts an unexpected value: %s' % fmt(val), key='C09.3|value')
        if n_acc == 0:
            ctx.lost('C09.3', 'accept sites of the matcher')
        # an object that is not a signature from this key must not end the scan: the per-object negative is None (continue), never Some(Ok(None))
        term_neg = [(bi, si) for bi, si, t in scope['defs'] if triple(strip_sites(t), 'None') or double(strip_sites(t), 'None')]
        direct_accepts = {(bi, si) for bi, si, t in scope['defs'] if double(strip_sites(t), 'Some')}
        if term_neg:
            ctx.fail('C09.3', ctx.site(cl, term_neg[0][0], term_neg[0][1]), 'a signature object that does not verify under the key ends the scan with "not signed" (Some(Ok(None))): '
                     'a valid signature from the same key that sorts later is never reached', key='C09.3|terminating_negative')
        elif adaptor == 'find_map':
            ctx.ok('C09.3', ctx.site(cl), 'per-object negatives are None: the scan continues to the remaining \'signed\' objects')
        elif adaptor == 'loop':
            # a negative verdict for one object must lead back to the loop header (next object), not out of the loop
            hdr, some_ = scope['header'], scope['some']
            negs = []
            for g in (g_plain,):
                edges, blocks, guards = passing_edges(cl, ctb, g, False)
                negs.extend(edges)
            bad = [e for e in negs if hdr not in cl.reachable(e[1])]
            if negs and not bad:
                ctx.ok('C09.3', ctx.site(cl, hdr), 'a signature object that does not verify leads back to the loop header: the scan continues to the remaining \'signed\' objects')
            else:
                ctx.fail('C09.3', ctx.site(cl, hdr), 'a signature object that does not verify under the key can end the scan', key='C09.3|terminating_negative')
        # the enclosing function returns only what the matcher produced
        for bi, si, t in accept_sites(outer_fn, otb):
            st = strip_sites(t)
            if st[0] == 'agg' and st[2] == 'Ok':
                inner = st[3][0]
                if inner[0] == 'agg' and inner[2] == 'None':
                    continue
                if inner[0] == 'agg' and inner[2] == 'Some' and (contains(inner, lambda x: x[0] == 'call' and call_name(x) == 'find_map')
                                                                  or contains(inner, lambda x: x in accept_aggs) or (bi, si) in direct_accepts):
                    ctx.ok('C09.2', ctx.site(outer_fn, bi, si), 'positive result is exactly the matcher\'s Some(Ok(Some(x)))')
                    continue
            ctx.fail('C09.2', ctx.site(outer_fn, bi, si), 'a positive verification result is manufactured without the matcher: %s' % fmt(st), key='C09.2|manufactured')
    # the boolean "self has a signature from key": by name, or spelled out as is_some(matcher(self, key)?) when the thin
    # helper has been inlined
    matcher_host = scope['host'] if scope is not None else None
    def sig_atom(x):
        x = strip_sites(detry(x))
        a = m_call(x, name='has_some_signature_from_key') or m_call(x, name='has_signature_from')
        if a is not None and len(a) >= 2:
            return (a[0], a[1])
        i = m_call(x, name='is_some')
        if i is not None and len(i) == 1:
            y = strip_sites(detry(i[0]))
            c = callee_of(y)
            if c is not None and y[0] == 'call' and len(y[2]) >= 2 and ((matcher_host is not None and c.best_hash == matcher_host.hash) or c.name == 'has_signature_from_returning_metadata'):
                return (y[2][0], y[2][1])
        return None
    # ---- C09.4 threshold
    th = F.method1('Envelope', 'has_signatures_from_threshold')
    if th is None:
        ctx.lost('C09.4', 'Envelope::has_signatures_from_threshold')
    else:
        tb = TermBuilder(F, th)
        def is_T(t):
            a = m_call(strip_sites(t), name='unwrap_or')
            if a is None or a[0] != P3:
                return False
            l = a[1]
            return (l[0] in ('call', 'len')) and (call_name(l) == 'len' or l[0] == 'len') and contains(l, lambda x: x == P2)
        cmp_sw = []
        for sb, dt in switch_on(tb, th, lambda d: d[0] == 'binop' and d[1] in ('Ge', 'Gt', 'Le', 'Lt', 'Eq') and (is_T(d[2]) or is_T(d[3]))):
            cmp_sw.append((sb, dt))
        if len(cmp_sw) != 1:
            ctx.fail('C09.4', ctx.site(th), 'threshold comparison against unwrap_or(threshold, len(keys)) not found exactly once (%d)' % len(cmp_sw), key='C09.4|cmp')
        else:
            sb, dt = cmp_sw[0]
            ctx.ok('C09.4', ctx.site(th, sb), 'threshold = unwrap_or(threshold, len(keys))')
            X, T = (dt[2], dt[3]) if is_T(dt[3]) else (dt[3], dt[2])
            sx, sT = strip_sites(X), strip_sites(T)
            counter_ok = sx[0] == 'binop' and sx[1] == 'Add' and const_int(sx[3]) == 1 and sx[2][0] == 'phi' and ('int', 0) in sx[2][1]
            trues = [(bi, si) for bi, si, t in ret_defs(tb) if strip_sites(t) == ('agg', 'core::result::Result', 'Ok', (('bool', True),), ('0',))]
            falses = [(bi, si) for bi, si, t in ret_defs(tb) if strip_sites(t) == ('agg', 'core::result::Result', 'Ok', (('bool', False),), ('0',))]
            rows = {}
            for n in (1, 2, 3):
                reach = reach_under(th, tb, {sx: n, sT: 2})
                rows[n] = any(b_ in reach for b_, _ in trues)
            if counter_ok and rows == {1: False, 2: True, 3: True} and trues:
                ctx.ok('C09.4', ctx.site(th, sb), 'Ok(true) reachable iff count+1 >= threshold (ordering table %s); counter starts at 0, +1 per hit' % rows, sample=str(rows))
            else:
                ctx.fail('C09.4', ctx.site(th, sb), 'threshold test: counter form ok=%s, Ok(true) by (count ? threshold=2) = %s (expected F,T,T)' % (counter_ok, rows), key='C09.4|table')
            # increment only on the passing edge of the per-key check
            def per_key(x):
                a = sig_atom(x)
                return a is not None and strip_sites(a[0]) == P1 and strip_sites(a[1])[0] == 'elem'
            ok, info = guard_dominates(th, tb, [sb], lambda x: per_key(detry(x)) and x[0] == 'call', True)
            if ok:
                ctx.ok('C09.4', ctx.site(th, sb), 'count is incremented/tested only on the passing edge of the per-key signature check; ' + info)
            else:
                ctx.fail('C09.4', ctx.site(th, sb), 'count incremented without a passing per-key check: ' + info, key='C09.4|increment')
            # Ok(false) only after exhausting the keys
            def exhausted(x):
                return x[0] == 'discr' and x[1][0] == 'next'
            bad = []
            for bi, si in falses:
                okf, info = guard_dominates(th, tb, [bi], lambda x: x[0] == 'next', None)
                # use discriminant form: next == None (0)
                edges = set()
                for sb2, dt2 in switch_on(tb, th, lambda d: d[0] == 'discr' and d[1][0] == 'next'):
                    for val, bb in th.term(sb2)['targets']:
                        if val == 0:
                            edges.add((sb2, bb))
                if not edges or bi in reach_under(th, tb, {}, removed_edges=edges):
                    bad.append(bi)
            if falses and not bad:
                ctx.ok('C09.4', ctx.site(th, falses[0][0]), 'Ok(false) only after every key has been tried')
            else:
                ctx.fail('C09.4', ctx.site(th), 'Ok(false) can be returned before every key was tried (or never)', key='C09.4|early_false')
    # ---- C09.5 wrappers
    def wrapper(name, guard_pred, passing, value_ok, desc):
        b = F.method1('Envelope', name)
        if b is None:
            ctx.lost('C09.5', 'Envelope::' + name)
            return
        tb = TermBuilder(F, b)
        acc = [(bi, si, t) for bi, si, t in accept_sites(b, tb)]
        if not acc:
            ctx.lost('C09.5', 'accept exit of ' + name)
        for bi, si, t in acc:
            st = strip_sites(detry(t))
            v = st[3][0] if st[0] == 'agg' and st[2] == 'Ok' else st
            if not value_ok(v):
                ctx.fail('C09.5', ctx.site(b, bi, si), '%s returns %s' % (name, fmt(v)), key='C09.5|value|' + name)
                continue
            ok, info = guard_dominates(b, tb, [bi], lambda x: guard_pred(strip_sites(detry(x))), passing)
            if ok:
                ctx.ok('C09.5', ctx.site(b, bi, si), '%s: Ok only when %s; %s' % (name, desc, info))
            else:
                ctx.fail('C09.5', ctx.site(b, bi, si), '%s can return Ok without %s: %s' % (name, desc, info), key='C09.5|guard|' + name)
    def call_of(nm, nargs):
        def pred(x):
            a = m_call(x, name=nm, self_suffix='Envelope')
            return a is not None and all(a[i] == ('param', i + 1) for i in range(nargs))
        return pred
    wrapper('verify_signature_from', lambda x: x[0] == 'call' and sig_atom(x) == (P1, P2), True, lambda v: v == P1, 'has-signature is true')
    wrapper('verify_signatures_from_threshold', call_of('has_signatures_from_threshold', 3), True, lambda v: v == P1, 'the threshold check is true')
    wrapper('verify_signature', lambda x: prim_call(x) is not None and prim_call(x)[0] == P1, True, lambda v: v == P1, 'the signature verifies')
    def meta_val(v):
        u = m_call(v, name='unwrap') or m_call(v, name='expect')
        x = u[0] if u else v
        if x[0] == 'vfield' and x[2] == 'Some':
            x = x[1]
        a = m_call(x, name='has_some_signature_from_key_returning_metadata') or m_call(x, name='has_signature_from_returning_metadata')
        return a is not None and a[0] == P1 and a[1] == P2
    def meta_guard(x):
        if x[0] == 'discr':
            return meta_val(x[1])       # `match matcher(..)? { Some(m) => Ok(m), None => bail }`
        a = m_call(x, name='is_none') or m_call(x, name='is_some')
        return a is not None and meta_val(a[0])
    b = F.method1('Envelope', 'verify_signature_from_returning_metadata')
    if b is not None:
        tb = TermBuilder(F, b)
        gs = find_terms(b, tb, lambda x: meta_guard(strip_sites(detry(x))))
        passing = (1 if gs[0][0] == 'discr' else call_name(gs[0]) == 'is_some') if gs else True
        wrapper('verify_signature_from_returning_metadata', meta_guard, passing, meta_val, 'the matcher returned Some(metadata)')
    hs = F.method1('Envelope', 'has_some_signature_from_key')
    if hs is not None:
        rt = strip_sites(TermBuilder(F, hs).return_term())
        a = m_call(rt, name='map')
        good = False
        if a is not None and a[1][0] == 'closure' and meta_val(a[0]):
            crt = strip_sites(TermBuilder(F, F.closure(a[1][1])).return_term())
            good = m_call(crt, name='is_some') is not None and m_call(crt, name='is_some')[0] == P2
        if not good:
            # the same mapping written out: Ok(m) => Ok(m.is_some()), Err(e) => Err(e)  (match / if-let / `?` forms)
            alts = [strip_sites(detry(t)) for bi_, si_, t in ret_defs(TermBuilder(F, hs)) if m_call(t, name='from_residual') is None]
            oks = [x for x in alts if x[0] == 'agg' and x[2] == 'Ok']
            errs = [x for x in alts if x[0] == 'agg' and x[2] == 'Err']
            def is_some_of_matcher(v):
                i = m_call(v, name='is_some')
                if i is None:
                    return False
                y = strip_sites(detry(i[0]))
                if y[0] == 'vfield' and y[2] == 'Ok':
                    y = strip_sites(y[1])
                return meta_val(y)
            def err_of_matcher(v):
                return v[0] == 'vfield' and v[2] == 'Err' and meta_val(strip_sites(v[1]))
            good = len(oks) == 1 and len(oks) + len(errs) == len(alts) and is_some_of_matcher(strip_sites(oks[0][3][0])) \
                and all(err_of_matcher(strip_sites(e[3][0])) for e in errs)
        if good:
            ctx.ok('C09.5', ctx.site(hs), 'has-signature = matcher(..).map(is_some)')
        else:
            ctx.fail('C09.5', ctx.site(hs), 'has-signature is %s' % fmt(rt), key='C09.5|has')


def check_family(ctx):
    """C09.8 every verify* entry point (and unseal) accepts only behind a positive verdict; C09.9 the multi-signer writers are
    folds of the single-signer writer over the accumulated envelope."""
    F = ctx.F
    fam = [b for b in F.bodies if b.path.endswith(tuple('::' + n for n in ())) or (
        ('signature_impl::<impl' in b.path or 'seal::<impl' in b.path) and '{closure' not in b.path and
        (b.name.startswith('verify') or b.name == 'unseal') and b.path.endswith('Envelope>::' + b.name))]
    fam_hash = {b.hash for b in fam}
    ctx.need('C09.8', len(fam) >= 8, 'verify* entry points of the signature family')
    def fam_call(x, recv=None):
        x = strip_sites(x)
        c = callee_of(x) if x[0] == 'call' else None
        if c is None or c.best_hash not in fam_hash:
            return False
        return recv is None or strip_sites(detry(x[2][0])) == recv
    def pos_atom(x):
        x = strip_sites(detry(x))
        if x[0] != 'call':
            return False
        nm = call_name(x)
        if nm in ('has_some_signature_from_key', 'has_signature_from', 'has_signatures_from', 'has_signatures_from_threshold', 'is_signature_from_key',
                  'is_verified_signature') and x[2] and strip_sites(x[2][0]) == P1:
            return True
        i = m_call(x, name='is_some')
        if i is not None:
            y = strip_sites(detry(i[0]))
            return y[0] == 'call' and call_name(y) in ('has_some_signature_from_key_returning_metadata', 'has_signature_from_returning_metadata') and strip_sites(y[2][0]) == P1
        return False
    def neg_atom(x):
        x = strip_sites(detry(x))
        i = m_call(x, name='is_none')
        if i is not None:
            y = strip_sites(detry(i[0]))
            return y[0] == 'call' and call_name(y) in ('has_some_signature_from_key_returning_metadata', 'has_signature_from_returning_metadata') and strip_sites(y[2][0]) == P1
        return False
    def meta_discr(x):
        x = strip_sites(x)
        if x[0] != 'discr':
            return False
        y = strip_sites(detry(x[1]))
        return y[0] == 'call' and call_name(y) in ('has_some_signature_from_key_returning_metadata', 'has_signature_from_returning_metadata') and strip_sites(y[2][0]) == P1
    def fam_branch(x):
        x = strip_sites(x)
        if x[0] != 'discr':
            return False
        a = m_call(x[1], name='branch', trait='Try')
        return a is not None and fam_call(a[0], recv=P1)
    for b in fam:
        tb = TermBuilder(F, b)
        acc = accept_sites(b, tb)
        if not acc:
            ctx.lost('C09.8', 'accept exit of ' + b.name)
            continue
        for bi, si, t in acc:
            site = ctx.site(b, bi, si)
            st = strip_sites(detry(t))
            if fam_call(st):
                ctx.ok('C09.8', site, '%s: the verdict is that of %s (tail delegation)' % (b.name, callee_of(st).name), nontrivial=False)
                continue
            done = False
            for pred, passing, what in ((pos_atom, True, 'a positive signature test on self'), (neg_atom, False, 'a positive signature test on self'),
                                        (meta_discr, 1, 'the matcher returning Some(metadata)'), (fam_branch, 0, 'the success edge of a verify* call on self')):
                ok, info = guard_dominates(b, tb, [bi], pred, passing)
                if ok:
                    ctx.ok('C09.8', site, '%s: success exit only behind %s; %s' % (b.name, what, info))
                    done = True
                    break
            if done and b.name.endswith('_returning_metadata'):
                # the metadata handed back is the one the matcher found for the caller's key: the accepted value contains the result of a
                # *_returning_metadata call over (self, the caller's verifier) and no other lookup of signature objects
                META = ('has_some_signature_from_key_returning_metadata', 'has_signature_from_returning_metadata', 'verify_signature_from_returning_metadata')
                def from_matcher(y):
                    y = strip_sites(y)
                    return (y[0] == 'call' and call_name(y) in META and len(y[2]) >= 2 and strip_sites(y[2][0]) == P1
                            and strip_sites(detry(y[2][1])) == ('param', 2))
                def other_lookup(y):
                    y = strip_sites(y)
                    return y[0] == 'call' and call_name(y) not in META and (
                        call_name(y) in ('objects_for_predicate', 'object_for_predicate', 'assertions_with_predicate', 'assertions', 'signature_metadata')
                        or (callee_of(y) is not None and callee_of(y).krate == 'bc_envelope' and 'signature_impl' in callee_of(y).path
                            and not fam_call(y) and call_name(y) not in ('unwrap_envelope',)))
                if not contains(st, from_matcher) or contains(st, other_lookup):
                    ctx.fail('C09.8', site, '%s hands back metadata that is not the matcher\'s result for the caller\'s key: returns %s' % (b.name, fmt(st)[:220]),
                             key='C09.8|metadata|' + b.name)
                else:
                    ctx.ok('C09.8', site, '%s: the metadata handed back is the matcher\'s result for (self, the caller\'s verifier)' % b.name, nontrivial=False)
            if not done:
                ctx.fail('C09.8', site, '%s can return success without a positive signature verdict on self (no has-signature / threshold / primitive test and no '
                         'successful verify* call dominates this exit): returns %s' % (b.name, fmt(st)), key='C09.8|' + b.name)
    # ---- C09.9 multi-signer writers
    for name, single in (('add_signatures', 'add_signature'), ('add_signatures_opt', 'add_signature_opt')):
        b = F.method1('Envelope', name)
        if b is None:
            ctx.lost('C09.9', 'Envelope::' + name)
            continue
        tb = TermBuilder(F, b)
        ff = fold_form(F, b, tb)
        if ff is None:
            ctx.fail('C09.9', ctx.site(b), '%s is not a fold of %s over the signer list: %s' % (name, single, fmt(strip_sites(tb.return_term()))), key='C09.9|form|' + name,
                     rule='FLOW/IDIOM-UNKNOWN')
            continue
        init, step, accm = ff
        a = m_call(step, name=single, self_suffix='Envelope')
        init_ok = init == P1 or (m_call(init, name='clone') is not None and strip_sites(m_call(init, name='clone')[0]) == P1)
        if a is not None and strip_sites(a[0]) == accm and init_ok and not any(contains(x, lambda y: y == accm) for x in a[1:]):
            ctx.ok('C09.9', ctx.site(b), '%s = fold(signers, self, |acc, k| %s(acc, k..)): every signature is added to the envelope carrying the earlier ones' % (name, single),
                   sample=fmt(step))
        else:
            ctx.fail('C09.9', ctx.site(b), '%s does not add each signature to the accumulated envelope (start %s, step %s): earlier signatures are lost or the start is not self'
                     % (name, fmt(init), fmt(step)), key='C09.9|' + name)


def const_name(t):
    t = strip_sites(t)
    if t[0] == 'env':
        t = t[1]
    if t[0] == 'const':
        return t[1].split('::')[-1]
    return None


_check_before_errflow = check


def check(ctx):
    _check_before_errflow(ctx)
    check_family(ctx)
    # C09.10: "keeps verifying after any elision, encryption or compression of the envelope's parts": the obscured form of a part declares
    # the part's own digest (sink pairing and action arms, C02.1 / C02.2), so the subject digest the signature covers is unchanged
    from .. import obscure
    try:
        obscure.check_sinks(ctx, 'C09.10')
        obscure.check_obscure_region(ctx, 'C09.10/action')
    except Exception as e:
        ctx.fail('C09.10', '-', 'digest-preserving obscuration (C02.1/C02.2) could not be evaluated: %r' % e, key='C09.10|c02')
    # C09.7 error discipline: no error of a fallible call is turned into "absent / false / default" outside the reviewed table
    from .. import errflow
    errflow.check(ctx, 'C09.7', ['src/extension/signature/signature_impl.rs', 'src/extension/signature/signature_metadata.rs'], 'signature family')
