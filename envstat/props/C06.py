"""C06 — the decoder accepts only canonical well-formed envelopes and never panics."""
from ..lib import *
from ..terms import TermBuilder
from .. import codec

NEED_DEPS = True
USES_QUERIES = True
EXPLANATION = (
    "GUARD/CODEC/WHO rules on `<Envelope as CBORTaggedDecodable>::from_untagged_cbor` and what it reaches. Every accept exit is "
    "classified by the CBOR-case arm (and tag value) it lies in. C06.1: under the valuation len(elements) in {0,1} the node "
    "accept exit is unreachable and for 2 it is reachable (finite valuation of the MIR branch conditions). C06.2: same for the "
    "assertion map with len in {0,2,3} vs 1. C06.3: the accepted (kind, tag) set equals the writer's image plus the alias "
    "Tagged(24); wildcard arms contain no accept exit. C06.4/5: every element decode, and Digest::from_data_ref for an elided "
    "digest, goes through `?`. C06.6: the node accept exit is dominated by the passing edge of a STRICT adjacent-digest order "
    "check over the very vector handed to the node constructor (idiom table: windows(2).all(lt/gt), is_sorted_by(lt); "
    "non-strict forms are violations, unknown forms fail closed). C06.7: Encrypted/Compressed constructors' Ok exit is dominated "
    "by has_digest. C06.8: every bytes->CBOR conversion in the crate uses the validating dcbor parser. C06.9: no undischarged "
    "panic site in the decode-reachable set (shared ledger with C16). C06.12: the public decode entry points funnel into from_tagged_cbor exactly once (no entry point strips, tolerates or peels tags itself). Does not decide dcbor's rejection of non-deterministic "
    "CBOR or Digest::from_data_ref's length check (dependency summaries), nor stack exhaustion on unbounded nesting."
    " C06.3 also: under both leaf tags the leaf is the tagged item itself.")
TRUSTED = ['Digest::from_data_ref rejects data whose length is not 32', 'CBOR::try_from_data accepts only deterministic CBOR',
           'EncryptedMessage::has_digest / Compressed::has_digest report whether a digest is declared']
FLOORS = {'C06.1': 1, 'C06.2': 1, 'C06.3': 10, 'C06.6': 1, 'C06.7': 2, 'C06.11': 8, 'C06.12': 3}


def strict_order_closure(F, clo):
    """Classify a closure over a 2-window / pair: 'strict', 'nonstrict' or None (unknown)."""
    cb = F.closure(clo[1])
    if cb is None:
        return None, 'closure body not found'
    tb = TermBuilder(F, cb)
    rt = tb.return_term()
    def elem_digest(t):
        x = m_digest(t)
        if x is None:
            return None
        x = strip_sites(x)
        if x[0] == 'call' and call_name(x) == 'index':
            base, ix = x[2]
            if base == ('param', 2) and const_int(ix) is not None:
                return ('w', const_int(ix))
        if x[0] == 'index' and x[1] == ('param', 2) and const_int(x[2]) is not None:
            return ('w', const_int(x[2]))
        if x == ('param', 2):
            return ('w', 0)
        if x == ('param', 3):
            return ('w', 1)
        return None
    for nm, strict in (('lt', True), ('gt', True), ('le', False), ('ge', False)):
        a = m_call(rt, name=nm, trait='PartialOrd')
        if a is not None:
            x, y = elem_digest(a[0]), elem_digest(a[1])
            if x is None or y is None or x == y:
                return None, 'comparison operands are not the digests of the two adjacent elements: %s' % fmt(rt)
            asc = (x[1] < y[1]) if nm in ('lt', 'le') else (x[1] > y[1])
            if not asc:
                return 'descending', fmt(rt)
            return ('strict' if strict else 'nonstrict'), fmt(rt)
    # cmp(..) == Less / is_lt()
    a = m_call(rt, name='is_lt')
    if a is not None:
        c = m_call(a[0], name='cmp', trait='Ord')
        if c is not None:
            x, y = elem_digest(c[0]), elem_digest(c[1])
            if x and y and x[1] < y[1]:
                return 'strict', fmt(rt)
    return None, 'unrecognised comparison: %s' % fmt(rt)


def streaming_order(ctx, F, b, tb, accept_block, vec, svec):
    """The order test made while the vector is being built: each decoded element x is pushed only if the accumulator is still empty
    or digest(last(accumulator)) < digest(x).  Returns (ok, text, key) when this form is present, None otherwise."""
    parts = seq_norm(vec, b, accept_block)
    if parts is None or len(parts) != 1 or parts[0][0] != 'each':
        return None
    X = parts[0][1]
    def same_acc(t):
        t = strip_sites(detry(t))
        while t[0] == 'call' and call_name(t) in ('deref', 'as_slice', 'as_ref', 'borrow') and len(t[2]) == 1:
            t = strip_sites(detry(t[2][0]))
        return t == svec
    dlast = [strip_sites(dt) for sb, dt in switch_on(tb, b, lambda d: d[0] == 'discr' and strip_sites(d[1])[0] == 'call' and call_name(strip_sites(d[1])) == 'last'
                                                     and same_acc(strip_sites(d[1])[2][0]))]
    dlast = list(dict.fromkeys(dlast))
    if len(dlast) != 1:
        return None
    L = strip_sites(detry(dlast[0][1]))
    def side(t):
        d = m_digest(t)
        if d is None:
            return None
        d = strip_sites(detry_q(d))
        if d[0] == 'vfield' and d[2] == 'Some' and strip_sites(detry(d[1])) == L:
            return 0
        u = m_call(d, name='unwrap') or m_call(d, name='expect')
        if u is not None and strip_sites(detry(u[0])) == L:
            return 0
        if strip_sites(_norm(detry(d))) == X:
            return 1
        return None
    def _norm(t):
        from ..lib import _norm_elem
        return _norm_elem(t)
    def is_cmp(t):
        if t[0] != 'call' or len(t[2]) != 2 or call_name(t) not in ('lt', 'gt', 'le', 'ge'):
            return False
        x, y = side(t[2][0]), side(t[2][1])
        return x is not None and y is not None and x != y
    atoms = find_terms(b, tb, is_cmp)
    if len(atoms) != 1:
        return (False, 'the decoder compares while building the vector, but no single comparison of digest(last(accumulator)) with the digest of the element about to be '
                'pushed was found (%d candidates): misordered or repeated assertions may be accepted' % len(atoms), 'stream_atom')
    a = atoms[0]
    nm, order = call_name(a), (side(a[2][0]), side(a[2][1]))
    strict_when = {('lt', (0, 1)): True, ('gt', (1, 0)): True, ('ge', (0, 1)): False, ('le', (1, 0)): False}.get((nm, order))
    pushes = [pb for pb, c, t in b.calls() if c is not None and c.name == 'push' and len(tb.call_args(pb)) == 2
              and strip_sites(_norm(detry(tb.call_args(pb)[1]))) == X]
    if not pushes:
        return None
    rows = {}
    for v in (True, False):
        R = reach_under(b, tb, {dlast[0]: 1, a: v})
        rows[v] = any(pb in R for pb in pushes)
    if strict_when is None:
        return (False, 'streaming order test %s is not a strict ascending comparison of previous and new digest' % fmt(a), 'stream_nonstrict')
    if rows == {strict_when: True, (not strict_when): False}:
        return (True, 'each decoded element is pushed only while the accumulator is empty or %s == %s (push reachability %s with a previous element present); the vector is exactly '
                'the pushed elements' % (fmt(a), strict_when, rows), None)
    return (False, 'streaming order test does not guard the push: with a previous element present the push is reachable for %s = %s' % (fmt(a), [k for k, v in rows.items() if v]), 'stream_table')


def prev_scan_order(ctx, F, b, tb, accept_block, svec):
    """The order test as a scan that carries the previous element: `prev = first; for cur in rest { if digest(prev) < digest(cur) { prev = cur } else { fail } }`
    over the decoded vector, judged on the definitions of the two compared locals (lib.prev_scan). None when no such scan exists."""
    for cb, c, t in b.calls():
        if c is None or c.name not in ('lt', 'gt', 'le', 'ge') or len(t['args']) != 2:
            continue
        ps = prev_scan(b, tb, cb)
        if ps is None:
            continue
        args = tb.call_args(cb)
        def over_vec(x):
            d = m_digest(x)
            d = strip_sites(detry(d)) if d is not None else None
            if d is None or d[0] != 'elem':
                return False
            src = strip_sites(detry(d[1]))
            while src[0] == 'call' and call_name(src) in ('iter', 'deref', 'as_slice', 'into_iter', 'as_ref') and len(src[2]) == 1:
                src = strip_sites(detry(src[2][0]))
            return src == svec
        if not (over_vec(args[0]) and over_vec(args[1])):
            continue
        nm = c.name
        order = (0, 1) if ps['prev_arg'] == 0 else (1, 0)
        strict_when = {('lt', (0, 1)): True, ('gt', (1, 0)): True, ('ge', (0, 1)): False, ('le', (1, 0)): False}.get((nm, order))
        if strict_when is None:
            return (False, 'the carried-previous order scan compares with %s(%s): not a strict ascending test of previous and current digest' % (
                nm, 'previous, current' if order == (0, 1) else 'current, previous'), 'prev_nonstrict')
        sw = t['t']
        st = b.term(sw)
        if not st or st['k'] != 'switch':
            continue
        n = len(b.blocks[sw]['stmts'])
        atom = strip_sites(tb.operand_term(st['discr'], sw, n))
        h = ps['header']
        bad = reach_under(b, tb, {atom: (not strict_when)}, start=sw)
        if h in bad or accept_block in bad:
            return (False, 'carried-previous order scan: when the adjacent pair is NOT strictly ascending the scan %s' % (
                'continues with the next element' if h in bad else 'still reaches the node accept exit'), 'prev_table')
        good = reach_under(b, tb, {atom: strict_when}, start=sw, stop_blocks=[h])
        if accept_block in good:
            return (False, 'carried-previous order scan: the accept exit is reachable from a passing comparison without examining the remaining elements', 'prev_early')
        if h not in good:
            return (False, 'carried-previous order scan: a passing comparison does not continue the scan', 'prev_cont')
        return (True, 'order scan carrying the previous element over the decoded vector: previous is the first element, then `previous = current` in bb%d, which dominates every back edge '
                'of the loop at bb%d; a pair that fails %s(%s) ends the scan without accepting' % (ps['update'], h, nm, 'previous, current' if order == (0, 1) else 'current, previous'), None)
    return None


def check_decoder_order(ctx, inst, dec=None):
    """The node accept exit of the decoder is dominated by the passing edge of a STRICT adjacent-digest order check over the
    very vector handed to the node constructor (so a decoded node never holds two equal assertion digests)."""
    F = ctx.F
    if dec is None:
        dec = codec.decoder_table(ctx)
        if dec is None:
            ctx.lost(inst, 'decoder tables')
            return
    b, tb = dec['body'], dec['tb']
    node_accepts = [(bi, si, t) for bi, si, t, kind, tags, vs in dec['accepts'] if kind == 'Array']
    if not node_accepts:
        ctx.lost(inst, 'node accept exit')
    for bi, si, t in node_accepts:
        t2 = unwrap_try(t[3][0]) if t[0] == 'agg' and t[2] == 'Ok' else unwrap_try(t)
        vec = unwrap_try(t2[2][1]) if callee_of(t2) is not None and len(t2[2]) == 2 else None
        if vec is None:
            ctx.fail(inst, ctx.site(b, bi, si), 'cannot identify the assertion vector handed to the node constructor', key=inst + '|novec')
            continue
        svec = strip_sites(detry(vec))
        def windows_of_vec(c):
            w = m_call(c, name='windows')
            return w is not None and const_int(w[1]) == 2 and strip_sites(detry(w[0])) == svec
        done = False
        problems = []
        # (a) universally quantified adjacent-pair test: windows(2).all(..) / !windows(2).any(..) / for pair in windows(2) { if .. bail }
        for g in forall_guards(F, b, tb, [bi], windows_of_vec):
            def widx(t, g=g):
                d = m_digest(t)
                ix = m_index(d) if d is not None else None
                if ix is not None and ix[0] == g.elem and const_int(ix[1]) in (0, 1):
                    return const_int(ix[1])
                return None
            def is_cmp(t, g=g):
                if t[0] != 'call' or len(t[2]) != 2 or call_name(t) not in ('lt', 'gt', 'le', 'ge'):
                    return False
                x, y = widx(t[2][0]), widx(t[2][1])
                return x is not None and y is not None and x != y
            atoms = g.atoms(is_cmp)
            if len(atoms) != 1:
                problems.append('no single comparison of the two adjacent digests in the element test (%s)' % g.describe())
                continue
            a = atoms[0]
            nm, order = call_name(a), (widx(a[2][0]), widx(a[2][1]))
            strict_when = {('lt', (0, 1)): True, ('gt', (1, 0)): True, ('ge', (0, 1)): False, ('le', (1, 0)): False}.get((nm, order))
            if strict_when is None:
                cls = 'nonstrict' if (nm, order) in (('le', (0, 1)), ('ge', (1, 0)), ('gt', (0, 1)), ('lt', (1, 0))) and (nm in ('le', 'ge')) else 'descending'
                bad = forall_table(g, atoms, lambda v: False)
                if bad:
                    ctx.fail(inst, ctx.site(b, bi, si), 'order check is %s (%s): repeated or misordered assertion digests are accepted' % (cls, fmt(a)), key=inst + '|' + cls)
                    done = True
                    break
                continue
            bad = forall_table(g, atoms, lambda v: v[0] == strict_when)
            if bad:
                problems.append('a pair passes although %s is %s: %s' % (fmt(a), not strict_when, bad[:2]))
                ctx.fail(inst, ctx.site(b, bi, si), 'order check is nonstrict/ineffective: a pair passes when %s is %s (%s)' % (fmt(a), not strict_when, g.describe()), key=inst + '|nonstrict')
                done = True
                break
            ctx.ok(inst, ctx.site(b, bi, si), 'node accept only after every adjacent pair passed the strict test %s == %s; %s; %s' % (fmt(a), strict_when, g.describe(), g.info), sample=fmt(a))
            done = True
            break
        if done:
            continue
        # (b) is_sorted* forms
        verdict = None
        for sb, dt in switch_on(tb, b, lambda d: True):
            for g in walk(dt):
                if not (isinstance(g, tuple) and g and g[0] == 'call'):
                    continue
                nm = call_name(g)
                if nm in ('is_sorted_by',):
                    a = g[2]
                    if same(unwrap_try(a[0]), vec) and a[1][0] == 'closure':
                        cls, why = strict_order_closure(F, a[1])
                        verdict = (g, cls, why, True)
                elif nm in ('is_sorted', 'is_sorted_by_key'):
                    a = g[2]
                    if same(unwrap_try(a[0]), vec):
                        verdict = (g, 'nonstrict', '%s accepts equal neighbours' % nm, True)
        if verdict is None:
            sres = streaming_order(ctx, F, b, tb, bi, vec, svec)
            if sres is not None:
                ok_, text, key_ = sres
                if ok_:
                    ctx.ok(inst, ctx.site(b, bi, si), text)
                else:
                    ctx.fail(inst, ctx.site(b, bi, si), text, key=inst + '|' + key_)
                continue
        if verdict is None:
            sres = prev_scan_order(ctx, F, b, tb, bi, svec)
            if sres is not None:
                ok_, text, key_ = sres
                if ok_:
                    ctx.ok(inst, ctx.site(b, bi, si), text)
                else:
                    ctx.fail(inst, ctx.site(b, bi, si), text, key=inst + '|' + key_)
                continue
        if verdict is None:
            ctx.fail(inst, ctx.site(b, bi, si), 'no adjacent-digest order check over the decoded assertion vector guards the node accept exit '
                     '(the decoder would accept misordered or repeated assertions)%s' % ('; ' + '; '.join(problems) if problems else ''), key=inst + '|missing', rule='GUARD/IDIOM-UNKNOWN')
            continue
        g, cls, why, passing = verdict
        if cls != 'strict':
            ctx.fail(inst, ctx.site(b, bi, si), 'order check is %s (%s): repeated or misordered assertion digests are accepted' % (cls or 'unrecognised', why),
                     key=inst + '|' + (cls or 'unknown'))
            continue
        sg = strip_sites(g)
        ok, info = guard_dominates(b, tb, [bi], lambda x: strip_sites(x) == sg, True)
        if ok:
            ctx.ok(inst, ctx.site(b, bi, si), 'node accept dominated by passing edge of strict order check %s; %s' % (why, info), sample=why)
        else:
            ctx.fail(inst, ctx.site(b, bi, si), 'strict order check exists but does not guard the accept exit: ' + info, key=inst + '|notguard')


def check(ctx):
    F = ctx.F
    fl = [F, ctx.dep('bc_components'), ctx.dep('dcbor')]
    dec = codec.decoder_table(ctx)
    if dec is None:
        ctx.lost('C06.3', 'decoder tables')
        return
    b, tb = dec['body'], dec['tb']
    for p in dec['problems']:
        ctx.fail('C06.3', ctx.site(b), p, key='C06.3|' + p)
    # ---- C06.3 accepted set == writer image + alias; no accept in wildcard arms
    enc, enc_terms, problems = codec.encoder_table(ctx, fl)
    image = set()
    for case, shapes in (enc or {}).items():
        image |= shapes
    for sh, cases in dec['table'].items():
        if sh in image or sh == ('Tagged', 24):
            ctx.ok('C06.3', ctx.site(b), 'accepted shape %s is one the writer emits%s' % (sh, ' (listed alias)' if sh == ('Tagged', 24) else ''))
        else:
            ctx.fail('C06.3', ctx.site(b), 'decoder accepts %s, which the encoder never emits' % (sh,), key='C06.3|extra|%s' % (sh,))
    for bi, si, t, why in dec['wild_accepts']:
        ctx.fail('C06.3', ctx.site(b, bi, si), 'accept exit in the %s: unknown input is not rejected (%s)' % (why, fmt(t)), key='C06.3|wild|' + why)
    if not dec['wild_accepts']:
        ctx.ok('C06.3', ctx.site(b), 'no accept exit in either wildcard arm')

    # the leaf tags (#6.201 and its listed alias #6.24) carry the leaf's CBOR inline: the leaf IS the tagged item, whatever it is - no
    # second parse, no unpacking of a byte string (so the alias re-encodes to exactly the same leaf, and nothing under it is refused)
    leafs = [(bi, si, t, tags) for bi, si, t, kind, tags, vs in dec['accepts'] if 'Leaf' in vs]
    if not leafs:
        ctx.lost('C06.3', 'leaf accept exit')
    for bi, si, t, tags in leafs:
        v = strip_sites(detry(t))
        v = strip_sites(detry(v[3][0])) if v[0] == 'agg' and v[2] == 'Ok' and v[3] else v
        a = m_call(v, name='new_leaf')
        x = strip_sites(detry(a[0])) if a is not None else None
        while x is not None and x[0] == 'call' and call_name(x) in ('clone', 'deref', 'borrow', 'into') and len(x[2]) == 1:
            x = strip_sites(detry(x[2][0]))
        if x is not None and x[0] == 'vfield' and x[2:] == ('Tagged', '1') and m_call(x[1], name='as_case') is not None:
            ctx.ok('C06.3', ctx.site(b, bi, si), 'leaf tags %s: the leaf is the tagged item itself' % sorted(tags or []))
        else:
            ctx.fail('C06.3', ctx.site(b, bi, si), 'under leaf tag(s) %s the decoder builds %s, not new_leaf(the tagged item): the alias is not read like the leaf tag' % (sorted(tags or []), fmt(v)[:160]),
                     key='C06.3|leafvalue')
    node_accepts = [(bi, si, t) for bi, si, t, kind, tags, vs in dec['accepts'] if kind == 'Array']
    if not node_accepts:
        ctx.lost('C06.1', 'node accept exit')
    # ---- C06.1 arity
    lens = find_terms(b, tb, lambda x: x[0] in ('call', 'len') and (call_name(x) == 'len' or x[0] == 'len')
                      and contains(x, lambda y: y[0] == 'vfield' and y[2] == 'Array'))
    def len_base(x):
        return strip_sites(x[1] if x[0] == 'len' else x[2][0])
    arrays = find_terms(b, tb, lambda y: y[0] == 'vfield' and y[2] == 'Array' and y[3] == '0' and m_call(y[1], name='as_case') is not None)
    for bi, si, t in node_accepts:
        # the element count of the decoded array is the atom; `.len()`, the slice length operator, `is_empty()` of the tail,
        # `split_first()` / `first()` presence and slice patterns are all derived from it
        lens = [x for x in lens if len_base(x) == arrays[0]] if len(arrays) == 1 else lens      # lengths of tails etc. follow from the atom
        if len(arrays) != 1:
            ctx.fail('C06.1', ctx.site(b, bi, si), 'no (single) element-count test found before the node accept exit', key='C06.1|nolen')
            continue
        verdicts = {}
        for n in (0, 1, 2, 3):
            env = {x: n for x in lens}
            env[('len', arrays[0])] = n
            verdicts[n] = bi in reach_under(b, tb, env)
        if verdicts == {0: False, 1: False, 2: True, 3: True}:
            ctx.ok('C06.1', ctx.site(b, bi, si), 'node accept reachable iff element count >= 2 (valuation table %s)' % verdicts, sample=verdicts)
        else:
            ctx.fail('C06.1', ctx.site(b, bi, si), 'node accept reachability by element count is %s, expected {0:F,1:F,2:T,3:T}' % verdicts, key='C06.1|table')
    # ---- C06.4 every element decode through `?` and C05.3 form -> checked in C05.3; here: accept value args are Try-unwrapped
    for bi, si, t in node_accepts:
        t2 = t[3][0] if t[0] == 'agg' and t[2] == 'Ok' else t
        raw_calls = [x for x in walk(t2) if isinstance(x, tuple) and x and x[0] == 'call' and call_name(x) in ('from_untagged_cbor', 'collect')]
        def under_try(root, target):
            # every occurrence of target must sit directly under Try::branch(..).Continue.0
            for x in walk(root):
                if isinstance(x, tuple) and x and x[0] == 'call':
                    for a in x[2]:
                        if a is target and m_call(x, name='branch', trait='Try') is None:
                            return False
            return True
        bad = [x for x in raw_calls if not under_try(t2, x)]
        if bad:
            ctx.fail('C06.4', ctx.site(b, bi, si), 'element decode result used without `?`: %s' % fmt(bad[0]), key='C06.4')
        else:
            ctx.ok('C06.4', ctx.site(b, bi, si), '%d element-decode results all pass through `?` before the node is built' % len(raw_calls), nontrivial=bool(raw_calls))
    # ---- C06.5 elided digest via from_data_ref + `?`
    for bi, si, t, kind, tags, vs in dec['accepts']:
        if kind != 'ByteString':
            continue
        t2 = t[3][0] if t[0] == 'agg' and t[2] == 'Ok' else t
        c = callee_of(t2)
        arg = t2[2][0] if c is not None and t2[2] else None
        inner = unwrap_try(arg) if arg is not None else None
        fd = m_call(inner, name='from_data_ref', self_suffix='Digest') if inner is not None else None
        if fd is not None and inner is not arg:
            ctx.ok('C06.5', ctx.site(b, bi, si), 'elided digest = Digest::from_data_ref(bytes)? (length checked by the dependency)', sample=fmt(t2))
        else:
            ctx.fail('C06.5', ctx.site(b, bi, si), 'elided digest is not built by the length-checking Digest::from_data_ref(..)?: %s' % fmt(t2), key='C06.5')
    # ---- C06.6 strict order / uniqueness
    check_decoder_order(ctx, 'C06.6', dec)
    # ---- C06.2 assertion map arity: an assertion is accepted only from a map with exactly one entry. The entry count is one atom
    # (`.len()`, the presence of the first / second `next()` of one iterator over the map, `is_empty()`): the accept exit is reachable
    # for count 1 only. The CBOR conversion either delegates to the Map conversion or has the same table over the map it extracted.
    def arity_table(rb, rtb, bi, M):
        def same(x):
            x = strip_sites(detry(x))
            while x[0] == 'call' and call_name(x) in ('iter', 'into_iter', 'deref', 'borrow', 'as_ref', 'clone') and len(x[2]) == 1:
                x = strip_sites(detry(x[2][0]))
            return x == M
        lens = find_terms(rb, rtb, lambda x: (x[0] == 'call' and call_name(x) == 'len' and same(x[2][0])) or (x[0] == 'len' and same(x[1])))
        empt = find_terms(rb, rtb, lambda x: x[0] == 'call' and call_name(x) == 'is_empty' and same(x[2][0]))
        verdicts = {}
        for n in (0, 1, 2, 3):
            env = {l: n for l in lens}
            env.update({e: (n == 0) for e in empt})
            env[('len', M)] = n
            verdicts[n] = bi in reach_under(rb, rtb, env)
        return verdicts
    r = F.trait_impl('TryFrom', 'Assertion', 'try_from', trait_full_contains='Map')
    if len(r) != 1:
        ctx.lost('C06.2', 'TryFrom<Map> for Assertion')
    else:
        rb = r[0]
        rtb = TermBuilder(F, rb)
        acc = [x for x in accept_sites(rb, rtb)]
        for bi, si, t in acc:
            verdicts = arity_table(rb, rtb, bi, ('param', 1))
            if verdicts == {0: False, 1: True, 2: False, 3: False}:
                ctx.ok('C06.2', ctx.site(rb, bi, si), 'assertion accept reachable iff the map has exactly one entry (valuation table %s)' % verdicts, sample=verdicts)
            elif all(verdicts.values()):
                ctx.fail('C06.2', ctx.site(rb, bi, si), 'assertion accept exit is not guarded by a test of the map length', key='C06.2|nolen')
            else:
                ctx.fail('C06.2', ctx.site(rb, bi, si), 'assertion accept reachability by map length is %s, expected only 1' % verdicts, key='C06.2|table')
        if not acc:
            ctx.lost('C06.2', 'accept exit of TryFrom<Map> for Assertion')
    # the CBOR->Assertion conversion goes through that TryFrom<Map>, or applies the same single-entry test to the map it extracted
    r2 = F.trait_impl('TryFrom', 'Assertion', 'try_from', trait_full_contains='CBOR')
    for rb in r2:
        rtb = TermBuilder(F, rb)
        for bi, si, t in accept_sites(rb, rtb):
            c = callee_of(t)
            if c is not None and c.name in ('try_into', 'try_from'):
                ctx.ok('C06.2', ctx.site(rb, bi, si), 'CBOR->Assertion delegates to the Map conversion')
                continue
            maps = find_terms(rb, rtb, lambda y: y[0] == 'vfield' and y[2] == 'Map' and y[3] == '0' and m_call(y[1], name='as_case') is not None)
            good = False
            if len(maps) == 1:
                good = arity_table(rb, rtb, bi, maps[0]) == {0: False, 1: True, 2: False, 3: False}
            if good:
                ctx.ok('C06.2', ctx.site(rb, bi, si), 'CBOR->Assertion accepts only a map with exactly one entry (its own single-entry test over the extracted map)')
            else:
                ctx.fail('C06.2', ctx.site(rb, bi, si), 'CBOR->Assertion accept exit bypasses the single-entry check: %s' % fmt(t)[:200], key='C06.2|bypass')
    # ---- C06.7 has_digest guards
    check_has_digest(ctx, 'C06.7')
    # ---- C06.12 public decode entry points
    check_entry_points(ctx, 'C06.12')
    # ---- C06.8 bytes -> CBOR only through the validating parser
    n = 0
    for bb in F.bodies:
        for bi, c, t in bb.calls():
            if c is None or c.krate != 'dcbor' and (c.rkrate != 'dcbor'):
                continue
            if not bb.local_ty(t['dest']['l']).replace(' ', '').count('dcbor::cbor::CBOR'):
                continue
            argtys = []
            for a in t['args']:
                if a['k'] in ('copy', 'move') and not a['place']['p']:
                    argtys.append(bb.local_ty(a['place']['l']))
                else:
                    argtys.append(a.get('ty', ''))
            byteslike = any(('[u8]' in x or 'Vec<u8>' in x or 'bytes::Bytes' in x) for x in argtys + c.args)
            if not byteslike:
                continue
            if 'Result' not in bb.local_ty(t['dest']['l']):
                continue   # infallible bytes->CBOR = encoding a byte string value, not parsing
            n += 1
            if c.name in ('try_from_data', 'try_from_hex'):
                ctx.ok('C06.8', ctx.site(bb, bi), 'bytes parsed with the validating dcbor parser CBOR::%s' % c.name)
            else:
                ctx.fail('C06.8', ctx.site(bb, bi), 'bytes converted to CBOR by %s, not by the validating parser' % c.best, key='C06.8|%s|%s' % (bb.path, c.name))
    ctx.count('bytes_to_cbor_sites', n)


def check_entry_points(ctx, inst):
    """Every public CBOR -> Envelope entry point funnels into the tag-checking decoder: TryFrom<CBOR> is from_tagged_cbor(value) (the dcbor
    default, which refuses any tag but the envelope tag before calling from_untagged_cbor); try_from_cbor is that conversion;
    try_from_cbor_data parses the bytes with the validating parser and hands the value to one of them. An entry point that strips a
    tag itself, tolerates a missing or foreign tag, or peels repeatedly accepts input the writer never emits (and can return an
    envelope other than the one encoded)."""
    F = ctx.F
    P1 = ('param', 1)
    tf = F.trait_impl('TryFrom', 'Envelope', 'try_from', trait_full_contains='CBOR')
    tfh = {b.hash for b in tf}
    def ftc(v):
        a = m_call(v, name='from_tagged_cbor')
        return a is not None and strip_sites(detry(a[0]))
    def conv(v):
        """value is CBOR->Envelope conversion applied to x: returns x"""
        v = strip_sites(detry(v))
        x = ftc(v)
        if x:
            return x
        if v[0] == 'call' and call_name(v) in ('try_into', 'try_from') and len(v[2]) == 1:
            c = callee_of(v)
            if call_name(v) == 'try_into' or (c is not None and c.best_hash in tfh):
                return strip_sites(detry(v[2][0]))
        a = m_call(v, name='try_from_cbor', self_suffix='Envelope')
        if a is not None:
            return strip_sites(detry(a[0]))
        return None
    def judge(b, what, ok_pred, want):
        tb = TermBuilder(F, b)
        acc = accept_sites(b, tb)
        if not acc:
            ctx.lost(inst, 'accept exit of ' + what)
        for bi, si, t in acc:
            v = strip_sites(detry(t))
            if v[0] == 'agg' and v[2] == 'Ok' and v[3]:
                v = strip_sites(detry(v[3][0]))
            if ok_pred(v):
                ctx.ok(inst, ctx.site(b, bi, si), '%s = %s' % (what, want), sample=fmt(v))
            else:
                ctx.fail(inst, ctx.site(b, bi, si), '%s returns %s, not %s: the envelope tag is no longer checked exactly once by the tagged decoder' % (what, fmt(v)[:200], want),
                         key='%s|%s' % (inst, what), rule='FLOW/IDIOM-UNKNOWN')
    if len(tf) != 1:
        ctx.lost(inst, 'TryFrom<CBOR> for Envelope')
    else:
        judge(tf[0], 'TryFrom<CBOR>::try_from', lambda v: ftc(v) == P1, 'from_tagged_cbor(value)')
    b = F.method1('Envelope', 'try_from_cbor')
    if b is None:
        ctx.lost(inst, 'Envelope::try_from_cbor')
    else:
        judge(b, 'try_from_cbor', lambda v: conv(v) == P1 and m_call(v, name='try_from_cbor', self_suffix='Envelope') is None, 'the TryFrom<CBOR> conversion of the value')
    b = F.method1('Envelope', 'try_from_cbor_data')
    if b is None:
        ctx.lost(inst, 'Envelope::try_from_cbor_data')
    else:
        def data_ok(v):
            a = m_call(v, name='from_tagged_cbor_data')
            if a is not None and strip_sites(detry(a[0])) == P1:
                return True
            x = conv(v)
            p = m_call(x, name='try_from_data') if x is not None else None
            return p is not None and strip_sites(detry(p[0])) == P1
        judge(b, 'try_from_cbor_data', data_ok, 'the CBOR conversion of CBOR::try_from_data(bytes)')


def check_has_digest(ctx, inst):
    F = ctx.F
    for variant, feature in (('Encrypted', 'encrypt'), ('Compressed', 'compress')):
        if not ctx.has(feature):
            ctx.skip(inst, '%s compiled out' % variant)
            continue
        sites = [s for s in agg_sites(F, CASE) if s[3]['variant'] == variant]
        if not sites:
            ctx.lost(inst, 'construction site of EnvelopeCase::%s' % variant)
            continue
        for b, bi, si, rv in sites:
            tb = TermBuilder(F, b)
            agg = tb.rvalue_term(rv, bi, si)
            payload = strip_sites(agg[3][0])
            ok, info = guard_dominates(b, tb, [bi], lambda x: x[0] == 'call' and call_name(x) == 'has_digest' and strip_sites(x[2][0]) == payload, True)
            if ok:
                ctx.ok(inst, ctx.site(b, bi, si), 'EnvelopeCase::%s(x) built only on the passing edge of x.has_digest(); %s' % (variant, info))
            else:
                ctx.fail(inst, ctx.site(b, bi, si), 'EnvelopeCase::%s can be built without a declared digest: %s' % (variant, info), key='%s|%s' % (inst, variant))


_check_inner = check


def check(ctx):
    _check_inner(ctx)
    # C06.11: the decoder hands its decoded elements to a node constructor only behind the checks the writers rely on: every
    # element of the assertion vector is an assertion or obscured (all of them, the last one included) and the vector is not empty.
    # These are the C04.4 / C04.1 instances at the decoder's construction sites, re-evaluated under this property.
    from . import C04
    from .C07 import Relabel
    try:
        C04.check(Relabel(ctx, 'C06.11', ['C04.4', 'C04.1']))
    except Exception as e:
        ctx.fail('C06.11', '-', 'decoder-side element validity (C04.4/C04.1) could not be evaluated: %r' % e, key='C06.11|c04')
    from .. import panic
    F = ctx.F
    entries = F.trait_impl('CBORTaggedDecodable', 'Envelope', 'from_untagged_cbor') + F.trait_impl('TryFrom', 'Envelope', 'try_from', trait_full_contains='CBOR') \
        + [F.method1('Envelope', 'try_from_cbor_data'), F.method1('Envelope', 'try_from_cbor')]
    panic.slice_check(ctx, 'C06.9', entries, 'decode')


_check_before_errflow = check


def check(ctx):
    _check_before_errflow(ctx)
    # C06.10 error discipline: no error of a fallible call is turned into "absent / false / default" outside the reviewed table
    from .. import errflow
    errflow.check(ctx, 'C06.10', ['src/base/cbor.rs', 'src/base/assertion.rs', 'src/base/envelope_decodable.rs', 'src/string_utils.rs'], 'decode family')
