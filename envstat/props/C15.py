"""C15 — traversal and queries agree with the envelope's structure."""
from ..lib import *
from ..terms import TermBuilder
from .. import rec, obscure

EXPLANATION = (
    "REC/TABLE/FLOW rules. The two walks are located by role: the self-recursive functions reached from the public Envelope::walk "
    "on the hide_nodes=false / true edge. C15.1 structure walk: the visitor call dominates every recursive call (parents first) and "
    "receives (self, level, incoming edge, parent); each of the five child kinds is recursed into exactly once with level+1 and the "
    "edge constant Subject/Assertion/Predicate/Object/Wrapped of its kind. C15.2 tree walk: same child coverage; the visitor is "
    "reachable iff !is_node(self) (finite valuation); walk dispatches on hide_nodes. C15.3: the element count adds exactly 1 for self "
    "and recurses once into each child kind. C15.4: digests(limit) uses the structure walk and its visitor inserts digest(e) and "
    "digest(subject(e)) exactly under level < limit (ordering table over level <,=,> limit). C15.5: the predicate filter is "
    "eq(digest(as_predicate(subject(a))), digest(envelope(p))) over assertions(self); the single-result forms over "
    "len in {0,1,2} give {Nonexistent|None, first, Ambiguous}. C15.6: subject()/assertions() return the matched node's fields, "
    "else self / empty; the case predicates is_<case>, is_subject_<case>, is_obscured and the accessors as_predicate/as_object/Assertion::predicate/object that all other rules treat as opaque have exactly their per-case tables. C15.7: query-family panic sites are in the C16 ledger. C15.2 also judges the level and parent the tree walk hands to each child kind, per valuation of `self is a node` (terms built with edge-sensitive reaching definitions); C15.4 also requires shallow_digests/deep_digests = digests(self, 2 / usize::MAX). C15.5 also: objects_for_predicate = the object of the subject of every matching assertion. C15.1/C15.2 also: no test of the level parameter can skip a recursive call. C15.9: each generated TryFrom<Envelope> for T is try_into(try_leaf(envelope)?). Does not decide std collection semantics."
    " C15.10: in every case arm of extract_subject only the matched case's payload is examined.")
TRUSTED = ['Vec::len/is_empty/index, Iterator::filter/collect have std semantics']
FLOORS = {'C15.1': 8, 'C15.2': 12, 'C15.3': 6, 'C15.4': 4, 'C15.5': 5, 'C15.9': 1, 'C15.10': 1, 'C15.6': 2}
P1, P2, P3, P4, P5 = [('param', i) for i in range(1, 6)]
EDGE = {'Node.subject': 'Subject', 'Node.assertions': 'Assertion', 'Assertion.predicate': 'Predicate', 'Assertion.object': 'Object', 'Wrapped.envelope': 'Wrapped'}


def walk_roles(ctx):
    F = ctx.F
    w = F.method1('Envelope', 'walk')
    if w is None:
        return None, None, None
    tb = TermBuilder(F, w)
    roles = {}
    for val in (False, True):
        reach = reach_under(w, tb, {P2: val})
        other = reach_under(w, tb, {P2: (not val)})
        found = []
        for bi, c, t in w.calls():
            if bi in reach and bi not in other and c is not None:
                cb = F.by_hash.get(c.best_hash)
                if cb is not None:
                    if rec.is_self_recursive(F, cb):
                        found.append(cb)
                    else:
                        found.extend(rec.reachable_recursive(F, cb))
        roles[val] = found
    return w, roles.get(False, []), roles.get(True, [])


def visitor_calls(F, body, tb, visitor_param):
    out = []
    for bi in body.normal_blocks():
        t = body.term(bi)
        if t and t['k'] == 'call':
            c = body.callee(bi)
            if c is not None and not (c.name in ('call', 'call_mut', 'call_once') and (c.is_trait_method('Fn') or c.is_trait_method('FnMut') or c.is_trait_method('FnOnce'))):
                continue
            v = tb.call_value(bi)
            if v[0] == 'callv' and strip_sites(v[1]) == visitor_param:
                out.append((bi, v))
    return out


def const_sums(F, t, depth):
    """Set of possible constant parts of an integer sum term (non-constant addends count 0); 'inf' when a loop adds a constant."""
    if depth > 8 or not isinstance(t, tuple) or not t:
        return {'?'}
    k = t[0]
    if k == 'int':
        return {t[1]}
    if k == 'cast':
        return const_sums(F, t[1], depth)
    if k == 'binop' and t[1] in ('Add', 'AddWithOverflow', 'AddUnchecked'):
        a, b = const_sums(F, t[2], depth), const_sums(F, t[3], depth)
        return {(x + y) if isinstance(x, int) and isinstance(y, int) else '?' for x in a for y in b}
    if k == 'binop':
        return {'?'}
    if k == 'rec':
        return {0}
    if k == 'phi':
        base = [a for a in t[1] if not has_free_rec(a)]
        loop = [a for a in t[1] if has_free_rec(a)]
        out = set()
        for a in base:
            out |= const_sums(F, a, depth)
        for a in loop:
            if const_sums(F, a, depth) != {0}:
                return {'inf'}
        return out
    if k == 'partial':
        # store through a reference / into a place: the new value
        return const_sums(F, t[3], depth)
    if k == 'mut':
        # accumulator handed to a crate-local helper by &mut: its value before + what the helper adds to its out-parameter
        c = CALLEES.get(t[1])
        hb = F.by_hash.get(c.best_hash) if c is not None else None
        if hb is None:
            return {'?'}
        before = const_sums(F, t[3][t[2]], depth)
        htb = TermBuilder(F, hb)
        rets = [i for i in hb.normal_blocks() if (hb.term(i) or {}).get('k') == 'return']
        added = set()
        for r in rets:
            added |= const_sums(F, htb.local_term(t[2] + 1, r, len(hb.blocks[r]['stmts'])), depth + 1)
        return {(x + y) if isinstance(x, int) and isinstance(y, int) else '?' for x in before for y in added}
    if k in ('call', 'param', 'vfield', 'elem', 'len', 'callv', 'upvar'):
        return {0}
    return {'?'}


def check(ctx):
    F = ctx.F
    w, structs, trees = walk_roles(ctx)
    if w is None:
        ctx.lost('C15.1', 'Envelope::walk')
        return
    if len(structs) != 1 or len(trees) != 1 or structs[0] is trees[0]:
        ctx.lost('C15.1', 'recursive structure walk / tree walk reached from walk(hide_nodes) [%d/%d found]' % (len(structs), len(trees)))
        return
    ctx.ok('C15.2', ctx.site(w), 'walk dispatches on hide_nodes: false -> %s, true -> %s' % (structs[0].name, trees[0].name))
    sw_, tw_ = structs[0], trees[0]
    # ---------------- C15.1 structure walk
    tb = TermBuilder(F, sw_)
    nparams = sw_.arg_count
    vparam = ('param', nparams)          # the visitor is the last parameter
    vcs = visitor_calls(F, sw_, tb, vparam)
    sites = rec.recursive_call_sites(F, sw_)
    if len(vcs) != 1:
        ctx.fail('C15.1', ctx.site(sw_), 'structure walk calls the visitor %d times per element (expected once)' % len(vcs), key='C15.1|visits')
    else:
        vb, vt = vcs[0]
        va = vt[2][0] if vt[2] and vt[2][0][0] == 'tuple' else None
        vargs = tuple(strip_sites(x) for x in va[1]) if va else ()
        if vargs[:3] == (P1, P2, P3) and len(vargs) >= 4 and vargs[3] == P4:
            ctx.ok('C15.1', ctx.site(sw_, vb), 'visitor receives (self, level, incoming edge, parent)')
        else:
            ctx.fail('C15.1', ctx.site(sw_, vb), 'visitor receives %s' % [fmt(x) for x in vargs], key='C15.1|visitor_args')
        late = [s for s in sites if s['body'] is sw_ and not sw_.dominates(vb, s['block'])]
        if late or any(s['body'] is not sw_ for s in sites) and False:
            ctx.fail('C15.1', late[0]['site'], 'a child is walked before (or without) visiting its parent', key='C15.1|order')
        else:
            ctx.ok('C15.1', ctx.site(sw_, vb), 'the visitor call dominates all %d recursive calls: parents are visited first' % len(sites))
    cov, other = rec.coverage(sites)
    for k in rec.CHILD_KINDS:
        ss = cov.get(k, [])
        if len(ss) != 1:
            ctx.fail('C15.1', ctx.site(sw_), 'structure walk recurses into %s %d times (expected once)' % (k, len(ss)), key='C15.1|cover|' + k)
            continue
        a = [strip_sites(x) for x in ss[0]['args']]
        lvl_ok = a[1] == ('binop', 'Add', P2, ('int', 1)) or a[1] == ('binop', 'Add', ('int', 1), P2)
        edge_ok = a[2][0] == 'agg' and a[2][1].endswith('::EdgeType') and a[2][2] == EDGE[k]
        par_ok = a[3][0] == 'callv' and a[3][1] == vparam
        if lvl_ok and edge_ok and par_ok:
            ctx.ok('C15.1', ss[0]['site'], '%s walked with level+1, edge %s, parent = visitor result' % (k, EDGE[k]))
        else:
            ctx.fail('C15.1', ss[0]['site'], '%s walked with level %s, edge %s, parent %s (expected level+1, EdgeType::%s, the visitor\'s result)' % (k, fmt(a[1]), fmt(a[2]), fmt(a[3]), EDGE[k]),
                     key='C15.1|ctx|' + k)
    for s in other:
        ctx.fail('C15.1', s['site'], 'structure walk recurses on a non-child: %s' % fmt(s['args'][0]), key='C15.1|other')
    # ---------------- C15.2 tree walk
    ttb = TermBuilder(F, tw_)
    tv = ('param', tw_.arg_count)
    tvcs = visitor_calls(F, tw_, ttb, tv)
    tsites = rec.recursive_call_sites(F, tw_)
    cov, other = rec.coverage(tsites)
    for k in rec.CHILD_KINDS:
        ss = cov.get(k, [])
        if len(ss) == 1:
            ctx.ok('C15.2', ss[0]['site'], 'tree walk recurses into %s once' % k)
        else:
            ctx.fail('C15.2', ctx.site(tw_), 'tree walk recurses into %s %d times (expected once)' % (k, len(ss)), key='C15.2|cover|' + k)
    atoms = find_terms(tw_, ttb, lambda x: x[0] == 'call' and call_name(x) == 'is_node' and strip_sites(x[2][0]) == P1)
    datoms = find_terms(tw_, ttb, lambda x: x[0] == 'discr' and m_call(x[1], name='case', self_suffix='Envelope') is not None and strip_sites(m_call(x[1], name='case', self_suffix='Envelope')[0]) == P1)
    if len(tvcs) != 1 or (len(atoms) != 1 and len(datoms) != 1):
        ctx.fail('C15.2', ctx.site(tw_), 'tree walk: %d visitor calls, %d is_node(self) / case(self) tests (expected 1 and 1)' % (len(tvcs), len(atoms) + len(datoms)), key='C15.2|visit')
    else:
        vb = tvcs[0][0]
        variants_ = adt_variants(F, CASE)
        def env_for(node):
            e = {}
            if len(atoms) == 1:
                e[atoms[0]] = node
            return e
        if len(datoms) == 1:
            # "is a node" asked through the case discriminant (`let EnvelopeCase::Node {..} = self.case() else {..}`)
            nidx = variants_.index('Node')
            t_node = vb in reach_under(tw_, ttb, dict(env_for(True), **{}) | {datoms[0]: nidx})
            t_other = any(vb in reach_under(tw_, ttb, env_for(False) | {datoms[0]: i}) for i in range(len(variants_)) if i != nidx) \
                and all(vb in reach_under(tw_, ttb, env_for(False) | {datoms[0]: i}) for i in range(len(variants_)) if i != nidx)
        else:
            t_node = vb in reach_under(tw_, ttb, {atoms[0]: True})
            t_other = vb in reach_under(tw_, ttb, {atoms[0]: False})
        if (t_node, t_other) == (False, True):
            ctx.ok('C15.2', ctx.site(tw_, vb), 'tree walk visits an element iff it is not a node')
        else:
            ctx.fail('C15.2', ctx.site(tw_, vb), 'tree walk visitor reachable for node=%s, non-node=%s (expected False/True)' % (t_node, t_other), key='C15.2|table')
    # ---- the descent is unconditional in depth: no test of the level parameter stands between the visit and the recursive calls (a depth
    # limit makes the walk - and everything built on it: digests(), structural_digest(), tree_format - silently incomplete below it)
    for inst_, wb_, wtb_, wsites_ in (('C15.1', sw_, tb, sites), ('C15.2', tw_, ttb, tsites)):
        guards = []
        for sb_, dt_ in switch_on(wtb_, wb_, lambda d: contains(d, lambda y: y == P2)):
            # a branch on the level that can skip a recursive call
            cut = {s_['block'] for s_ in wsites_ if s_['body'] is wb_}
            t_ = wb_.term(sb_)
            succ_ = wb_.succ(sb_)
            reach_all = [set(wb_.reachable(x)) for x in succ_]
            if any(not (cut & r) for r in reach_all) and any(cut & r for r in reach_all):
                guards.append((sb_, strip_sites(dt_)))
        if guards:
            ctx.fail(inst_, ctx.site(wb_, guards[0][0]), 'the descent of %s depends on a test of the level (%s): below that depth elements are not visited' % (wb_.name, fmt(guards[0][1])[:120]),
                     key=inst_ + '|levelguard')
        else:
            ctx.ok(inst_, ctx.site(wb_), '%s: no test of the level parameter can skip a recursive call (the descent is unbounded in depth)' % wb_.name)
    # ---- C15.2/ctx: level and parent handed to each child of the tree walk, per valuation of "self is a node" (a node is not
    # visited: its subject keeps the node's level and incoming parent, its assertions sit one level below the subject under the
    # context returned for the subject; every other element is visited and its children get level+1 and the visitor's result)
    if len(tvcs) == 1 and (len(atoms) == 1 or len(datoms) == 1):
        variants_ = adt_variants(F, CASE)
        nidx = variants_.index('Node')
        if len(atoms) == 1:
            envs = [(True, {atoms[0]: True}), (False, {atoms[0]: False})]
        else:
            envs = [(True, {datoms[0]: nidx})] + [(False, {datoms[0]: i}) for i in range(len(variants_)) if i != nidx]
        def plus1(x):
            return (('binop', 'Add', x, ('int', 1)), ('binop', 'Add', ('int', 1), x))
        judged = {}
        for node, env in envs:
            L = (P2,) if node else plus1(P2)
            calls = [(bi, [strip_sites(a) for a in args]) for bi, c, args in calls_under(tw_, ttb, env) if c is not None and c.best_hash == tw_.hash]
            def par_ok(x):
                if node:
                    return x == P3
                if x[0] != 'callv' or x[1] != tv:
                    return False
                va = x[2][0] if x[2] and x[2][0][0] == 'tuple' else None
                vargs = tuple(strip_sites(y) for y in va[1]) if va else ()
                return len(vargs) == 4 and vargs[0] == P1 and vargs[1] == P2 and vargs[3] == P3
            for bi, a in calls:
                k = rec.child_kind(a[0])
                if k is None or len(a) < 4:
                    continue
                if node != k.startswith('Node.'):
                    continue        # arm of another case: not executed under this valuation
                if k == 'Node.assertions':
                    sub = a[2]
                    sc = callee_of(sub) if sub[0] == 'call' else None
                    good = a[1] in [y for x in L for y in plus1(x)] and sc is not None and sc.best_hash == tw_.hash \
                        and rec.child_kind(strip_sites(sub[2][0])) == 'Node.subject'
                    want = 'level of the subject + 1 and the context returned by the subject\'s walk'
                else:
                    good = a[1] in L and par_ok(a[2])
                    want = ('the node\'s own level and incoming parent' if node else 'level+1 and the visitor\'s result for self')
                prev = judged.get(k)
                judged[k] = (prev[0] and good if prev else good, ctx.site(tw_, bi), want, a)
        for k in rec.CHILD_KINDS:
            if k not in judged:
                ctx.fail('C15.2', ctx.site(tw_), 'tree walk: no call into %s found under the valuation where it is executed' % k, key='C15.2|ctxlost|' + k)
                continue
            good, site, want, a = judged[k]
            if good:
                ctx.ok('C15.2', site, 'tree walk hands %s %s' % (k, want))
            else:
                ctx.fail('C15.2', site, 'tree walk hands %s level %s and parent %s (expected %s)' % (k, fmt(a[1]), fmt(a[2]), want), key='C15.2|ctx|' + k)
    # ---------------- C15.3 element count
    ec = F.method1('Envelope', 'elements_count')
    if ec is None:
        ctx.lost('C15.3', 'Envelope::elements_count')
    else:
        family = [ec] + [b for b in F.bodies if b.path.startswith(ec.path + '::') and b.dk == 'Fn']
        hashes = {b.hash for b in family}
        worker = None
        for b in family:
            ss = rec.recursive_call_sites(F, b, target_hashes=hashes)
            cv, oth = rec.coverage(ss)
            if cv:
                worker = (b, ss, cv, oth)
        if worker is None:
            ctx.lost('C15.3', 'recursive element counter')
        else:
            b, ss, cv, oth = worker
            for k in rec.CHILD_KINDS:
                n = len(cv.get(k, []))
                if n == 1:
                    ctx.ok('C15.3', cv[k][0]['site'], 'count recurses into %s once' % k)
                else:
                    ctx.fail('C15.3', ctx.site(b), 'count recurses into %s %d times (expected once)' % (k, n), key='C15.3|cover|' + k)
            # +1 for self: on every path the constant part of the returned sum is exactly 1 (the recursive calls are the
            # non-constant addends, judged by the coverage above). Read from the value term of the result, whatever way the
            # accumulator is written (`let mut n = 1; n += ..`, `n = 0; n += 1`, an out-parameter of a nested helper, ..).
            sums = const_sums(F, return_term_of(F, ec), 0)
            if sums == {1}:
                ctx.ok('C15.3', ctx.site(b), 'the constant part of the returned count is 1 on every path (one for the element itself)')
            else:
                ctx.fail('C15.3', ctx.site(b), 'element count does not add exactly 1 per element (constant part of the sum: %s)' % sorted(sums, key=str), key='C15.3|self')
    # ---------------- C15.4 digests(limit)
    dg = F.method1('Envelope', 'digests')
    if dg is not None:
        # the named level sets are the walk-based collector at a fixed limit: deep = no limit, shallow = two levels
        for name, lim, what in (('deep_digests', lambda n: n is not None and n >= 2 ** 32 - 1, 'usize::MAX'), ('shallow_digests', lambda n: n == 2, '2')):
            wb = F.method1('Envelope', name)
            if wb is None:
                ctx.lost('C15.4', 'Envelope::' + name)
                continue
            rt = strip_sites(detry(TermBuilder(F, wb).return_term()))
            c = callee_of(rt) if rt[0] == 'call' else None
            if c is not None and c.best_hash == dg.hash and len(rt[2]) == 2 and strip_sites(rt[2][0]) == P1 and lim(const_int(strip_sites(rt[2][1]))):
                ctx.ok('C15.4', ctx.site(wb), '%s() = digests(self, %s)' % (name, what), sample=fmt(rt))
            else:
                ctx.fail('C15.4', ctx.site(wb), '%s() is %s, not the walk-based digests(self, %s): its agreement with the structure is not covered by the digests() rules'
                         % (name, fmt(rt)[:300], what), key='C15.4|level|' + name)
    if dg is None:
        ctx.lost('C15.4', 'Envelope::digests')
    else:
        dtb = TermBuilder(F, dg)
        walks = [(bi, dtb.call_args(bi)) for bi, c, t in dg.calls() if c is not None and c.is_method('Envelope', 'walk')]
        if len(walks) != 1 or strip_sites(walks[0][1][1]) != ('bool', False) or strip_sites(walks[0][1][0]) != P1:
            ctx.fail('C15.4', ctx.site(dg), 'digests() does not run the structure walk over self', key='C15.4|walk')
        else:
            ctx.ok('C15.4', ctx.site(dg, walks[0][0]), 'digests() = structure walk of self with a collecting visitor')
            vis = walks[0][1][2]
            cb = F.closure(vis[1]) if vis[0] == 'closure' else None
            if cb is None:
                ctx.lost('C15.4', 'visitor closure of digests()')
            else:
                ctb = TermBuilder(F, cb)
                caps = [strip_sites(x) for x in vis[2]]
                lim = [i for i, c in enumerate(caps) if c == P2]
                ins = []
                for bi, c, t in cb.calls():
                    if c is not None and c.name == 'insert':
                        a = ctb.call_args(bi)
                        d = m_digest(strip_sites(a[1]))
                        ins.append((bi, d))
                    elif c is not None and c.name == 'extend' and c.is_trait_method('Extend'):
                        # result.extend([digest(e), digest(subject(e))]) adds the listed values
                        a = ctb.call_args(bi)
                        lst = seq_norm(a[1])
                        if lst is not None and all(k_ == 'one' for k_, _v in lst):
                            for k_, v_ in lst:
                                ins.append((bi, m_digest(v_)))
                        else:
                            ins.append((bi, None))
                want = {P2, ('call',)}
                got_self = [bi for bi, d in ins if d == P2]
                got_subj = [bi for bi, d in ins if d is not None and m_call(d, name='subject', self_suffix='Envelope') is not None and m_call(d, name='subject', self_suffix='Envelope')[0] == P2]
                if not lim or len(got_self) != 1 or len(got_subj) != 1:
                    ctx.fail('C15.4', ctx.site(cb), 'visitor does not insert exactly digest(e) and digest(subject(e)) (limit captured: %s)' % bool(lim), key='C15.4|inserts')
                else:
                    up = ('upvar', lim[0])
                    rows = {}
                    for lvl, l in ((0, 1), (1, 1), (2, 1)):
                        reach = reach_under(cb, ctb, {P3: lvl, up: l})
                        rows[('<' if lvl < l else '=' if lvl == l else '>')] = (got_self[0] in reach, got_subj[0] in reach)
                    if rows == {'<': (True, True), '=': (False, False), '>': (False, False)}:
                        ctx.ok('C15.4', ctx.site(cb), 'inserts happen exactly when level < limit (ordering table %s)' % rows, sample=str(rows))
                    else:
                        ctx.fail('C15.4', ctx.site(cb), 'insert table over level ? limit is %s, expected inserts only for <' % rows, key='C15.4|table')
    # ---------------- C15.5 predicate lookups
    awp = F.method1('Envelope', 'assertions_with_predicate')
    if awp is None:
        ctx.lost('C15.5', 'Envelope::assertions_with_predicate')
    else:
        atb = TermBuilder(F, awp)
        rds = ret_defs(atb)
        rt = atb.return_term()
        good = False
        why = fmt(rt)
        # the lookup as a selection (filter+collect, or a loop that pushes the elements it keeps) of assertions(self)
        sel = selection(F, awp, atb, rt, use_block=rds[0][0] if len(rds) == 1 else None)
        if sel is None:
            why = 'result is not a selection of the elements of a collection: %s' % fmt(rt)
        else:
            a = m_call(sel.coll, name='assertions', self_suffix='Envelope')
            if a is None or a[0] != P1:
                why = 'selection ranges over %s, not assertions(self)' % fmt(sel.coll)
            elif sel.value != ('elem', sel.coll):
                why = 'kept elements are transformed: %s' % fmt(sel.value)
            else:
                E = sel.elem
                def is_X(x):
                    ap = m_call(x, name='as_predicate', self_suffix='Envelope')
                    sj = m_call(ap[0], name='subject', self_suffix='Envelope') if ap else None
                    return sj is not None and sj[0] == E
                def side(x):
                    d = m_digest(x)
                    if d is None:
                        return ''
                    if d[0] == 'vfield' and d[2] == 'Some' and is_X(d[1]):
                        return 'candidate'
                    if sel.captured(d) in (('env', P2), P2):
                        return 'query'
                    return ''
                def is_cmp(t):
                    return t[0] == 'call' and call_name(t) in ('eq', 'ne') and len(t[2]) == 2 and sorted([side(t[2][0]), side(t[2][1])]) == ['candidate', 'query']
                atoms = sel.atoms(is_cmp)
                if len(atoms) != 1:
                    why = 'the element test does not compare digest(as_predicate(subject(a))) with digest(Envelope::new(predicate)) exactly once (%d comparisons)' % len(atoms)
                else:
                    eq_is = call_name(atoms[0]) == 'eq'
                    cand = [x for x in atoms[0][2] if side(x) == 'candidate'][0]
                    X = m_digest(cand)[1]
                    D = ('discr', X)
                    rows = {}
                    for d in (0, 1):
                        for q in (False, True):
                            rows[(d, q)] = sel.keep_values({D: d, atoms[0]: (q if eq_is else not q)})
                    expect = {(0, False): {False}, (0, True): {False}, (1, False): {False}, (1, True): {True}}
                    if rows == expect:
                        good = True
                    else:
                        why = 'keep table over (subject is an assertion, predicate digests equal) is %s' % rows
        if good:
            ctx.ok('C15.5', ctx.site(awp), 'lookup keeps exactly the assertions a with as_predicate(subject(a)) = Some(p) and digest(p) == digest(Envelope::new(predicate)); non-assertions are dropped (4 valuations)')
        else:
            ctx.fail('C15.5', ctx.site(awp), 'predicate lookup filter has an unexpected form: %s' % why, key='C15.5|filter')
    CUR_N = [None]
    def single(name, none_kind):
        b = F.method1('Envelope', name)
        if b is None:
            ctx.lost('C15.5', 'Envelope::' + name)
            return
        tb_ = TermBuilder(F, b)
        def is_V(t):
            a = m_call(strip_sites(t), name='assertions_with_predicate', self_suffix='Envelope')
            return a is not None and a[0] == P1 and a[1] == P2
        empt = find_terms(b, tb_, lambda x: x[0] == 'call' and call_name(x) == 'is_empty' and is_V(x[2][0]))
        lens = find_terms(b, tb_, lambda x: (x[0] == 'call' and call_name(x) == 'len' and is_V(x[2][0])) or (x[0] == 'len' and is_V(x[1])))
        Vs = find_terms(b, tb_, lambda x: is_V(x))
        if not Vs:
            # no lookup of its own: `Ok(sibling(self, p)?.map(|a| object(subject(a))))` over a sibling single-result lookup with the same
            # none / several behaviour, which is judged by its own table
            sib_names = {'optional_object_for_predicate': ('optional_assertion_with_predicate',), 'optional_assertion_with_predicate': ()}.get(name, ())
            okd, seen_ok = True, False
            for bi, si, t in ret_defs(tb_):
                st = strip_sites(t)
                def sib_call(x):
                    x = strip_sites(detry(x))
                    return x[0] == 'call' and call_name(x) in sib_names and len(x[2]) == 2 and strip_sites(x[2][0]) == P1 and strip_sites(x[2][1]) == P2
                if m_call(st, name='from_residual') is not None:
                    okd &= any(isinstance(x, tuple) and x and x[0] == 'call' and sib_call(x) for x in walk(st))
                    continue
                v = st[3][0] if st[0] == 'agg' and st[2] == 'Ok' and st[3] else None
                mp = m_call(strip_sites(detry(v)), name='map') if v is not None else None
                good = False
                if mp is not None and sib_call(mp[0]) and mp[1][0] == 'closure':
                    cv = closure_value(mp[1], {('param', 2): ('param', 99)})
                    cv = strip_sites(detry(cv)) if cv is not None else None
                    u = m_call(cv, name='unwrap') or m_call(cv, name='expect') if cv is not None else None
                    o = m_call(strip_sites(u[0]), name='as_object', self_suffix='Envelope') if u is not None else None
                    sj = m_call(strip_sites(o[0]), name='subject', self_suffix='Envelope') if o is not None else None
                    good = sj is not None and strip_sites(sj[0]) == ('param', 99)
                okd &= good
                seen_ok |= good
            if okd and seen_ok:
                ctx.ok('C15.5', ctx.site(b), '%s = %s(self, p)?.map(|a| object(subject(a))): the none / one / several behaviour is that of the sibling lookup (judged by its own table)' % (name, sib_names[0]))
                return
        rows = {}
        for n in (0, 1, 2, 3):
            env = {}
            for e in empt:
                env[e] = (n == 0)
            for l in lens:
                env[l] = n
            for v_ in Vs:
                env[('len', v_)] = n
            outs = []
            CUR_N[0] = n
            # the values returned under this valuation, built from the definitions on its paths only
            for bi, si, t in ret_values_under(b, tb_, env):
                outs.append(classify(strip_sites(detry(t))))
            rows[n] = sorted(set(outs))
        expect = {0: [none_kind], 1: ['first'], 2: ['Err:AmbiguousPredicate'], 3: ['Err:AmbiguousPredicate']}
        if rows == expect:
            ctx.ok('C15.5', ctx.site(b), '%s over match count {0,1,2,3} -> %s' % (name, rows), sample=str(rows))
        else:
            ctx.fail('C15.5', ctx.site(b), '%s over match count is %s, expected %s' % (name, rows, expect), key='C15.5|single|' + name)
    def classify(t):
        fr = m_call(t, name='from_residual')
        if fr is not None:
            # `?` on an explicitly built Err(e): the error e leaves the function
            for x in walk(t):
                if isinstance(x, tuple) and x and x[0] == 'agg' and x[1].endswith('EnvelopeError'):
                    return 'Err:' + x[2]
        if t[0] == 'vfield' and t[2] in ('Some', 'Ok') and t[3] == '0' and isinstance(t[1], tuple) and t[1] and t[1][0] == 'agg' and t[1][2] == t[2] and t[1][3]:
            return classify(t[1][3][0])
        if t[0] == 'agg' and t[2] == 'Err':
            for x in walk(t):
                if isinstance(x, tuple) and x and x[0] == 'agg' and x[1].endswith('EnvelopeError'):
                    return 'Err:' + x[2]
            return 'Err:?'
        if t[0] == 'agg' and t[2] == 'Ok':
            inner = t[3][0]
            mp = m_call(inner, name='map')
            if mp is not None and len(mp) == 2 and strip_generics(inner[1]) == 'core::option::Option::map':
                # Option::map(None, f) == None; Option::map(Some(v), f) reads v
                inner = mp[0]
            if inner[0] == 'agg' and inner[2] == 'None':
                return 'None'
            if inner[0] == 'agg' and inner[2] == 'Some':
                inner = inner[3][0]
            for x in walk(inner):
                if isinstance(x, tuple) and x and x[0] == 'call' and call_name(x) == 'index' and const_int(x[2][1]) == 0:
                    return 'first'
                if isinstance(x, tuple) and x and x[0] == 'index' and const_int(x[2]) == 0:
                    return 'first'
                if isinstance(x, tuple) and x and x[0] == 'call' and call_name(x) in ('first', 'next'):
                    return 'first'
                if isinstance(x, tuple) and x and x[0] == 'elem' and CUR_N[0] == 1 and m_call(strip_sites(detry(elem_source(x[1]))), name='assertions_with_predicate') is not None:
                    return 'first'      # an element of a one-element collection is its first (and only) element
            return 'other:' + fmt(inner)
        return 'other:' + fmt(t)
    single('assertion_with_predicate', 'Err:NonexistentPredicate')
    single('optional_assertion_with_predicate', 'None')
    single('optional_object_for_predicate', 'None')
    # objects_for_predicate: the object of EVERY matching assertion, read through the assertion's subject (a decorated - salted,
    # annotated - assertion is a node whose subject is the assertion): none dropped, none added
    ofp = F.method1('Envelope', 'objects_for_predicate')
    if ofp is None:
        ctx.lost('C15.5', 'Envelope::objects_for_predicate')
    else:
        otb = TermBuilder(F, ofp)
        ort = otb.return_term()
        rblocks = [i for i in ofp.normal_blocks() if (ofp.term(i) or {}).get('k') == 'return']
        parts = seq_norm(ort, ofp, rblocks[0] if rblocks else None)
        good = False
        if parts is not None and len(parts) == 1 and parts[0][0] == 'each':
            v = parts[0][1]
            u = m_call(v, name='unwrap') or m_call(v, name='expect')
            o = m_call(strip_sites(u[0]), name='as_object', self_suffix='Envelope') if u is not None else None
            sj = m_call(strip_sites(o[0]), name='subject', self_suffix='Envelope') if o is not None else None
            el = strip_sites(sj[0]) if sj is not None else None
            if el is not None and el[0] == 'elem':
                src = m_call(strip_sites(detry(el[1])), name='assertions_with_predicate', self_suffix='Envelope')
                good = src is not None and strip_sites(src[0]) == P1 and strip_sites(src[1]) == P2
        if good:
            ctx.ok('C15.5', ctx.site(ofp), 'objects_for_predicate = [object(subject(a)) for every a in assertions_with_predicate(self, p)] (one element per match, none skipped)')
        else:
            ctx.fail('C15.5', ctx.site(ofp), 'objects_for_predicate is not the object of the subject of every matching assertion (a decorated assertion would be dropped, or an element skipped): %s'
                     % fmt(strip_sites(ort))[:300], key='C15.5|objects')
    # ---------------- C15.9 typed conversions TryFrom<Envelope> for T (the `try_as` / `try_object_for_predicate` family): the value is
    # the CBOR conversion of the envelope's own leaf, try_into(try_leaf(envelope)?) - a non-leaf (elided, node, wrapped, ..) is an error,
    # never the value of something else (its subject's leaf, its own digest)
    conv = [b for b in F.bodies if b.name == 'try_from' and 'TryFrom<' in (b.impl_trait_full or '') and 'Envelope>' in (b.impl_trait_full or '').replace(' ', '')
            and b.span and b.span.get('file', '').endswith('envelope_decodable.rs')]
    ctx.need('C15.9', len(conv) >= 20, 'TryFrom<Envelope> conversions generated in envelope_decodable.rs')
    badc = []
    for b in conv:
        ctb = TermBuilder(F, b)
        for bi, si, t in accept_sites(b, ctb):
            v = strip_sites(detry(t))
            if v[0] == 'agg' and v[2] == 'Ok' and v[3]:
                v = strip_sites(detry(v[3][0]))
            a = v[2][0] if v[0] == 'call' and call_name(v) in ('try_into', 'try_from') and len(v[2]) == 1 else None
            lf = m_call(strip_sites(detry(a)), name='try_leaf', self_suffix='Envelope') if a is not None else None
            if lf is None or strip_sites(lf[0]) != P1:
                badc.append((b, bi, si, v))
    for b, bi, si, v in badc[:6]:
        ctx.fail('C15.9', ctx.site(b, bi, si), 'typed conversion %s returns %s, not the conversion of the envelope\'s own leaf (try_into(try_leaf(envelope)?)): a non-leaf envelope can '
                 'yield a value that was never stored' % ((b.impl_self or '?').split('::')[-1], fmt(v)[:160]), key='C15.9|' + (b.impl_self or b.path))
    if conv and not badc:
        ctx.ok('C15.9', ctx.site(conv[0]), '%d typed conversions TryFrom<Envelope> for T are try_into(try_leaf(envelope)?)' % len(conv), sample=str(len(conv)))
    # ---------------- C15.10 typed extraction of the subject, per case: the value handed to the type test / conversion is the payload of
    # the matched case (the wrapped envelope, the assertion, the digest, the known value, the leaf's CBOR, for a node its subject) - never
    # the element itself ("returns the stored value or an error, never another value")
    xs = F.method1('Envelope', 'extract_subject')
    if xs is None:
        ctx.lost('C15.10', 'Envelope::extract_subject')
    else:
        xtb = TermBuilder(F, xs)
        datoms = find_terms(xs, xtb, lambda x: x[0] == 'discr' and m_call(x[1], name='case', self_suffix='Envelope') is not None
                            and strip_sites(m_call(x[1], name='case', self_suffix='Envelope')[0]) == P1)
        variants_ = adt_variants(F, CASE)
        if len(datoms) != 1:
            ctx.fail('C15.10', ctx.site(xs), 'extract_subject does not dispatch on case(self)', key='C15.10|dispatch', rule='FLOW/IDIOM-UNKNOWN')
        else:
            badx = []
            for i, vn in enumerate(variants_):
                for bi_, c_, args_ in calls_under(xs, xtb, {datoms[0]: i}):
                    if c_ is None or c_.name in ('case', 'clone', 'branch', 'from_residual'):
                        continue
                    for a_ in args_:
                        sa = strip_sites(detry(a_))
                        while sa[0] == 'call' and call_name(sa) in ('clone', 'deref', 'borrow', 'as_ref') and len(sa[2]) == 1:
                            sa = strip_sites(detry(sa[2][0]))
                        if sa == P1 and c_.name not in ('case',):
                            badx.append((vn, c_.name))
            if badx:
                ctx.fail('C15.10', ctx.site(xs), 'extract_subject hands the element itself (not the payload of its case) to %s in the %s arm: the caller gets the wrapper / container instead of '
                         'the stored value' % (badx[0][1], badx[0][0]), key='C15.10|self|' + badx[0][0])
            else:
                ctx.ok('C15.10', ctx.site(xs), 'extract_subject: in every case arm only the matched case\'s payload is examined (%d cases)' % len(variants_))
    # ---------------- C15.6 accessors
    for name, field, default in (('subject', 'subject', 'self'), ('assertions', 'assertions', 'empty')):
        b = F.method1('Envelope', name)
        if b is None:
            ctx.lost('C15.6', 'Envelope::' + name)
            continue
        alts = [strip_sites(x[2]) for x in ret_defs(TermBuilder(F, b))]
        good = len(alts) == 2
        for a in alts:
            if obscure.child_kind(a) == 'Node.' + field:
                continue
            if default == 'self' and a == P1:
                continue
            if default == 'empty' and (m_call(a, name='new') is not None or a[0] == 'list' and not a[1]):
                continue
            good = False
        if good:
            ctx.ok('C15.6', ctx.site(b), '%s() = the matched node\'s %s, else %s' % (name, field, default))
        else:
            ctx.fail('C15.6', ctx.site(b), '%s() returns %s' % (name, [fmt(a) for a in alts]), key='C15.6|' + name)


_check_inner = check


def check(ctx):
    _check_inner(ctx)
    from .. import panic, accessors
    accessors.check_case_predicates(ctx, 'C15.6/case')
    F = ctx.F
    # the query family: every exported &self method of Envelope defined in the walk / queries / digest modules
    entries = [b for b in F.bodies if b.dk == 'AssocFn' and b.impl_self and ty_matches(b.impl_self, 'Envelope') and not b.impl_trait
               and any(m in b.path for m in ('::base::queries::', '::base::walk::', '::base::digest::')) and F.item_is_exported(b)]
    panic.slice_check(ctx, 'C15.7', entries, 'query')


_check_before_errflow = check


def check(ctx):
    _check_before_errflow(ctx)
    # C15.8 error discipline: no error of a fallible call is turned into "absent / false / default" outside the reviewed table
    from .. import errflow
    errflow.check(ctx, 'C15.8', ['src/base/queries.rs', 'src/base/walk.rs', 'src/base/envelope.rs', 'src/base/leaf.rs'], 'query / traversal family')
