"""C08 — symmetric encryption round-trips, keeps digests and is bound to them."""
from ..lib import *
from ..terms import TermBuilder
from .. import obscure, codec

NEED_DEPS = True
REQUIRES = ['encrypt']
USES_QUERIES = True
EXPLANATION = (
    "FLOW/GUARD rules. C08.1: payload/declared-digest pairing at each of the per-case encryption sinks (same rule as C02.2). "
    "C08.2: in decrypt_subject every Ok exit is dominated by the passing edge of digest(decoded) == declared digest, where "
    "decoded = from_tagged_cbor(try_from_data(decrypt(key, message))) and declared = opt_digest(the same message); the node exit "
    "additionally by digest(rebuilt node) == stored node digest; a missing declared digest is an Err exit. C08.3: wiring - the "
    "message is the Encrypted payload of subject(self), the rebuilt node is node-constructor(decoded, the node's own assertions). "
    "C08.4: no accept exit in the arms for an already encrypted / elided envelope and the node arm's accept is dominated by "
    "!is_encrypted(subject). C08.5: encrypt = encrypt_subject(wrap(self)), decrypt = unwrap_envelope(decrypt_subject(self)?). "
    "C08.6: the Encrypt action reaches every position - the obscuring descent rebuilds each case over rec(child, target, mode, action) with the action unchanged and has no exit that is neither self, a same-case rebuild nor an action sink. Does not decide that a wrong key or tampered ciphertext/nonce/tag/AAD makes the AEAD fail (dependency)."
    " C08.4 also: the node arm refuses exactly an already encrypted subject (table over the cases of the subject).")
TRUSTED = ['SymmetricKey::decrypt authenticates ciphertext, nonce, tag and AAD', 'EncryptedMessage::opt_digest reads the digest stored as AAD']
FLOORS = {'C08.1': 6, 'C08.2': 2, 'C08.4': 3, 'C08.5': 2}


def check(ctx):
    F = ctx.F
    obscure.check_sinks(ctx, 'C08.1', want=('encrypt',))
    obscure.check_obscure_region(ctx, 'C08.1/action')
    # the Encrypt action must reach every position: the descent rebuilds each case over rec(child, target, mode, action) unchanged
    obscure.check_rebuild(ctx, 'C08.6', 'C08.6/kinds')
    P1, P2 = ('param', 1), ('param', 2)
    b = F.method1('Envelope', 'decrypt_subject')
    if b is None:
        ctx.lost('C08.2', 'Envelope::decrypt_subject')
        return
    tb = TermBuilder(F, b)
    acc = accept_sites(b, tb)
    if not acc:
        ctx.lost('C08.2', 'accept exits of decrypt_subject')

    def is_message(t):
        t = strip_sites(t)
        if t[0] == 'vfield' and t[2] == 'Encrypted' and t[3] == '0':
            c = m_call(t[1], name='case', self_suffix='Envelope')
            s = m_call(c[0], name='subject', self_suffix='Envelope') if c else None
            return s is not None and s[0] == P1
        return False

    def is_decoded(t):
        t = detry(t)
        a = m_call(t, name='from_tagged_cbor') or m_call(t, name='try_from', trait='TryFrom')
        if a is not None:
            p = m_call(a[0], name='try_from_data')
            d = m_call(p[0], name='decrypt', self_suffix='SymmetricKey') if p else None
            return d is not None and strip_sites(d[0]) == P2 and is_message(d[1])
        a = m_call(t, name='from_tagged_cbor_data') or m_call(t, name='try_from_cbor_data')
        if a is not None:
            d = m_call(a[0], name='decrypt', self_suffix='SymmetricKey')
            return d is not None and strip_sites(d[0]) == P2 and is_message(d[1])
        return False

    def is_declared(t):
        t = detry(t)
        a = m_call(t, name='ok_or') or m_call(t, name='ok_or_else')
        if a is not None:
            t = a[0]
        if t[0] == 'vfield' and t[2] == 'Some' and t[3] == '0':
            t = t[1]          # the payload bound by `let Some(d) = message.opt_digest() else { bail }` / `if let Some(d)`
        o = m_call(t, name='opt_digest') or m_call(t, name='digest', trait='DigestProvider')
        return o is not None and is_message(o[0])

    def subject_guard(x):
        if x[0] != 'call' or call_name(x) not in ('eq', 'ne'):
            return False
        l, r = detry(x[2][0]), detry(x[2][1])
        dl, dr = m_digest(l), m_digest(r)
        return (dl is not None and is_decoded(dl) and is_declared(r)) or (dr is not None and is_decoded(dr) and is_declared(l))

    def node_rebuilt(t):
        t = detry(t)
        if t[0] != 'call' or codec.ctor_variants(F, t) != {'Node'} or len(t[2]) != 2:
            a = m_call(t, name='replace_subject', self_suffix='Envelope')
            return a is not None and strip_sites(a[0]) == P1 and is_decoded(a[1])
        return is_decoded(t[2][0]) and obscure.child_kind(t[2][1]) == 'Node.assertions'

    def node_guard(x):
        if x[0] != 'call' or call_name(x) not in ('eq', 'ne'):
            return False
        l, r = detry(x[2][0]), detry(x[2][1])
        def own(t):
            return obscure.own_digest_of(P1, t)
        dl, dr = m_digest(l), m_digest(r)
        return (dl is not None and node_rebuilt(dl) and own(r)) or (dr is not None and node_rebuilt(dr) and own(l))

    for bi, si, t in acc:
        site = ctx.site(b, bi, si)
        v = detry(t[3][0]) if t[0] == 'agg' and t[2] == 'Ok' else detry(t)
        if is_decoded(v):
            kind = 'subject'
        elif node_rebuilt(v):
            kind = 'node'
        else:
            ctx.fail('C08.3', site, 'decrypt returns %s: neither the decoded plaintext of self\'s encrypted subject nor the node rebuilt over it' % fmt(v), key='C08.3|value')
            continue
        ctx.ok('C08.3', site, 'accept value (%s) = decode(decrypt(key, Encrypted payload of subject(self)))%s' % (kind, ' under the node\'s own assertions' if kind == 'node' else ''), sample=fmt(v))
        # subject exit: the plaintext digest check is required.  node exit: either check suffices, because with C01.2
        # digest(node(decoded, A)) == stored node digest  <=>  digest(decoded) == declared digest of the encrypted subject.
        verdicts = []
        for gname, g in (('digest(decoded) == declared digest', subject_guard), ('digest(rebuilt node) == stored node digest', node_guard)):
            if gname.startswith('digest(rebuilt') and kind != 'node':
                continue
            gs = find_terms(b, tb, g)
            if not gs:
                verdicts.append((False, gname, 'no such comparison found'))
                continue
            ok, info = guard_dominates(b, tb, [bi], g, call_name(gs[0]) == 'eq')
            verdicts.append((ok, gname, info))
        if any(v[0] for v in verdicts):
            for ok, gname, info in verdicts:
                if ok:
                    ctx.ok('C08.2', site, '%s exit dominated by %s; %s' % (kind, gname, info))
        else:
            ctx.fail('C08.2', site, '%s exit is not dominated by a check that the decrypted content hashes to the digest the ciphertext declares: %s'
                     % (kind, '; '.join('%s: %s' % (v[1], v[2]) for v in verdicts)), key='C08.2|' + kind)
    # missing declared digest is an Err exit: the declared term goes through ok_or(..)? / a None test
    decl = find_terms(b, tb, lambda x: x[0] == 'call' and call_name(x) in ('opt_digest',) and is_message(x[2][0]))
    if decl:
        via_ok_or = find_terms(b, tb, lambda x: x[0] == 'call' and call_name(x) in ('ok_or', 'ok_or_else') and strip_sites(x[2][0]) in decl)
        none_accepts = [a_ for a_ in acc if a_[0] in reach_under(b, tb, {('discr', decl[0]): 0})]
        tested = find_terms(b, tb, lambda x: x[0] == 'discr' and strip_sites(x[1]) == decl[0])
        if via_ok_or:
            ctx.ok('C08.2', ctx.site(b), 'missing declared digest -> Err via ok_or(..)?')
        elif tested and not none_accepts:
            ctx.ok('C08.2', ctx.site(b), 'missing declared digest -> no accept exit is reachable when opt_digest() is None')
        else:
            ctx.fail('C08.2', ctx.site(b), 'a message without declared digest is not turned into an error', key='C08.2|missing')
    # ---- C08.4 refusal arms in encrypt_subject_opt
    e = F.method1('Envelope', 'encrypt_subject_opt')
    if e is None:
        ctx.lost('C08.4', 'Envelope::encrypt_subject_opt')
    else:
        etb = TermBuilder(F, e)
        sw = [x for x in switch_on(etb, e, lambda d: d[0] == 'discr' and m_call(d[1], name='case', self_suffix='Envelope') is not None and strip_sites(m_call(d[1], name='case', self_suffix='Envelope')[0]) == P1)]
        if len(sw) != 1:
            ctx.lost('C08.4', 'case dispatch in encrypt_subject_opt')
        else:
            sb = sw[0][0]
            regs = arm_regions(e, sb)
            variants = adt_variants(F, CASE)
            eacc = accept_sites(e, etb)
            sink_blocks = [bi for bi, c, t in e.calls() if c is not None and c.name == 'encrypt_with_digest']
            for idx, vname in enumerate(variants):
                if vname not in ('Encrypted', 'Elided'):
                    continue
                tgt, reg = regs.get(idx, (None, set()))
                bad = [x for x in sink_blocks if x in reg]
                rds = ret_defs(etb, reg)
                errs = [x for x in rds if x[2][0] == 'agg' and x[2][2] == 'Err']
                if bad or not errs:
                    ctx.fail('C08.4', ctx.site(e, tgt if tgt is not None else sb), 'arm %s of subject encryption is not a refusal (encrypt sink reachable or no Err exit)' % vname, key='C08.4|' + vname)
                else:
                    ctx.ok('C08.4', ctx.site(e, tgt), 'arm %s refuses with an error and reaches no encrypt sink' % vname)
            # node arm: sink dominated by !is_encrypted(subject)
            idx = variants.index('Node')
            tgt, reg = regs[idx]
            node_sinks = [x for x in sink_blocks if x in reg]
            def enc_guard(x):
                return x[0] == 'call' and call_name(x) == 'is_encrypted' and obscure.child_kind(x[2][0]) == 'Node.subject'
            if not node_sinks:
                ctx.lost('C08.4', 'encrypt sink in the node arm')
            else:
                ok, info = guard_dominates(e, etb, node_sinks, enc_guard, False)
                if ok:
                    ctx.ok('C08.4', ctx.site(e, node_sinks[0]), 'node arm encrypts only on the false edge of is_encrypted(subject); ' + info)
                else:
                    ctx.fail('C08.4', ctx.site(e, node_sinks[0]), 'an already encrypted subject can be encrypted again: ' + info, key='C08.4|node')
            # node arm, per case of the subject: refused exactly for an already encrypted subject; every other subject case (leaf,
            # known value, wrapped, assertion, node, compressed, an elided placeholder) reaches the encrypt sink: the round trip holds for them
            from .. import accessors
            if node_sinks:
                bad_rows = []
                for vname in variants:
                    env_s, n_atoms = accessors.case_env(F, e, etb, vname, variants, target=lambda x: obscure.child_kind(x) == 'Node.subject')
                    env_s = dict(env_s)
                    env_s[strip_sites(sw[0][1])] = variants.index('Node')
                    R = reach_under(e, etb, env_s)
                    reached = any(x in R for x in node_sinks)
                    want = vname != 'Encrypted'
                    if reached != want:
                        bad_rows.append((vname, reached))
                if bad_rows:
                    ctx.fail('C08.4', ctx.site(e, node_sinks[0]), 'node arm, by case of the subject: encrypt sink reachability is wrong for %s (expected: refused only for an already Encrypted subject)' % bad_rows,
                             key='C08.4|node_table')
                else:
                    ctx.ok('C08.4', ctx.site(e, node_sinks[0]), 'node arm: the subject is encrypted for every case but Encrypted, which is refused (%d subject cases)' % len(variants))
    # ---- C08.5 compositions
    d = F.method1('Envelope', 'decrypt')
    if d is None:
        ctx.lost('C08.5', 'Envelope::decrypt')
    else:
        dtb = TermBuilder(F, d)
        for bi, si, t in accept_sites(d, dtb):
            v = strip_sites(detry(t))
            a = m_call(v, name='unwrap_envelope', self_suffix='Envelope')
            inner = m_call(a[0], name='decrypt_subject', self_suffix='Envelope') if a else None
            if inner is not None and inner[0] == P1 and inner[1] == P2:
                ctx.ok('C08.5', ctx.site(d, bi, si), 'decrypt = unwrap_envelope(decrypt_subject(self, key)?)', sample=fmt(v))
            else:
                ctx.fail('C08.5', ctx.site(d, bi, si), 'decrypt returns %s' % fmt(v), key='C08.5|decrypt')
    en = F.method1('Envelope', 'encrypt')
    if en is None:
        ctx.lost('C08.5', 'Envelope::encrypt')
    else:
        rt = strip_sites(detry(TermBuilder(F, en).return_term()))
        u = m_call(rt, name='unwrap') or m_call(rt, name='expect')
        v = u[0] if u else rt
        a = m_call(v, name='encrypt_subject', self_suffix='Envelope')
        if a is None:
            # the same composition one delegation further down: encrypt_subject(x, k) = encrypt_subject_opt(x, k, None)
            a2 = m_call(v, name='encrypt_subject_opt', self_suffix='Envelope')
            es = F.method1('Envelope', 'encrypt_subject')
            if a2 is not None and len(a2) == 3 and strip_sites(a2[2])[0] == 'agg' and strip_sites(a2[2])[2] == 'None' and es is not None:
                want_ = expected_call(F, 'encrypt_subject_opt', P1, P2, NONE)
                if want_ is not None and same_mod_inline(F, TermBuilder(F, es).return_term(), want_):
                    a = (a2[0], a2[1])
        w = (m_call(a[0], name='wrap_envelope', self_suffix='Envelope') or m_call(a[0], name='new_wrapped')) if a else None
        if w is not None and w[0] == P1 and a[1] == P2:
            ctx.ok('C08.5', ctx.site(en), 'encrypt = encrypt_subject(wrap(self), key)', sample=fmt(rt))
        else:
            ctx.fail('C08.5', ctx.site(en), 'encrypt returns %s' % fmt(rt), key='C08.5|encrypt')
