"""C13 — compression round-trips and preserves digests."""
from ..lib import *
from ..terms import TermBuilder
from .. import obscure, codec

NEED_DEPS = True
REQUIRES = ['compress']
USES_QUERIES = True
EXPLANATION = (
    "FLOW/GUARD rules. C13.1: at the compress sink the payload is the serialisation of self and the declared digest is "
    "Some(digest(self)) (C02.2). C13.2: in uncompress the Ok exit is dominated by the passing edge of digest(decoded) == declared "
    "digest, with decoded = from_tagged_cbor_data(Compressed::uncompress(payload of self)?) and declared = the digest stored in the "
    "same Compressed; a missing digest and a non-compressed receiver are Err exits. C13.3: the already-compressed arm of compress "
    "returns self (idempotent). C13.4: the encrypted and elided arms of compress are Err exits reaching no sink. C13.5: decoded "
    "value wiring. C13.6: compress_subject / uncompress_subject are replace_subject(self, f(subject(self))) (or self when nothing "
    "to do). C13.8: uncompress rebuilds by decoding, so the assertion-or-obscured predicate table and the decoder-side C04.1/C04.4 obligations are re-evaluated here. C13.9: the Compress arm of the obscure-action dispatch is compress(self) (fallback self), so the per-case table also holds through elide_*_with_action. Does not decide DEFLATE/CRC behaviour on corrupt data.")
TRUSTED = ['Compressed::from_uncompressed_data stores its digest argument; digest_ref_opt/digest read it back', 'Compressed::uncompress checks a CRC-32']
FLOORS = {'C13.1': 1, 'C13.2': 2, 'C13.3': 1, 'C13.4': 2, 'C13.6': 3, 'C13.8': 12, 'C13.9': 1}


def check(ctx):
    F = ctx.F
    P1 = ('param', 1)
    obscure.check_sinks(ctx, 'C13.1', want=('compress',))
    # ---- compress(): per-case table (finite valuation of the case of self)
    check_compress_table(ctx, 'C13.3', 'C13.4')
    # ---- uncompress()
    u = F.method1('Envelope', 'uncompress')
    if u is None:
        ctx.lost('C13.2', 'Envelope::uncompress')
        return
    tb = TermBuilder(F, u)

    def is_payload(t):
        t = strip_sites(t)
        if t[0] == 'vfield' and t[2] == 'Compressed' and t[3] == '0':
            c = m_call(t[1], name='case', self_suffix='Envelope')
            return c is not None and c[0] == P1
        return False

    def is_decoded(t):
        t = detry(t)
        a = m_call(t, name='from_tagged_cbor_data') or m_call(t, name='try_from_cbor_data')
        if a is not None:
            x = m_call(detry(a[0]), name='uncompress', self_suffix='Compressed')
            return x is not None and is_payload(x[0])
        a = m_call(t, name='from_tagged_cbor')
        if a is not None:
            p = m_call(detry(a[0]), name='try_from_data')
            x = m_call(detry(p[0]), name='uncompress', self_suffix='Compressed') if p else None
            return x is not None and is_payload(x[0])
        return False

    def is_declared(t):
        t = detry(t)
        if t[0] == 'vfield' and t[2] == 'Some':
            t = t[1]
        for nm in ('digest_ref_opt', 'digest_opt', 'digest_ref', 'opt_digest'):
            a = m_call(t, name=nm)
            if a is not None and is_payload(a[0]):
                return True
        a = m_digest(t)
        return a is not None and is_payload(a)

    def guard(x):
        if x[0] != 'call' or call_name(x) not in ('eq', 'ne'):
            return False
        l, r = detry(x[2][0]), detry(x[2][1])
        dl, dr = m_digest(l), m_digest(r)
        return (dl is not None and is_decoded(dl) and is_declared(r)) or (dr is not None and is_decoded(dr) and is_declared(l))

    acc = accept_sites(u, tb)
    if not acc:
        ctx.lost('C13.2', 'accept exit of uncompress')
    for bi, si, t in acc:
        site = ctx.site(u, bi, si)
        v = detry(t[3][0]) if t[0] == 'agg' and t[2] == 'Ok' else detry(t)
        if is_decoded(v):
            ctx.ok('C13.5', site, 'accept value = from_tagged_cbor_data(uncompress(Compressed payload of self)?)', sample=fmt(v))
        else:
            ctx.fail('C13.5', site, 'uncompress returns %s, not the decoded content of self\'s compressed payload' % fmt(v), key='C13.5')
            continue
        gs = find_terms(u, tb, guard)
        if not gs:
            ctx.fail('C13.2', site, 'no comparison of digest(decoded) with the digest declared by the compressed element guards the Ok exit', key='C13.2|noguard')
            continue
        ok, info = guard_dominates(u, tb, [bi], guard, call_name(gs[0]) == 'eq')
        if ok:
            ctx.ok('C13.2', site, 'Ok exit dominated by digest(decoded) == declared digest; ' + info, sample=fmt(gs[0]))
        else:
            ctx.fail('C13.2', site, 'Ok exit not dominated by the digest check: ' + info, key='C13.2|dominance')
    # missing digest / not compressed are Err exits: no accept outside the Compressed arm with a declared digest
    sw = [x for x in switch_on(tb, u, lambda d: d[0] == 'discr' and m_call(d[1], name='case', self_suffix='Envelope') is not None)]
    if len(sw) == 1:
        regs = arm_regions(u, sw[0][0])
        variants = adt_variants(F, CASE)
        ci = variants.index('Compressed')
        tgt, reg = regs.get(ci, (None, set()))
        outside = [a for a in acc if a[0] not in reg]
        if outside:
            ctx.fail('C13.2', ctx.site(u, outside[0][0]), 'uncompress accepts a receiver that is not compressed', key='C13.2|notcompressed')
        else:
            ctx.ok('C13.2', ctx.site(u, sw[0][0]), 'every accept exit lies in the Compressed arm; other receivers end in Err')
    else:
        ctx.lost('C13.2', 'case dispatch in uncompress')
    # ---- C13.6 subject variants
    obscure.check_replace_subject(ctx, 'C13.6')
    def comp_subject(fname):
        def pred(v):
            if v == P1:
                return True
            a = m_call(v, name='replace_subject', self_suffix='Envelope')
            if a is None or a[0] != P1:
                return False
            inner = m_call(a[1], name=fname, self_suffix='Envelope')
            s = m_call(inner[0], name='subject', self_suffix='Envelope') if inner else None
            return s is not None and s[0] == P1
        return pred
    for name, f in (('compress_subject', 'compress'), ('uncompress_subject', 'uncompress')):
        mb = F.method1('Envelope', name)
        if mb is None:
            ctx.lost('C13.6', 'Envelope::' + name)
            continue
        mtb = TermBuilder(F, mb)
        for bi, si, t in accept_sites(mb, mtb):
            v = strip_sites(detry(t[3][0])) if t[0] == 'agg' and t[2] == 'Ok' else strip_sites(detry(t))
            if comp_subject(f)(v):
                ctx.ok('C13.6', ctx.site(mb, bi, si), '%s: self or replace_subject(self, %s(subject(self)))' % (name, f), sample=fmt(v))
            else:
                ctx.fail('C13.6', ctx.site(mb, bi, si), '%s returns %s' % (name, fmt(v)), key='C13.6|' + name)


def check_compress_table(ctx, inst_idem, inst_refuse):
    F = ctx.F
    P1 = ('param', 1)
    b = F.method1('Envelope', 'compress')
    if b is None:
        ctx.lost(inst_idem, 'Envelope::compress')
        return
    tb = TermBuilder(F, b)
    variants = adt_variants(F, CASE)
    from .. import accessors
    if not accessors.case_env(F, b, tb, 'Compressed', variants)[1]:
        ctx.fail(inst_idem, ctx.site(b), 'compress() does not decide on the case of self (it must be idempotent for a Compressed element, refuse Encrypted/Elided ones and compress every other case as a whole)', key=inst_idem + '|atoms')
        return
    for idx, vname in enumerate(variants):
        # the case of self fixed: through `match self.case()` or through the case predicates is_compressed(self) / is_elided(self) / ..
        reach = reach_under(b, tb, accessors.case_env(F, b, tb, vname, variants)[0])
        outs = set()
        for bi, si, t in ret_defs(tb):
            if bi not in reach:
                continue
            st = strip_sites(detry(t))
            if m_call(st, name='from_residual') is not None:
                continue
            val = st[3][0] if (st[0] == 'agg' and st[2] == 'Ok' and st[3]) else st
            if st[0] == 'agg' and st[2] == 'Err':
                outs.add('Err')
            elif st[0] == 'agg' and st[2] == 'Ok' and val == P1:
                outs.add('self')
            elif contains(val, lambda x: x[0] == 'call' and call_name(x) == 'from_uncompressed_data') and (
                    st[0] == 'agg' and st[2] == 'Ok' or (val[0] == 'call' and call_name(val) in ('new_with_compressed', 'try_into', 'try_from'))):
                # Ok(compressed(self)), or the Result of the checked constructor handed on as it is
                outs.add('compressed')
            else:
                outs.add('other:' + fmt(st)[:80])
        want = {'self'} if vname == 'Compressed' else {'Err'} if vname in ('Encrypted', 'Elided') else {'compressed'}
        inst = inst_idem if vname == 'Compressed' else inst_refuse if vname in ('Encrypted', 'Elided') else inst_idem + '/other'
        if outs == want:
            if vname in ('Compressed', 'Encrypted', 'Elided'):
                ctx.ok(inst, ctx.site(b), 'compress() on a %s element: %s' % (vname, sorted(outs)))
        else:
            ctx.fail(inst, ctx.site(b), 'compress() on a %s element gives %s, expected %s' % (vname, sorted(outs), sorted(want)), key='%s|%s' % (inst, vname))


_check_before_errflow = check


def check(ctx):
    _check_before_errflow(ctx)
    # C13.7 error discipline: no error of a fallible call is turned into "absent / false / default" outside the reviewed table
    from .. import errflow
    errflow.check(ctx, 'C13.7', ['src/extension/compress.rs', 'src/base/elide.rs'], 'compression / obscuring family')
    # C13.8: uncompress / uncompress_subject rebuild their result by decoding, so what compress accepted must be accepted back:
    # the assertion-or-obscured predicate table (compressed subjects included) and the constructors' image obligations at the
    # decoder's construction sites - the C05.5 / C05.6 instances re-evaluated here.
    from . import C04
    from .C07 import Relabel
    C04.check_predicates(Relabel(ctx, 'C13.8', ['C04.4/pred']))
    try:
        C04.check(Relabel(ctx, 'C13.8', ['C04.1', 'C04.4']))
    except Exception as e:
        ctx.fail('C13.8', '-', 'decoder-side obligations (C04.1/C04.4) could not be evaluated: %r' % e, key='C13.8|c04')
    # C13.9: the Compress action of the elide_*_with_action family is compress(self) itself (fallback: self), so the per-case
    # table judged above (already compressed -> unchanged) also holds for compression through that API
    from .. import obscure
    obscure.check_obscure_region(ctx, 'C13.9', arms=('Compress',))
