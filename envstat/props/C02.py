"""C02 — eliding, encrypting or compressing any part never changes any digest."""
from ..lib import *
from ..terms import TermBuilder
from .. import obscure, codec

NEED_DEPS = True
USES_QUERIES = True
EXPLANATION = (
    "FLOW/WHO/REC rules. C02.1: census of every digest-declaring sink (SymmetricKey::encrypt_with_digest, "
    "Compressed::from_uncompressed_data, callers of the Elided constructor). C02.2: at each sink the payload must be the "
    "serialisation of one envelope X (to_cbor_data(tagged_cbor(X)), or the hand-built to_tagged_value(TAG_ENVELOPE, U) where U "
    "is syntactically the encoder's own arm for that case) and the declared digest must be the digest of that same X. "
    "C02.3: the node arm of subject encryption returns node(encrypted(subject), the same node's assertions). C02.4: in the "
    "recursive obscuring routine every recursive exit rebuilds the same case from the recursive results in the same positions "
    "with target/mode/action passed unchanged; every other exit is self. C02.5: whole-envelope/subject variants are "
    "compositions (encrypt = encrypt_subject(wrap(self)); compress_subject = replace_subject(self, compress(subject(self))); "
    "replace_subject folds the receiver's assertions onto the new subject). With C01.2 this is the induction step "
    "'children keep their digests => parent keeps its digest'. Does not decide that AEAD/DEFLATE return the payload unchanged."
    " C02.6: the per-case table of compress() (the C13.3 / C13.4 instances). C02.3 also covers the replace_subject form: the subject is replaced by its own encoding encrypted under its own digest.")
TRUSTED = ['SymmetricKey::encrypt_with_digest stores its digest argument as AAD; Compressed::from_uncompressed_data stores its digest argument',
           'tagged_cbor(X) = to_tagged_value(first cbor_tag, untagged_cbor(X)) (dcbor default method)']
FLOORS = {'C02.2': 9, 'C02.4': 4, 'C02.5': 3}


def check(ctx):
    F = ctx.F
    obscure.check_sinks(ctx, 'C02.2')
    obscure.check_obscure_region(ctx, 'C02.2/action')
    obscure.check_elide_primitive(ctx, 'C02.2/action')
    obscure.check_subject_encrypt_node(ctx, 'C02.3')
    obscure.check_rebuild(ctx, 'C02.4', 'C02.4/rec')
    # ---- C02.5 compositions
    P1 = ('param', 1)
    def expect(inst, name, pred, desc, feature=None):
        if feature and not ctx.has(feature):
            ctx.skip(inst, '%s compiled out' % name)
            return
        b = F.method1('Envelope', name)
        if b is None:
            ctx.lost(inst, 'Envelope::' + name)
            return
        tb = TermBuilder(F, b)
        acc = accept_sites(b, tb)
        okn = 0
        for bi, si, t in acc:
            v = t[3][0] if t[0] == 'agg' and t[2] in ('Ok', 'Some') else t
            v = detry(v)
            if pred(strip_sites(v)):
                okn += 1
                ctx.ok(inst, ctx.site(b, bi, si), '%s: %s' % (name, desc), sample=fmt(v))
            else:
                ctx.fail(inst, ctx.site(b, bi, si), '%s returns %s; expected %s' % (name, fmt(v), desc), key='%s|%s' % (inst, name))
        if not acc:
            ctx.lost(inst, 'accept exit of ' + name)

    def is_subject_of_self(t):
        a = m_call(t, name='subject', self_suffix='Envelope')
        return a is not None and a[0] == P1

    def comp_subject(fname):
        def pred(v):
            if v == P1:
                return True
            a = m_call(v, name='replace_subject', self_suffix='Envelope')
            if a is None or a[0] != P1:
                return False
            inner = m_call(a[1], name=fname, self_suffix='Envelope')
            return inner is not None and is_subject_of_self(inner[0])
        return pred
    expect('C02.5', 'compress_subject', comp_subject('compress'), 'self or replace_subject(self, compress(subject(self)))', 'compress')
    expect('C02.5', 'uncompress_subject', comp_subject('uncompress'), 'self or replace_subject(self, uncompress(subject(self)))', 'compress')
    def enc_pred(v):
        u = m_call(v, name='unwrap') or m_call(v, name='expect')
        if u is not None:
            v = u[0]
        a = m_call(v, name='encrypt_subject', self_suffix='Envelope')
        if a is None:
            # one delegation further down: encrypt_subject(x, k) is encrypt_subject_opt(x, k, None) (judged just below)
            a = m_call(v, name='encrypt_subject_opt', self_suffix='Envelope')
            if a is None or len(a) != 3 or not (strip_sites(a[2])[0] == 'agg' and strip_sites(a[2])[2] == 'None'):
                return False
        w = m_call(a[0], name='wrap_envelope', self_suffix='Envelope') or m_call(a[0], name='new_wrapped')
        return w is not None and w[0] == P1
    expect('C02.5', 'encrypt', enc_pred, 'encrypt_subject(wrap(self), key)', 'encrypt')
    obscure.check_replace_subject(ctx, 'C02.5')
    # encrypt_subject delegates to encrypt_subject_opt unchanged
    if ctx.has('encrypt'):
        b = F.method1('Envelope', 'encrypt_subject')
        if b is not None:
            tb = TermBuilder(F, b)
            rt = strip_sites(tb.return_term())
            a = m_call(rt, name='encrypt_subject_opt', self_suffix='Envelope')
            if a is not None and a[0] == P1 and a[1] == ('param', 2):
                ctx.ok('C02.5', ctx.site(b), 'encrypt_subject = encrypt_subject_opt(self, key, None)')
            else:
                ctx.fail('C02.5', ctx.site(b), 'encrypt_subject returns %s' % fmt(rt), key='C02.5|encrypt_subject')
    # C02.6: whole-envelope compress keeps the digest of the element it replaces: the per-case table of compress() (Compressed -> self,
    # Encrypted / Elided -> refusal, every other case -> the case itself compressed under its own digest; C13.3 / C13.4) under this property
    if ctx.has('compress'):
        from .C13 import check_compress_table
        check_compress_table(ctx, 'C02.6', 'C02.6')
