"""C17 — salting decorrelates without changing content."""
from ..lib import *
from ..terms import TermBuilder
from .C09 import const_name
from . import C04

REQUIRES = ['salt']
USES_QUERIES = True
USES_KNOWN_VALUES = True
EXPLANATION = (
    "FLOW/TABLE/WHO rules. C17.1: add_salt_instance = add_assertion(self, 'salt', salt): one assertion, subject and other assertions "
    "untouched (with C04/C07). C17.2: the proportional form passes len(to_cbor_data(tagged_cbor(self))) - the size of the WHOLE envelope - "
    "to Salt::new_for_size_using. C17.3: every public salting entry point that takes no RNG passes a freshly constructed "
    "SecureRandomNumberGenerator to its _using sibling (census of RNG values reaching Salt::new_*_using). C17.4: the length/range forms "
    "pass the caller's value unchanged to Salt::new_with_len_using / new_in_range_using and propagate the refusal with `?`. C17.5: in the "
    "salted add, the inserted envelope is add_salt(assertion) iff salted, else the assertion; the duplicate test and the validity test of "
    "C04.3/C04.4 apply to the very element inserted (so a salted add is not suppressed by an equal unsalted assertion). C17.6: a salted assertion is still found by its predicate - the C15.5 lookup rules (filter on subject(a)) re-evaluated here. C17.7: add_assertions_salted is the unconditional left fold of add_assertion_envelope_salted(acc, a, salted) over every listed assertion. Does not decide the "
    "documented length range / >= 8 refusal (inside bc_components::Salt) nor distinctness across invocations (randomness)."
    " C17.8: add_assertion_envelope_salted = add_optional_assertion_envelope_salted(self, Some(a), salted), and add_assertion_salted is a salted adder over (self, new_assertion(predicate, object), salted).")
TRUSTED = ['Salt::new_for_size_using / new_with_len_using / new_in_range_using implement the documented length rules',
           'SecureRandomNumberGenerator is the OS CSPRNG']
FLOORS = {'C17.1': 1, 'C17.2': 1, 'C17.3': 3, 'C17.4': 6, 'C17.5': 2, 'C17.6': 4, 'C17.7': 1, 'C17.8': 2}
P1, P2, P3 = ('param', 1), ('param', 2), ('param', 3)


def is_secure_rng(t):
    t = strip_sites(t)
    return t[0] == 'agg' and t[1].endswith('SecureRandomNumberGenerator')


def check(ctx):
    F = ctx.F
    # C17.1
    b = F.method1('Envelope', 'add_salt_instance')
    if b is None:
        ctx.lost('C17.1', 'Envelope::add_salt_instance')
    else:
        rt = strip_sites(TermBuilder(F, b).return_term())
        a = m_call(rt, name='add_assertion', self_suffix='Envelope')
        if a is not None and a[0] == P1 and const_name(a[1]) == 'SALT' and (a[2] == P2 or a[2] == ('env', P2)):
            ctx.ok('C17.1', ctx.site(b), 'add_salt_instance = add_assertion(self, \'salt\', salt)', sample=fmt(rt))
        else:
            ctx.fail('C17.1', ctx.site(b), 'add_salt_instance is %s' % fmt(rt), key='C17.1')
    # C17.2 + all Salt constructor call sites
    sites = F.call_sites(lambda c: c.is_method('Salt', c.name) and c.name.startswith('new_') and c.krate == 'bc_components')
    if not sites:
        ctx.lost('C17.2', 'no Salt::new_* call')
    for bb, bi, c, t in sites:
        tb = TermBuilder(F, bb)
        a = [strip_sites(detry(x)) for x in tb.call_args(bi)]
        site = ctx.site(bb, bi)
        if c.name == 'new_for_size_using':
            sz = a[0]
            ln = sz[2][0] if sz[0] == 'call' and call_name(sz) == 'len' else (sz[1] if sz[0] == 'len' else None)
            d = m_call(ln, name='to_cbor_data') if ln else None
            tc = m_call(d[0], name='tagged_cbor') if d else None
            if tc is not None and tc[0] == P1:
                ctx.ok('C17.2', site, 'salt sized from len(to_cbor_data(tagged_cbor(self))): the whole envelope', sample=fmt(sz))
            else:
                ctx.fail('C17.2', site, 'proportional salt is sized from %s, not from the serialized size of the whole envelope' % fmt(sz), key='C17.2|size')
            if a[1] != P2:
                ctx.fail('C17.3', site, 'RNG passed to Salt::new_for_size_using is %s, not the caller\'s' % fmt(a[1]), key='C17.3|rngpass|' + bb.path)
        elif c.name in ('new_with_len_using', 'new_in_range_using'):
            if a[0] == P2 and a[1] == P3:
                ctx.ok('C17.4', site, 'caller\'s %s passed unchanged to Salt::%s' % ('length' if 'len' in c.name else 'range', c.name))
            else:
                ctx.fail('C17.4', site, 'Salt::%s receives %s' % (c.name, [fmt(x) for x in a]), key='C17.4|args|' + c.name)
            # refusal propagated with `?`: the raw result is consumed only by Try::branch
            v = tb.call_value(bi)
            used_try = False
            for bi2, si2, t2 in ret_defs(tb):
                if m_call(t2, name='from_residual') is not None and contains(t2, lambda x: strip_sites(x) == strip_sites(v)):
                    used_try = True
            unwraps = [1 for bi2, c2, t2 in bb.calls() if c2 is not None and c2.name in ('unwrap', 'expect', 'unwrap_or', 'unwrap_or_default', 'unwrap_or_else') and contains(tb.call_args(bi2)[0], lambda x: strip_sites(x) == strip_sites(v))]
            mapped = False
            if not used_try and not unwraps:
                # `ctor(..).map(|salt| ..)` / `and_then` handed back as the result: the Err of the constructor is the Err of the function
                from .. import errflow
                try:
                    mapped = errflow.classify(F, bb, tb, bi)[0] == 'propagate'
                except Exception:
                    mapped = False
            if (used_try or mapped) and not unwraps:
                ctx.ok('C17.4', site, 'a refused request (too short) is propagated (`?`, or the constructor\'s Result mapped and returned)')
            else:
                ctx.fail('C17.4', site, 'the refusal of Salt::%s is not propagated (unwrap/clamp instead of `?`)' % c.name, key='C17.4|propagate|' + c.name)
        else:
            # non-_using constructors draw their own secure randomness
            ctx.ok('C17.3', site, 'Salt::%s (self-seeding)' % c.name, nontrivial=False)
    # C17.4 role anchor: each public length / range entry point hands the caller's request to the Salt constructor that
    # enforces the documented rule for that kind of request (a drawn length validated afterwards is not the same refusal)
    for name, ctor in (('add_salt_with_len_using', 'new_with_len_using'), ('add_salt_in_range_using', 'new_in_range_using')):
        eb = F.method1('Envelope', name)
        if eb is None:
            ctx.lost('C17.4', 'Envelope::' + name)
            continue
        etb = TermBuilder(F, eb)
        rt = strip_sites(detry(etb.return_term()))
        def expand_map(t, depth=0):
            # r.map(|v| f(v)) / r.and_then(..) read as f(payload of r): the success value, failures handed on
            if not isinstance(t, tuple) or not t or depth > 3:
                return t
            if t[0] == 'call' and call_name(t) in ('map', 'and_then') and len(t[2]) == 2 and t[2][1][0] == 'closure':
                cv = closure_value(t[2][1], {('param', 2): strip_sites(detry(t[2][0]))})
                if cv is not None:
                    return expand_map(strip_sites(detry(cv)), depth + 1)
            return tuple(expand_map(x, depth) if isinstance(x, tuple) else x for x in t)
        rt = expand_map(rt)
        want = [x for x in walk(rt) if isinstance(x, tuple) and x and x[0] == 'call' and call_name(x) == ctor and CALLEES.get(x[1]) is not None and CALLEES[x[1]].is_method('Salt', ctor)]
        inst_ok = [x for x in want if len(x[2]) == 2 and x[2][0] == P2 and x[2][1] == P3]
        asi = [x for x in walk(rt) if isinstance(x, tuple) and x and x[0] == 'call' and call_name(x) == 'add_salt_instance']
        if inst_ok and asi and any(contains(a_, lambda y: y == inst_ok[0]) for a_ in asi):
            ctx.ok('C17.4', ctx.site(eb), '%s = add_salt_instance(self, Salt::%s(request, rng)?)' % (name, ctor))
        else:
            ctx.fail('C17.4', ctx.site(eb), '%s does not salt with Salt::%s(the caller\'s request, the caller\'s rng): %s' % (name, ctor, fmt(rt)[:300]), key='C17.4|role|' + name)
    # C17.3: entry points without RNG parameter pass a fresh SecureRandomNumberGenerator
    for name, sib in (('add_salt', 'add_salt_using'), ('add_salt_with_len', 'add_salt_with_len_using'), ('add_salt_in_range', 'add_salt_in_range_using')):
        b = F.method1('Envelope', name)
        if b is None:
            ctx.lost('C17.3', 'Envelope::' + name)
            continue
        rt = strip_sites(TermBuilder(F, b).return_term())
        a = m_call(rt, name=sib, self_suffix='Envelope')
        if a is not None and a[0] == P1 and is_secure_rng(a[-1]) and all(a[i] == ('param', i + 1) for i in range(len(a) - 1)):
            ctx.ok('C17.3', ctx.site(b), '%s = %s(self, .., fresh SecureRandomNumberGenerator)' % (name, sib))
        else:
            ctx.fail('C17.3', ctx.site(b), '%s is %s: not its _using sibling over a fresh SecureRandomNumberGenerator' % (name, fmt(rt)), key='C17.3|' + name)
    # C17.5 salted add
    b = F.method1('Envelope', 'add_optional_assertion_envelope_salted')
    if b is None:
        ctx.lost('C17.5', 'Envelope::add_optional_assertion_envelope_salted')
        return
    tb = TermBuilder(F, b)
    node_sites = []
    for bi, c, t in b.calls():
        if c is None:
            continue
        v = tb.call_value(bi)
        from .. import codec
        if v[0] == 'call' and len(v[2]) == 2 and codec.ctor_variants(F, v) == {'Node'}:
            node_sites.append((bi, v))
    if not node_sites:
        ctx.lost('C17.5', 'node construction in the salted add')
    for bi, v in node_sites:
        vec = strip_sites(v[2][1])
        new = None
        if vec[0] == 'list' and len(vec[1]) == 1:
            new = vec[1][0]
        elif vec[0] == 'mut' and call_name(vec) == 'push':
            new = vec[3][1]
        else:
            pr = seq_norm(v[2][1], b, bi)
            ones_ = [x for k_, x in (pr or []) if k_ == 'one']
            if len(ones_) == 1:
                new = ones_[0]
        site = ctx.site(b, bi)
        if new is None:
            ctx.fail('C17.5', site, 'cannot identify the inserted element: %s' % fmt(vec), key='C17.5|form')
            continue
        # table over `salted` (param 3): the element inserted at this site, built only from the definitions on the paths of each
        # valuation, is exactly add_salt(assertion) when salted and exactly the assertion when not - for EVERY kind of assertion
        # (plain, obscured), i.e. no other alternative may be live
        A = ('vfield', P2, 'Some', '0')
        rows = {}
        for sv in (False, True):
            got = None
            for bj, c2, args in calls_under(b, tb, {P3: sv}):
                if bj != bi:
                    continue
                v2 = strip_sites(args[1])
                if v2[0] == 'list' and len(v2[1]) == 1:
                    got = v2[1][0]
                elif v2[0] == 'mut' and call_name(v2) == 'push':
                    got = v2[3][1]
                else:
                    pr = seq_norm(args[1])
                    ones_ = [x for k_, x in (pr or []) if k_ == 'one']
                    if len(ones_) == 1:
                        got = ones_[0]
            rows[sv] = got
        def salted_form(x):
            s_ = m_call(x, name='add_salt', self_suffix='Envelope') if x is not None else None
            return s_ is not None and s_[0] == A
        if rows[False] == A and salted_form(rows[True]):
            ctx.ok('C17.5', site, 'inserted element = add_salt(assertion) when salted (whatever the assertion is), the assertion itself when not (table over `salted`)', sample=fmt(new))
        else:
            ctx.fail('C17.5', site, 'inserted element is %s for salted=false and %s for salted=true (expected the assertion / add_salt(assertion))' % (
                fmt(rows[False]) if rows[False] is not None else 'unreachable', fmt(rows[True]) if rows[True] is not None else 'unreachable'), key='C17.5|table')
        if vec[0] == 'mut' and call_name(vec) == 'push':
            # duplicate test must be about the very element inserted (C04.3 at this site)
            C04.growth(ctx_proxy(ctx, 'C17.5'), b, tb, bi, vec[3][0], new, site)


class ctx_proxy:
    """Re-label C04 instances when reused from C17."""
    def __init__(self, ctx, inst):
        self.ctx, self.inst = ctx, inst
        self.F = ctx.F
    def ok(self, inst, site, detail, **kw):
        self.ctx.ok(self.inst + '/dup', site, detail, **kw)
    def fail(self, inst, site, detail, key=None, **kw):
        self.ctx.fail(self.inst + '/dup', site, detail, key=(self.inst + '|' + (key or detail)), **kw)


_check_core = check


def check(ctx):
    _check_core(ctx)
    # C17.6: "adding an assertion as salted adds that assertion, still found by its predicate": a salted assertion is a node whose
    # subject is the assertion, so the predicate lookups must look at subject(a) of each assertion element - the C15.5 instances
    # (lookup filter and the single-result table) re-evaluated under this property.
    from . import C15
    from .C07 import Relabel
    try:
        C15.check(Relabel(ctx, 'C17.6', ['C15.5']))
    except Exception as e:
        ctx.fail('C17.6', '-', 'predicate lookup rules (C15.5) could not be evaluated: %r' % e, key='C17.6|c15')
    # C17.7: the batch entry point adds EVERY listed assertion through the single salted add (each to the envelope that already carries
    # the earlier ones, same `salted` flag): a left fold with an unconditional step - nothing is skipped, so equal assertions of one
    # batch are each added with their own salt
    F = ctx.F
    P1, P2, P3 = ('param', 1), ('param', 2), ('param', 3)
    b = F.method1('Envelope', 'add_assertions_salted')
    if b is None:
        ctx.lost('C17.7', 'Envelope::add_assertions_salted')
    else:
        tb = TermBuilder(F, b)
        ff = fold_form(F, b, tb)
        good = False
        if ff is not None:
            init, step, accm = ff
            st = strip_sites(detry(step))
            u = m_call(st, name='unwrap') or m_call(st, name='expect')
            if u is not None:
                st = strip_sites(detry(u[0]))
            a = m_call(st, name='add_assertion_envelope_salted', self_suffix='Envelope')
            init_ok = strip_sites(init) == P1 or (m_call(init, name='clone') is not None and strip_sites(m_call(init, name='clone')[0]) == P1)
            if a is not None and len(a) == 3 and init_ok and strip_sites(a[0]) == accm and strip_sites(a[2]) == P3:
                x = strip_sites(a[1])
                while x[0] == 'call' and call_name(x) in ('clone', 'deref', 'borrow') and len(x[2]) == 1:
                    x = strip_sites(x[2][0])
                good = x[0] == 'elem' and strip_sites(elem_source(x[1]) if x[1][0] != 'param' else x[1]) == P2
        if good:
            ctx.ok('C17.7', ctx.site(b), 'add_assertions_salted = fold(assertions, self, |acc, a| add_assertion_envelope_salted(acc, a, salted)), the step taken for every element', sample=fmt(ff[1]))
        else:
            ctx.fail('C17.7', ctx.site(b), 'add_assertions_salted is not the unconditional fold of the single salted add over every listed assertion (an element is skipped, added '
                     'to the wrong envelope, or with another flag): %s' % fmt(strip_sites(tb.return_term()))[:300], key='C17.7|batch')
    # C17.8: the salted / unsalted switch reaches the core adder: add_assertion_envelope_salted(a, salted) =
    # add_optional_assertion_envelope_salted(self, Some(a), salted) (the flag is the salt switch of C17.5, never the add condition:
    # "an unsalted add stays deterministic" still adds)
    b = F.method1('Envelope', 'add_assertion_envelope_salted')
    if b is None:
        ctx.lost('C17.8', 'Envelope::add_assertion_envelope_salted')
    else:
        rt = strip_sites(detry(TermBuilder(F, b).return_term()))
        a = m_call(rt, name='add_optional_assertion_envelope_salted', self_suffix='Envelope')
        some = strip_sites(a[1]) if a is not None else None
        if a is not None and strip_sites(a[0]) == P1 and some[0] == 'agg' and some[2] == 'Some' and strip_sites(some[3][0]) == P2 and strip_sites(a[2]) == P3:
            ctx.ok('C17.8', ctx.site(b), 'add_assertion_envelope_salted = add_optional_assertion_envelope_salted(self, Some(assertion), salted)')
        else:
            ctx.fail('C17.8', ctx.site(b), 'add_assertion_envelope_salted is %s, not the core salted adder over (self, Some(assertion), salted)' % fmt(rt)[:200], key='C17.8|delegation')
    # ... and so does the generic form: add_assertion_salted(p, o, salted) = <a salted adder>(self, [Some] new_assertion(p, o), salted),
    # unwrapped - it has no salt sizing of its own
    b = F.method1('Envelope', 'add_assertion_salted')
    if b is None:
        ctx.lost('C17.8', 'Envelope::add_assertion_salted')
    else:
        tb = TermBuilder(F, b)
        P4 = ('param', 4)
        def adder_ok(rt, flag):
            rt = strip_sites(detry(rt))
            u = m_call(rt, name='unwrap') or m_call(rt, name='expect')
            rt2 = strip_sites(detry(u[0])) if u else rt
            def the_assertion(x):
                x = strip_sites(x)
                if x[0] == 'agg' and x[2] == 'Some':
                    x = strip_sites(x[3][0])
                na = m_call(x, name='new_assertion')
                return na is not None and contains(na[0], lambda y: y == P2) and contains(na[1], lambda y: y == P3)
            a = m_call(rt2, name='add_optional_assertion_envelope_salted', self_suffix='Envelope') or m_call(rt2, name='add_assertion_envelope_salted', self_suffix='Envelope')
            if a is not None:
                fl = strip_sites(a[2])
                return strip_sites(a[0]) == P1 and the_assertion(a[1]) and (fl == P4 or (flag is not None and fl == ('bool', flag)))
            if flag is False:
                # the unsalted half written out: the plain adder over the same assertion
                a = m_call(rt2, name='add_assertion_envelope', self_suffix='Envelope') or m_call(rt2, name='add_optional_assertion_envelope', self_suffix='Envelope')
                return a is not None and strip_sites(a[0]) == P1 and the_assertion(a[1])
            return False
        rt = strip_sites(detry(tb.return_term()))
        good = adder_ok(rt, None)
        if not good:
            # the same thing written as a branch on the flag: judged per value of `salted`
            good = True
            for v in (True, False):
                outs = [t for bi, si, t in ret_values_under(b, tb, {P4: v})]
                if not outs or not all(adder_ok(t, v) for t in outs):
                    good = False
        if good:
            ctx.ok('C17.8', ctx.site(b), 'add_assertion_salted = salted adder(self, new_assertion(predicate, object), salted)')
        else:
            ctx.fail('C17.8', ctx.site(b), 'add_assertion_salted is %s, not a salted adder over (self, new_assertion(predicate, object), salted)' % fmt(rt)[:220], key='C17.8|generic')
