"""C20 — global registries and formatting are safe under concurrent use."""
import os, shutil, subprocess, tempfile
from ..lib import *
from ..terms import TermBuilder
from .. import lock, panic, extract

NEED_DEPS = True
QUICK_CONFIGS = ['mt', 'default']
THOROUGH_CONFIGS = ['mt', 'default', 'none'] + ['only-' + f for f in extract.ALL_FEATURES]
EXPLANATION = (
    "LOCK/TYPE/PANIC/WHO rules over the MIR of bc-envelope, dcbor and bc-components. Resources: each lazily initialised process-wide "
    "store (Once + Mutex<Option<T>>): FC, KV, GF, GP in this crate, TAGS in dcbor. An acquisition is a call of a store accessor (or a "
    "direct lock of its mutex field); the guard's live range runs to its Drop in MIR. For every call inside a live range the callee's "
    "transitive acquisition summary (through crate and dependency bodies, closures, and - for indirect calls - every tag-summariser "
    "callback that can be registered in the store in use) yields edges held -> acquired; code in a call_once initialiser holds the "
    "store's Once. C20.2: no re-entrant edge X -> X; the graph is acyclic after Once-gating (an edge into X.data that occurs only inside "
    "X's own initialiser is dropped, provided X.data is locked nowhere but in X's accessor); no initialiser reaches its own accessor. "
    "C20.3: no undischarged panic-capable site (C16 ledger) in crate code executed while a global guard or Once is held (so no lock is "
    "ever poisoned); the stores' initial contents are constants of the Known kind. C20.4: every accessor stores Some(..) inside call_once "
    "before returning. C20.1: no unsafe code, no static mut, store fields touched only by the accessor; the global context is taken "
    "mutably only by register_tags. C20.5: compile witnesses - with `multithreaded` Envelope/Assertion/FormatContext: Send + Sync "
    "type-checks; without it `Envelope: Send` fails with E0277. C20.6: a value written through a store guard is never computed from the same store's content read under a different acquisition (no copy-out / write-back update). C20.7: the global format context is never acquired inside a loop or a per-element closure (one rendering = one guard = one state of the context). C20.8: every public text-returning function that reaches dcbor's global tag store by a route that reads tag names (not the value-only cbor_tags / tags_for_values lookups) also goes through the crate's format context, whose first use registers the envelope tags there. Does not decide which text a formatting call returns while another thread "
    "is inside register_tags (run-time content), nor liveness beyond lock order.")
TRUSTED = ['std::sync::Mutex / Once semantics', 'rustc Send/Sync checking', 'dcbor and bc-components bodies as compiled (their MIR is analysed for locks, not for panics)']
FLOORS = {'C20.1': 3, 'C20.2': 3, 'C20.3': 2, 'C20.4': 4, 'C20.5': 1, 'C20.6': 1, 'C20.7': 1}


def check(ctx):
    F = ctx.F
    D, B = ctx.dep('dcbor'), ctx.dep('bc_components')
    mt = ctx.has('multithreaded')
    # ---------------- C20.1
    us = [u for u in F.unsafe if not (u['span'].get('exp') and u['span'].get('mac') in ('Clone', 'Copy', 'Debug', 'PartialEq', 'Eq', 'Hash', 'Default'))]
    if us:
        for u in us:
            ctx.fail('C20.1', '%s:%s' % (u['span']['file'], u['span']['line']), '%s in library code' % u['what'], key='C20.1|%s|%s' % (u['what'], u['span']['file']))
    else:
        ctx.ok('C20.1', '-', 'no unsafe block/fn/impl and no static mut in the crate (%d derive-generated marker impls ignored)' % (len(F.unsafe) - len(us)))
    muts = [s_ for s_ in F.statics if s_['mut']]
    for s_ in muts:
        ctx.fail('C20.1', '%s:%s' % (s_['span']['file'], s_['span']['line']), 'static mut %s' % s_['path'], key='C20.1|staticmut|' + s_['path'])
    # every static that can change after start-up is one of the lazily initialised stores analysed below: a flag, counter or cache
    # in another static is shared state with its own races (e.g. a "registered" flag raised before the registration it stands for)
    lazy_paths = {a['path'] for a in F.adts if a['path'].split('::')[-1].startswith('Lazy')}
    SHARED_MARKERS = ('Atomic', 'Mutex', 'RwLock', 'Once', 'Cell', 'LazyLock', 'LazyCell', 'Condvar', 'Barrier')
    nstat = 0
    for s_ in F.statics:
        nstat += 1
        ty = s_['ty']
        if ty in lazy_paths:
            continue
        if any(m in ty for m in SHARED_MARKERS):
            ctx.fail('C20.1', '%s:%s' % (s_['span']['file'], s_['span']['line']), 'static %s of type %s is shared mutable state outside the lazily initialised stores: its updates are not covered by any store\'s Once/Mutex discipline' % (
                s_['path'].split('::')[-1], ty), key='C20.1|sharedstatic|' + s_['path'].split('::')[-1])
    ctx.ok('C20.1', '-', '%d statics, each a lazily initialised store (Once + Mutex<Option<T>>) or immutable data' % nstat, nontrivial=nstat > 0)
    # store fields touched only inside the accessor
    lazy = [a for a in F.adts if a['path'].split('::')[-1].startswith('Lazy')]
    nfield = 0
    for b in F.bodies:
        if b.span and b.span.get('exp') and b.span.get('mac') in ('Debug', 'Clone', 'Default'):
            continue      # derive-generated, read-only
        owner = b
        if b.dk == 'Closure' and b.closure_parent:
            owner = F.by_path.get(b.closure_parent, b)
        is_acc = lock.is_accessor(owner)
        for bi, bl in enumerate(b.blocks):
            places = []
            for st in bl['stmts']:
                if st['k'] == 'assign':
                    places.append(st['place'])
                    rv = st['rv']
                    if 'place' in rv:
                        places.append(rv['place'])
            for pl in places:
                cur = b.local_ty(pl['l'])
                for e in pl['p']:
                    if isinstance(e, dict) and 'f' in e:
                        if any(ty_matches(cur, a['path'].split('::')[-1]) and a['path'].split('::')[0] in cur for a in lazy):
                            nfield += 1
                            if not is_acc and b.dk != 'Closure' or (not is_acc and not (b.dk == 'Closure' and lock.is_accessor(owner))):
                                ctx.fail('C20.1', ctx.site(b, bi), 'field %s of a lazy store is accessed outside its accessor' % e.get('name'), key='C20.1|field|' + b.path)
                        cur = e['ty']
    if lazy:
        ctx.ok('C20.1', '-', '%d field accesses to the %d lazy stores, all inside their accessors' % (nfield, len(lazy)), nontrivial=nfield > 0)
    # the global context is taken mutably only by register_tags
    mut_users = []
    for b in F.bodies:
        tb = TermBuilder(F, b)
        for bi, c, t in b.calls():
            if c is not None and c.name in ('as_mut', 'deref_mut', 'as_deref_mut', 'insert', 'replace', 'take', 'get_or_insert_with'):
                a = tb.call_args(bi)
                a0 = strip_sites(a[0]) if a else None
                g = callee_of(a[0]) if a else None
                if g is not None and g.name == 'get' and 'LazyFormatContext' in (g.self_ty or g.raw.get('impl_self') or ''):
                    mut_users.append((b, bi))
    bad = [(b, bi) for b, bi in mut_users if b.name != 'register_tags']
    for b, bi in bad:
        ctx.fail('C20.1', ctx.site(b, bi), 'the process-wide format context is mutated by %s: concurrent formatting calls can observe the change (only register_tags may take it mutably)' % b.name,
                 key='C20.1|fcmut|' + b.path)
    if mut_users and not bad:
        ctx.ok('C20.1', ctx.site(mut_users[0][0], mut_users[0][1]), 'the global format context is taken mutably only by register_tags (%d site)' % len(mut_users))
    elif not mut_users and ctx.config == 'mt':
        ctx.lost('C20.1', 'positive control: register_tags taking the context mutably')
    # ---------------- C20.2 lock graph
    G, edges, lrs = lock.build(ctx, [F, D, B])
    ctx.count('lock_edges', len(edges))
    ctx.count('guard_live_ranges', len(lrs))
    res = sorted(set(G.accessors.values()))
    if 'TAGS' not in res or 'FC' not in res:
        ctx.lost('C20.2', 'store accessors (found %s)' % res)
        return
    # WHO: X.data locked only in X's accessor
    who_ok = {}
    for FF in G.facts:
        for b in FF.bodies:
            for bi, c, t in b.calls():
                X = G.mutex_field_lock(FF, b, bi)
                if X:
                    owner = b
                    if b.dk == 'Closure' and b.closure_parent:
                        owner = FF.by_path.get(b.closure_parent, b)
                    who_ok.setdefault(X, True)
                    if not lock.is_accessor(owner):
                        who_ok[X] = False
    reent = [e for e in edges if e['held'] == e['acq']]
    for e in reent:
        ctx.fail('C20.2', e['where'], 're-entrant acquisition of %s while it is held (std Mutex is not re-entrant: self-deadlock) via %s' % (e['held'], ' > '.join(x.split('::')[-1] for x in e['witness'])),
                 key='C20.2|reentrant|%s' % e['held'])
    if not reent:
        ctx.ok('C20.2', '-', 'no re-entrant edge among %d held->acquired edges over %s' % (len(edges), res))
    gated = []
    kept = []
    for e in edges:
        X = e['acq'].split('.')[0]
        if e['inside_once'] == X and e['acq'].endswith('.data') and who_ok.get(X, False):
            gated.append(e)
        else:
            kept.append(e)
    cyc = sorted(lock.find_cycles(kept), key=len)
    if len(cyc) > 3:
        ctx.count('further_cycles_not_listed', len(cyc) - 3)
    for c in cyc[:3]:
        wit = []
        for i in range(len(c) - 1):
            ee = [e for e in kept if e['held'] == c[i] and e['acq'] == c[i + 1]][0]
            wit.append('%s->%s at %s' % (c[i], c[i + 1], ee['where']))
        ctx.fail('C20.2', wit[0].split(' at ')[1], 'lock-order cycle %s (not removed by Once gating): %s' % (' -> '.join(c), '; '.join(wit)), key='C20.2|cycle|' + '>'.join(sorted(set(c))))
    if not cyc:
        ctx.ok('C20.2', '-', 'lock-order graph acyclic after Once-gating (%d gated edges into a store\'s own data from inside its initialiser; raw cycles before gating: %d)' % (len(gated), len(lock.find_cycles(edges))),
               sample=sorted({'%s->%s%s' % (e['held'], e['acq'], ' [init %s]' % e['inside_once'] if e['inside_once'] else '') for e in edges}))
    for X, ok_ in who_ok.items():
        if not ok_:
            ctx.fail('C20.2', '-', '%s.data is locked outside its accessor: Once gating does not apply' % X, key='C20.2|who|' + X)
    # declared hierarchy. Every store hands its MutexGuard to callers (GLOBAL_FUNCTIONS.get(), with_format_context!, ..), so a thread
    # may hold any one of them while it calls into the library. Acyclicity of the library's own edges is then not enough: outside the
    # one-time initialisers the library itself may nest data locks only along the declared order (format context, then dcbor's tag
    # store); any other nesting X -> Y deadlocks against a thread that holds Y and formats.
    DECLARED = {('FC.data', 'TAGS.data')}
    undeclared = {}
    for e in edges:
        if e['inside_once'] is None and e['held'].endswith('.data') and e['acq'].endswith('.data') and e['held'] != e['acq'] and (e['held'], e['acq']) not in DECLARED:
            undeclared.setdefault((e['held'], e['acq']), e)
    for (h_, a_), e in sorted(undeclared.items()):
        ctx.fail('C20.2', e['where'], 'lock nesting %s -> %s outside the declared hierarchy %s (via %s): a thread holding the %s guard that formats / looks up deadlocks against it'
                 % (h_, a_, sorted(DECLARED), ' > '.join(x.split('::')[-1] for x in e['witness'][-3:]), a_.split('.')[0]), key='C20.2|undeclared|%s>%s' % (h_, a_))
    if not undeclared:
        ctx.ok('C20.2', '-', 'outside the initialisers the only nesting of global data locks is the declared one %s' % sorted(DECLARED))
    # no initialiser reaches its own accessor
    selfinit = [e for e in edges if e['held'].endswith('.once') and e['acq'].split('.')[0] == e['held'].split('.')[0] and any(w.endswith('::get') for w in e['witness'][1:])]
    for e in selfinit:
        ctx.fail('C20.2', e['where'], 'the initialiser of %s calls its own accessor (call_once would deadlock)' % e['held'].split('.')[0], key='C20.2|selfinit|' + e['held'])
    if not selfinit:
        ctx.ok('C20.2', '-', 'no store initialiser reaches its own accessor')
    # ---------------- C20.3 no panic under guard / Once (crate code)
    L = panic.Ledger(ctx)
    from ..core import load_known
    covered = set()
    problems = 0
    nsites = 0
    for (FF, b, bi, X, live, in_once) in lrs:
        if FF is not F:
            continue
        # bodies executed under this guard: the live blocks of b, plus everything reachable from calls made there
        under = {}
        for bj, (F2, cb), c2 in G.callees(F, b, blocks=live, store='global' if X == 'TAGS' else 'context'):
            if F2 is F:
                under.update(panic.reachable_bodies(F, [cb]))
        for s in L.sites:
            inside = (s['body'] is b and s['block'] in live and s['block'] != bi) or (s['body'].path in under)
            if not inside:
                continue
            k = (s['body'].path, s['block'])
            if k in covered:
                continue
            covered.add(k)
            nsites += 1
            v = L.discharge(s)
            if v is None or v[0] == 'OUT-OF-FAMILY':
                # registry initialisers: the store constructors panic only for Named items; their inputs must be Known constants
                if v is not None and panic.is_store_insert_panic(s) and known_constants_only(ctx, G):
                    continue
                problems += 1
                ctx.fail('C20.3', ctx.site(s['body'], s['block']), 'panic-capable site executed while %s is held is not discharged [%s %s]: a panic here poisons the lock for every thread' % (X, s['cls'], s['what']),
                         key='C20.3|%s' % L.key(s))
    if problems == 0:
        ctx.ok('C20.3', '-', '%d panic-capable sites execute under a global guard/Once in crate code, all discharged' % nsites, nontrivial=nsites > 0)
    kc = known_constants_only(ctx, G)
    if kc:
        ctx.ok('C20.3', '-', 'store initialisers are built from constants of the Known kind only (the store constructors panic only for Named items)')
    elif ctx.has('expression'):
        ctx.fail('C20.3', '-', 'a store initialiser is given an item that is not a Known constant: its constructor panics inside call_once', key='C20.3|constants')
    # ---------------- C20.4
    for b in F.bodies:
        if lock.is_accessor(b):
            ok_ = False
            for cl in F.closures_of(b):
                ctb = TermBuilder(F, cl)
                for bi2, bl in enumerate(cl.blocks):
                    if bl['cleanup']:
                        continue
                    for si2, st in enumerate(bl['stmts']):
                        if st['k'] == 'assign' and st['place']['p'] and st['place']['p'][0] == 'deref':
                            v = ctb.rvalue_term(st['rv'], bi2, si2)
                            if v[0] == 'agg' and v[2] == 'Some':
                                ok_ = True
            once = [bi for bi, c, t in b.calls() if c is not None and c.name == 'call_once']
            locks = [bi for bi, c, t in b.calls() if c is not None and c.name == 'lock']
            ordered = once and locks and all(b.dominates(once[0], l) for l in locks)
            if ok_ and ordered:
                ctx.ok('C20.4', ctx.site(b), '%s: Some(..) stored inside call_once, which dominates the returned lock' % b.impl_self.split('::')[-1])
            else:
                ctx.fail('C20.4', ctx.site(b), '%s may hand out a guard over None (store not assigned inside call_once before the lock is returned)' % b.impl_self.split('::')[-1], key='C20.4|' + b.path)
    # ---------------- C20.6 updates of a store are made under ONE guard: a value written through a guard of store X (assignment
    # through the guard, or an argument handed to a call that receives the guard's content mutably) is never computed from X's content
    # read under another acquisition (copy out, release, modify, lock again, write back loses concurrent updates)
    acc_hashes = {b.hash for b in F.bodies if lock.is_accessor(b)}
    def acquisitions(t):
        out = []
        for x in walk(t):
            if isinstance(x, tuple) and x and x[0] == 'call' and len(x) > 3:
                c = CALLEES.get(x[1])
                if c is not None and c.best_hash in acc_hashes:
                    out.append((c.best_hash, x[3]))
        return out
    nwrites = 0
    for b in F.bodies:
        if not any(c is not None and c.best_hash in acc_hashes for bi, c, t in b.calls()):
            continue
        tb = TermBuilder(F, b)
        writes = []     # (block, guard term, [value terms])
        for bi, bl in enumerate(b.blocks):
            if bl['cleanup']:
                continue
            for si, st in enumerate(bl['stmts']):
                if st['k'] == 'assign' and st['place']['p'] and st['place']['p'][0] == 'deref':
                    writes.append((bi, tb.local_term(st['place']['l'], bi, si), [tb.rvalue_term(st['rv'], bi, si)]))
            t = bl['term']
            if t and t['k'] == 'call' and t['args']:
                a0 = t['args'][0]
                if a0['k'] in ('move', 'copy') and not a0['place']['p'] and b.local_ty(a0['place']['l']).lstrip().startswith('&mut'):
                    args = tb.call_args(bi)
                    writes.append((bi, args[0], list(args[1:])))
        for bi, g, vals in writes:
            ga = acquisitions(g)
            if not ga:
                continue
            nwrites += 1
            stale = [(h, s_) for v in vals for (h, s_) in acquisitions(v) if any(h == gh and s_ != gs for gh, gs in ga)]
            if stale:
                ctx.fail('C20.6', ctx.site(b, bi), 'the value written through this guard was computed from the same store\'s content read under another acquisition '
                         '(at bb%s): the read-modify-write is not atomic and concurrent updates are lost' % sorted({s_[1] for h, s_ in stale}), key='C20.6|rmw|' + b.path)
    if nwrites:
        ctx.ok('C20.6', '-', '%d writes through store guards, none fed from another acquisition of the same store' % nwrites)
    elif ctx.config == 'mt':
        ctx.lost('C20.6', 'positive control: a write through a store guard (register_tags / the store initialisers)')
    # ---------------- C20.7 one acquisition per formatting call: the global format context is read under ONE guard for a whole rendering,
    # so the text is that of one state of the context. An acquisition inside a loop, or inside a closure (run once per element by an
    # iterator adaptor / the walk), lets a concurrent register_tags() change the context between two lines of the same result.
    fc_acc = {b.hash for b in F.bodies if lock.is_accessor(b) and lock.res_name(b.impl_self or '') == 'FC'}
    nacq = 0
    for b in F.bodies:
        for bi, c, t in b.calls():
            if c is None or c.best_hash not in fc_acc:
                continue
            nacq += 1
            in_closure = '{closure' in b.path
            in_loop = any(bi in b.reachable(s_) for s_ in b.succ(bi))
            if in_closure or in_loop:
                ctx.fail('C20.7', ctx.site(b, bi), 'the global format context is acquired %s: one rendering reads it under several guards, so a concurrent register_tags() can change '
                         'the context in the middle of one result' % ('inside a closure (once per element)' if in_closure else 'inside a loop'), key='C20.7|' + b.path.split('::{closure')[0])
    if nacq:
        ctx.ok('C20.7', '-', '%d acquisitions of the global format context, none inside a loop or a per-element closure' % nacq)
    elif ctx.config == 'mt':
        ctx.lost('C20.7', 'acquisitions of the global format context')
    # ---------------- C20.8 no rendering reads dcbor's process-wide tag store past the crate's own context: the format context's initialiser is
    # what fills that store (register_tags_in), so a public function that reaches TAGS without also going through FC returns text that
    # depends on whether some other call happened to initialise the context first (a schedule-dependent result)
    nt = 0
    for b in F.bodies:
        if b.dk == 'Closure' or '{closure' in b.path or not (F.item_is_exported(b) or b.impl_trait):
            continue
        if 'String' not in (b.local_ty(0) or ''):
            continue          # a rendering: the tag *names* end up in the result (tag values alone do not depend on registration)
        a_ = names_route(G, F, b, {}, ())
        if 'TAGS' in a_:
            nt += 1
            if 'FC' not in a_:
                ctx.fail('C20.8', ctx.site(b), '%s reaches dcbor\'s global tag store (%s) without going through the crate\'s format context, whose first use is what registers the '
                         'envelope tags there: its result depends on which call ran first' % (b.name, ' > '.join(x.split('::')[-1] for x in a_['TAGS'])), key='C20.8|' + b.path)
    if nt:
        ctx.ok('C20.8', '-', '%d public text-returning functions reach dcbor\'s global tag store, each through the crate\'s format context' % nt)
    elif ctx.config == 'mt':
        ctx.lost('C20.8', 'public renderings that reach dcbor\'s tag store')
    ctx.count('public_fns_reaching_TAGS', nt)
    # ---------------- C20.5 compile witnesses (type checking only)
    if ctx.config == 'mt':
        witness(ctx, 'pos', expect_ok=True)
    elif ctx.config == 'default':
        witness(ctx, 'neg', expect_ok=False)


def names_route(G, F, b, memo, stack):
    """Stores reached from b (resource -> witness path), not counting the routes through cbor_tags / tags_for_values: those map tag
    *values* to Tag items for the codec, where a missing registration changes nothing."""
    if b.hash in memo:
        return memo[b.hash]
    if b.hash in stack or len(stack) > 14:
        return {}
    res = {}
    if b.hash in G.accessors:
        res[G.accessors[b.hash]] = [b.path]
    for bi, (F2, cb), c in G.callees(F, b):
        if cb.name in ('cbor_tags', 'tags_for_values'):
            continue
        for r, w in names_route(G, F2, cb, memo, stack + (b.hash,)).items():
            res.setdefault(r, [b.path] + w)
    if not stack:
        memo[b.hash] = res
    return res


_KC = {}


def known_constants_only(ctx, G):
    F = ctx.F
    if id(F) in _KC:
        return _KC[id(F)]
    ok = True
    n = 0
    for b in F.bodies:
        if b.dk != 'Closure' or not b.closure_parent:
            continue
        pb = F.by_path.get(b.closure_parent)
        if pb is None or not lock.is_accessor(pb):
            continue
        tb = TermBuilder(F, b)
        for bi, c, t in b.calls():
            if c is not None and c.name == 'new' and (c.self_ty or c.raw.get('impl_self') or '').split('::')[-1] in ('FunctionsStore', 'ParametersStore'):
                a = strip_sites(tb.call_args(bi)[0])
                items = a[1] if a[0] in ('array', 'list') else None
                if items is None:
                    ok = False
                    continue
                for it in items:
                    n += 1
                    cb = F.consts.get(it[1]) if it[0] == 'const' else None
                    if cb is None:
                        ok = False
                        continue
                    v = strip_sites(inline(F, TermBuilder(F, cb).return_term()))
                    if not (v[0] == 'agg' and v[2] == 'Known'):
                        ok = False
    _KC[id(F)] = ok and (n > 0 or not ctx.has('expression'))
    return _KC[id(F)]


def witness(ctx, which, expect_ok):
    src = os.path.join(extract.VERIF, 'witness', which)
    tmp = tempfile.mkdtemp(prefix='envwitness_')
    try:
        shutil.copytree(src, os.path.join(tmp, 'w'))
        wd = os.path.join(tmp, 'w')
        repo = extract.REPO
        ct = open(os.path.join(wd, 'Cargo.toml')).read().replace('REPO_PATH', repo)
        open(os.path.join(wd, 'Cargo.toml'), 'w').write(ct)
        shutil.copy(os.path.join(repo, 'Cargo.lock'), os.path.join(wd, 'Cargo.lock'))
        env = dict(os.environ)
        env['CARGO_NET_OFFLINE'] = 'true'
        env['CARGO_TARGET_DIR'] = os.path.join(extract.CACHE, 'target-witness')
        env.pop('RUSTC_WRAPPER', None)
        env.pop('RUSTFLAGS', None)
        r = subprocess.run(['cargo', '+nightly', 'check', '--offline', '--lib', '--message-format', 'short'], cwd=wd, env=env, capture_output=True, text=True)
        out = r.stderr + r.stdout
        if expect_ok:
            if r.returncode == 0:
                ctx.ok('C20.5', 'witness/pos', 'with `multithreaded`: Envelope, Assertion, FormatContext: Send + Sync type-checks')
            elif 'E0277' in out:
                ctx.fail('C20.5', 'witness/pos', 'with `multithreaded` an envelope type is not Send + Sync: %s' % [l for l in out.splitlines() if 'E0277' in l][:2], key='C20.5|pos')
            else:
                raise extract.InfraError('witness crate (pos) does not build for another reason:\n' + out[-1500:])
        else:
            if r.returncode != 0 and 'E0277' in out:
                ctx.ok('C20.5', 'witness/neg', 'without `multithreaded` `Envelope: Send` is rejected with E0277 (sharing across threads exists only in the Arc configuration); compiling twin: witness/pos')
            elif r.returncode == 0:
                ctx.fail('C20.5', 'witness/neg', 'without `multithreaded` Envelope is Send: the Rc/Arc selection no longer follows the feature', key='C20.5|neg')
            else:
                raise extract.InfraError('witness crate (neg) fails for another reason than E0277:\n' + out[-1500:])
    finally:
        shutil.rmtree(tmp, ignore_errors=True)
