"""C19 — attachments and type assertions are retrievable exactly as added."""
from ..lib import *
from ..terms import TermBuilder
from .C09 import const_name
from .C18 import writer_roles
import itertools

REQUIRES = ['attachment']
USES_QUERIES = True
USES_KNOWN_VALUES = True
EXPLANATION = (
    "CODEC/GUARD/TABLE rules. C19.1: writer Assertion::new_attachment = assertion('attachment', wrap(payload) ['vendor': v, 'conformsTo'?: c]) "
    "- the payload is always wrapped, exactly once, whatever its shape - and the readers unwrap_envelope(object), 'vendor' (required) and "
    "'conformsTo' (optional) address the same places. C19.2: validation returns Ok only on the passing edge of "
    "is_equivalent_to(rebuilt, self) where rebuilt is the WRITER applied to the three extracted parts. C19.3: the query validates every "
    "found attachment (loop over the whole predicate lookup, `?`) before filtering. C19.4: the filter closure evaluated under all 32 "
    "valuations of (vendor given, vendor equal, conformsTo given, stored conformsTo present, conformsTo equal) keeps exactly when "
    "(!vg | ve) & (!cg | (cp & ce)). C19.5: the single-result form over len in {0,1,2} gives {Nonexistent, first, Ambiguous}. C19.6: "
    "add_type = add_assertion('isA', t); types = objects_for_predicate('isA'); has_type = any(digest(x) == digest(envelope(t))); "
    "check_type Ok iff has_type. C19.9: the Attachments container - add stores new_attachment(..) under its digest, add_to_envelope is the fold of add_assertion_envelope over every stored attachment onto the accumulated envelope, try_from_envelope stores every attachment of the envelope. C19.11: the Envelope-level attachment accessors read case(self).Assertion. C19.10: attachments() = attachments_with_vendor_and_conforms_to(self, None, None). Does not decide string/ARID value round-trips.")
TRUSTED = ['String PartialEq compares text']
FLOORS = {'C19.1': 4, 'C19.2': 1, 'C19.3': 1, 'C19.4': 1, 'C19.5': 1, 'C19.6': 4, 'C19.9': 3, 'C19.10': 1, 'C19.11': 4}
P1, P2, P3 = ('param', 1), ('param', 2), ('param', 3)


def check(ctx):
    F = ctx.F
    w = F.method1('Assertion', 'new_attachment')
    if w is None:
        ctx.lost('C19.1', 'Assertion::new_attachment')
        return
    wt = strip_sites(TermBuilder(F, w).return_term())
    a = m_call(wt, name='new', self_suffix='Assertion')
    good = False
    if a is not None and const_name(a[0]) == 'ATTACHMENT':
        chain = a[1]
        preds = []
        t = chain
        while t[0] == 'call' and call_name(t) in ('add_assertion', 'add_optional_assertion'):
            preds.append((const_name(t[2][1]), call_name(t), t[2][2]))
            t = t[2][0]
        wr = m_call(t, name='wrap_envelope', self_suffix='Envelope') or m_call(t, name='new_wrapped')
        payload = wr[0] if wr else None
        if payload is not None and payload[0] == 'env':
            payload = payload[1]
        pm = {p[0]: p for p in preds}
        if payload == P1 and set(pm) == {'VENDOR', 'CONFORMS_TO'} and pm['VENDOR'][1] == 'add_assertion' and pm['CONFORMS_TO'][1] == 'add_optional_assertion' \
                and contains(pm['VENDOR'][2], lambda x: x == P2) and contains(pm['CONFORMS_TO'][2], lambda x: x == P3):
            good = True
    if good:
        ctx.ok('C19.1', ctx.site(w), 'writer: \'attachment\': wrap(payload) [\'vendor\': vendor, \'conformsTo\'?: conforms_to] (payload wrapped unconditionally)', sample=fmt(wt))
    else:
        ctx.fail('C19.1', ctx.site(w), 'attachment writer is %s' % fmt(wt), key='C19.1|writer')
    # the wrap must be unconditional: a single return definition
    wtb = TermBuilder(F, w)
    if len(phi_alts(strip_sites(wtb.return_term()))) != 1 or contains(strip_sites(wtb.return_term()), lambda x: x[0] == 'phi'):
        ctx.fail('C19.1', ctx.site(w), 'attachment writer has shape-dependent alternatives (e.g. skips wrapping for some payloads): %s' % fmt(wt), key='C19.1|conditional')
    def reader(name, pred):
        b = F.method1('Assertion', name)
        if b is None:
            ctx.lost('C19.1', 'Assertion::' + name)
            return
        rt = strip_sites(TermBuilder(F, b).return_term())
        if pred(rt):
            ctx.ok('C19.1', ctx.site(b), 'reader %s = %s' % (name, fmt(rt)))
        else:
            ctx.fail('C19.1', ctx.site(b), 'reader %s is %s' % (name, fmt(rt)), key='C19.1|' + name)
    def obj(t):
        o = m_call(t, name='object', self_suffix='Assertion')
        return o is not None and o[0] == P1
    reader('attachment_payload', lambda t: m_call(t, name='unwrap_envelope') is not None and obj(m_call(t, name='unwrap_envelope')[0]))
    reader('attachment_vendor', lambda t: m_call(t, name='extract_object_for_predicate') is not None and obj(m_call(t, name='extract_object_for_predicate')[0]) and const_name(m_call(t, name='extract_object_for_predicate')[1]) == 'VENDOR')
    reader('attachment_conforms_to', lambda t: m_call(t, name='extract_optional_object_for_predicate') is not None and obj(m_call(t, name='extract_optional_object_for_predicate')[0]) and const_name(m_call(t, name='extract_optional_object_for_predicate')[1]) == 'CONFORMS_TO')
    # ---- C19.2 validation
    v = F.method1('Assertion', 'validate_attachment')
    if v is None:
        ctx.lost('C19.2', 'Assertion::validate_attachment')
    else:
        tb = TermBuilder(F, v)
        acc = [(bi, si, t) for bi, si, t in accept_sites(v, tb) if t[0] == 'agg' and t[2] == 'Ok']
        def guard(x):
            a_ = m_call(x, name='is_equivalent_to', self_suffix='Envelope')
            if a_ is None:
                return False
            sides = [strip_sites(detry(s_)) for s_ in a_]
            def is_self(s_):
                return s_ == P1 or s_ == ('env', P1)
            def rebuilt(s_):
                if s_[0] == 'env':
                    s_ = s_[1]
                c = CALLEES.get(s_[1]) if s_[0] == 'call' else None
                if c is None or c.best_hash != w.hash:
                    return False
                parts = [strip_sites(detry(p)) for p in s_[2]]
                names = [call_name(p) for p in parts]
                return names == ['attachment_payload', 'attachment_vendor', 'attachment_conforms_to'] and all(p[2][0] == P1 for p in parts)
            return (is_self(sides[0]) and rebuilt(sides[1])) or (is_self(sides[1]) and rebuilt(sides[0]))
        gs = find_terms(v, tb, lambda x: guard(x))
        if not acc:
            ctx.lost('C19.2', 'Ok exit of validate_attachment')
        elif not gs:
            ctx.fail('C19.2', ctx.site(v), 'validation does not compare self with the attachment rebuilt by the writer from (payload, vendor, conformsTo)', key='C19.2|noguard')
        else:
            ok, info = guard_dominates(v, tb, [a_[0] for a_ in acc], lambda x: guard(x), True)
            if ok:
                ctx.ok('C19.2', ctx.site(v, acc[0][0]), 'Ok only when new_attachment(payload, vendor, conformsTo) is equivalent to self; ' + info)
            else:
                ctx.fail('C19.2', ctx.site(v, acc[0][0]), 'validation can succeed without the equivalence test: ' + info, key='C19.2|dominance')
    # ---- C19.3 / C19.4 query
    q = F.method1('Envelope', 'attachments_with_vendor_and_conforms_to')
    if q is None:
        ctx.lost('C19.3', 'Envelope::attachments_with_vendor_and_conforms_to')
    else:
        tb = TermBuilder(F, q)
        acc = [(bi, si, t) for bi, si, t in accept_sites(q, tb) if t[0] == 'agg' and t[2] == 'Ok']
        def is_lookup(t):
            a_ = m_call(strip_sites(t), name='assertions_with_predicate', self_suffix='Envelope')
            return a_ is not None and a_[0] == P1 and const_name(a_[1]) == 'ATTACHMENT'
        vals = [(bi, tb.call_args(bi)) for bi, c, t in q.calls() if c is not None and c.name == 'validate_attachment']
        good3 = False
        if len(vals) == 1 and acc:
            arg = strip_sites(vals[0][1][0])
            whole = arg[0] == 'elem' and is_lookup(elem_source(arg[1]))
            # the Ok exit only after the loop over all elements finished (next == None edge) and a failed validation exits with `?`
            edges = set()
            for sb2, dt2 in switch_on(tb, q, lambda dd: dd[0] == 'discr' and dd[1][0] == 'next' and is_lookup(elem_source(dd[1][1]))):
                for val, bb in q.term(sb2)['targets']:
                    if val == 0:
                        edges.add((sb2, bb))
            after = edges and not any(a_[0] in reach_under(q, tb, {}, removed_edges=edges) for a_ in acc)
            v_ = tb.call_value(vals[0][0])
            propagated = any(m_call(t, name='from_residual') is not None and contains(t, lambda x: strip_sites(x) == strip_sites(v_)) for bi, si, t in ret_defs(tb))
            good3 = whole and after and propagated
        if good3:
            ctx.ok('C19.3', ctx.site(q, vals[0][0]), 'every found attachment is validated (`?`) before any result is returned')
        else:
            ctx.fail('C19.3', ctx.site(q), 'the query does not validate every found attachment before filtering', key='C19.3')
        # the result as a selection of the validated lookup (filter+collect, or a loop pushing the kept elements)
        sel = None
        for bi, si, t in acc:
            inner = t[3][0] if t[0] == 'agg' and t[2] == 'Ok' else t
            s_ = selection(F, q, tb, inner, use_block=bi)
            if s_ is not None and is_lookup(s_.coll) and s_.value == ('elem', s_.coll):
                sel = s_
        if sel is None:
            ctx.fail('C19.4', ctx.site(q), 'result is not the validated lookup filtered by a per-element test', key='C19.4|nofilter')
        else:
            E = sel.elem
            if sel.kind == 'closure':
                caps = [strip_sites(c) for c in sel.clo[2]]
                UV = ('upvar', caps.index(P2)) if P2 in caps else None
                UC = ('upvar', caps.index(P3)) if P3 in caps else None
                where = ctx.site(F.closure(sel.clo[1]))
            else:
                UV, UC = P2, P3
                where = ctx.site(q, sel.header)
            if UV is None or UC is None:
                ctx.fail('C19.4', where, 'filter closure does not capture both filter arguments', key='C19.4|captures')
            else:
                ven = lambda x: x[0] == 'call' and call_name(x) == 'attachment_vendor' and strip_sites(x[2][0]) == E
                con = lambda x: x[0] == 'call' and call_name(x) == 'attachment_conforms_to' and strip_sites(x[2][0]) == E
                ven_t = sel.atoms(ven)
                con_t = sel.atoms(con)
                cmps = sel.atoms(lambda x: x[0] == 'call' and call_name(x) in ('eq', 'ne'))
                cmp_v = [x for x in cmps if contains(x, ven) and contains(x, lambda y: y == UV)]
                cmp_c = [x for x in cmps if contains(x, con) and contains(x, lambda y: y == UC)]
                if len(ven_t) != 1 or len(con_t) != 1 or len(cmp_v) != 1 or len(cmp_c) != 1:
                    ctx.fail('C19.4', where, 'filter closure atoms not found (vendor=%d conformsTo=%d cmpV=%d cmpC=%d)' % (len(ven_t), len(con_t), len(cmp_v), len(cmp_c)), key='C19.4|atoms')
                else:
                    bad = []
                    rows = 0
                    for vg, ve, cg, cp, ce in itertools.product((False, True), repeat=5):
                        env = {
                            ('discr', UV): 1 if vg else 0,
                            ('discr', UC): 1 if cg else 0,
                            ('discr', ven_t[0]): 0,     # vendor extraction Ok (validated before)
                            ('discr', con_t[0]): 0,     # conformsTo extraction Ok
                            ('discr', ('vfield', con_t[0], 'Ok', '0')): 1 if cp else 0,
                            cmp_v[0]: (ve if call_name(cmp_v[0]) == 'eq' else not ve),
                            cmp_c[0]: (ce if call_name(cmp_c[0]) == 'eq' else not ce),
                        }
                        outs = sel.keep_values(env)
                        want = ((not vg) or ve) and ((not cg) or (cp and ce))
                        rows += 1
                        if outs != {want}:
                            bad.append(((vg, ve, cg, cp, ce), sorted(map(str, outs)), want))
                    if not bad:
                        ctx.ok('C19.4', where, 'filter keeps exactly when (!vg | ve) & (!cg | (cp & ce)): %d valuations' % rows, sample='32 rows agree')
                    else:
                        ctx.fail('C19.4', where, 'filter truth table differs in %d of %d rows, e.g. (vendor given, vendor equal, conformsTo given, stored present, equal)=%s -> %s, expected %s' % (len(bad), rows, bad[0][0], bad[0][1], bad[0][2]), key='C19.4|table')
    # ---- C19.5 single-result form
    s1 = F.method1('Envelope', 'attachment_with_vendor_and_conforms_to')
    if s1 is None:
        ctx.lost('C19.5', 'Envelope::attachment_with_vendor_and_conforms_to')
    else:
        tb = TermBuilder(F, s1)
        def is_V(t):
            a_ = m_call(strip_sites(detry(t)), name='attachments_with_vendor_and_conforms_to', self_suffix='Envelope')
            return a_ is not None and a_[0] == P1 and a_[1] == P2 and a_[2] == P3
        empt = find_terms(s1, tb, lambda x: x[0] == 'call' and call_name(x) == 'is_empty' and is_V(x[2][0]))
        lens = find_terms(s1, tb, lambda x: (x[0] == 'call' and call_name(x) == 'len' and is_V(x[2][0])) or (x[0] == 'len' and is_V(x[1])))
        rows = {}
        for n in (0, 1, 2, 3):
            env = {e: (n == 0) for e in empt}
            env.update({l: n for l in lens})
            for v_ in find_terms(s1, tb, lambda x: is_V(x)):
                env[('len', v_)] = n
            reach = reach_under(s1, tb, env)
            outs = set()
            for bi, si, t in ret_defs(tb):
                if bi not in reach:
                    continue
                st = strip_sites(detry(t))
                if m_call(st, name='from_residual') is not None:
                    continue
                if st[0] == 'agg' and st[2] == 'Err':
                    k = [x[2] for x in walk(st) if isinstance(x, tuple) and x and x[0] == 'agg' and x[1].endswith('EnvelopeError')]
                    outs.add('Err:' + (k[0] if k else '?'))
                elif st[0] == 'agg' and st[2] == 'Ok':
                    first = any(isinstance(x, tuple) and x and ((x[0] == 'call' and call_name(x) in ('first',)) or (x[0] == 'call' and call_name(x) == 'index' and const_int(x[2][1]) == 0) or (x[0] == 'index' and const_int(x[2]) == 0)) for x in walk(st))
                    outs.add('first' if first else 'Ok(?)')
            rows[n] = sorted(outs)
        expect = {0: ['Err:NonexistentAttachment'], 1: ['first'], 2: ['Err:AmbiguousAttachment'], 3: ['Err:AmbiguousAttachment']}
        if rows == expect:
            ctx.ok('C19.5', ctx.site(s1), 'single-result form over match count {0,1,2,3} -> %s' % rows, sample=str(rows))
        else:
            ctx.fail('C19.5', ctx.site(s1), 'single-result form over match count is %s, expected %s' % (rows, expect), key='C19.5')
    # ---- C19.6 types
    def same_as(name, pred, desc):
        b = F.method1('Envelope', name)
        if b is None:
            ctx.lost('C19.6', 'Envelope::' + name)
            return
        rt = strip_sites(TermBuilder(F, b).return_term())
        if pred(rt, b):
            ctx.ok('C19.6', ctx.site(b), '%s = %s' % (name, desc))
        else:
            ctx.fail('C19.6', ctx.site(b), '%s is %s, expected %s' % (name, fmt(rt), desc), key='C19.6|' + name)
    same_as('add_type', lambda t, b: m_call(t, name='add_assertion') is not None and m_call(t, name='add_assertion')[0] == P1 and const_name(m_call(t, name='add_assertion')[1]) == 'IS_A' and contains(m_call(t, name='add_assertion')[2], lambda x: x == P2), 'add_assertion(self, \'isA\', type)')
    same_as('types', lambda t, b: m_call(t, name='objects_for_predicate') is not None and m_call(t, name='objects_for_predicate')[0] == P1 and const_name(m_call(t, name='objects_for_predicate')[1]) == 'IS_A', 'objects_for_predicate(self, \'isA\')')
    depth = [0]
    def has_pred(t, b):
        # `any(types(self), |x| digest(x) == digest(type envelope))`, or the loop that returns true on the first such x
        sr = bool_search(F, b)
        if sr is None:
            # delegation: has_type(self, t) = has_type_envelope(self, t.clone()) (or the other way round)
            c = callee_of(t) if t[0] == 'call' else None
            cb2 = F.by_hash.get(c.best_hash) if c is not None else None
            if cb2 is not None and cb2.hash != b.hash and len(t[2]) == 2 and t[2][0] == P1 and contains(t[2][1], lambda y: y == P2) and depth[0] < 2:
                depth[0] += 1
                try:
                    return has_pred(strip_sites(return_term_of(F, cb2)), cb2)
                finally:
                    depth[0] -= 1
            return False
        ty = m_call(sr.coll, name='types', self_suffix='Envelope') or m_call(sr.coll, name='objects_for_predicate')
        if ty is None or ty[0] != P1:
            return False
        def side(x):
            d = m_digest(x)
            if d is None:
                return ''
            if d == sr.elem:
                return 'elem'
            c = sr.captured(d)
            if contains(c, lambda y: y == P2) and not contains(c, lambda y: y[0] == 'elem'):
                return 'type'
            return ''
        def is_cmp(x):
            return x[0] == 'call' and call_name(x) in ('eq', 'ne') and len(x[2]) == 2 and sorted([side(x[2][0]), side(x[2][1])]) == ['elem', 'type']
        atoms = sr.atoms(is_cmp)
        if len(atoms) != 1:
            return False
        eq_is = call_name(atoms[0]) == 'eq'
        return sr.hit_values({atoms[0]: eq_is}) == {True} and sr.hit_values({atoms[0]: not eq_is}) == {False}
    same_as('has_type', has_pred, 'any(types(self), |x| digest(x) == digest(envelope(type)))')
    same_as('has_type_envelope', has_pred, 'any(types(self), |x| digest(x) == digest(envelope(type)))')
    for name, atom in (('check_type', 'has_type'), ('check_type_envelope', 'has_type_envelope')):
        b = F.method1('Envelope', name)
        if b is None:
            ctx.lost('C19.6', 'Envelope::' + name)
            continue
        tb = TermBuilder(F, b)
        acc = [(bi, si, t) for bi, si, t in accept_sites(b, tb) if t[0] == 'agg' and t[2] == 'Ok']
        g = lambda x: m_call(x, name=atom, self_suffix='Envelope') is not None and strip_sites(m_call(x, name=atom, self_suffix='Envelope')[0]) == P1 and strip_sites(m_call(x, name=atom, self_suffix='Envelope')[1]) == P2
        ok, info = guard_dominates(b, tb, [a_[0] for a_ in acc], g, True) if acc else (False, 'no Ok exit')
        if ok:
            ctx.ok('C19.6', ctx.site(b), '%s: Ok iff %s(self, type)' % (name, atom))
        else:
            ctx.fail('C19.6', ctx.site(b), '%s can return Ok without %s: %s' % (name, atom, info), key='C19.6|' + name)


_check_inner = check


def check(ctx):
    _check_inner(ctx)
    from .. import panic
    F = ctx.F
    names = ['attachments', 'attachments_with_vendor_and_conforms_to', 'attachment_with_vendor_and_conforms_to', 'attachment_payload', 'attachment_vendor', 'attachment_conforms_to',
             'validate_attachment', 'types', 'get_type', 'has_type', 'has_type_envelope', 'check_type', 'check_type_envelope']
    panic.slice_check(ctx, 'C19.7', [F.method1('Envelope', n) for n in names if F.method1('Envelope', n)], 'attachment/type')


_check_before_errflow = check


def check(ctx):
    _check_before_errflow(ctx)
    # C19.8 error discipline: no error of a fallible call is turned into "absent / false / default" outside the reviewed table
    from .. import errflow
    errflow.check(ctx, 'C19.8', ['src/extension/attachment/attachment_impl.rs', 'src/extension/attachment/attachments.rs', 'src/extension/types.rs'], 'attachment / type family')
    check_container(ctx)
    check_unfiltered(ctx)
    check_accessor_dispatch(ctx)


def check_unfiltered(ctx):
    """C19.10: the unfiltered query attachments() is the filtered one with no filter, attachments_with_vendor_and_conforms_to(self, None,
    None) - the function whose every-attachment validation and selection table are judged above (a shortcut that returns the
    'attachment' assertions directly skips the validation: malformed attachments are no longer reported)."""
    F = ctx.F
    P1 = ('param', 1)
    b = F.method1('Envelope', 'attachments')
    full = F.method1('Envelope', 'attachments_with_vendor_and_conforms_to')
    if b is None or full is None:
        ctx.lost('C19.10', 'Envelope::attachments / attachments_with_vendor_and_conforms_to')
        return
    tb = TermBuilder(F, b)
    for bi, si, t in ret_defs(tb):
        v = strip_sites(detry(t))
        if m_call(t, name='from_residual') is not None:
            continue
        if v[0] == 'agg' and v[2] == 'Ok' and v[3]:
            v = strip_sites(detry(v[3][0]))
        c = callee_of(v) if v[0] == 'call' else None
        def none(x):
            x = strip_sites(x)
            return x[0] == 'agg' and x[2] == 'None'
        if c is not None and c.best_hash == full.hash and len(v[2]) == 3 and strip_sites(v[2][0]) == P1 and none(v[2][1]) and none(v[2][2]):
            ctx.ok('C19.10', ctx.site(b, bi, si), 'attachments() = attachments_with_vendor_and_conforms_to(self, None, None)')
        else:
            ctx.fail('C19.10', ctx.site(b, bi, si), 'attachments() returns %s, not the validating query with no filter: malformed attachment assertions are not reported' % fmt(v)[:200],
                     key='C19.10|attachments')


def check_accessor_dispatch(ctx):
    """C19.11: the Envelope-level attachment accessors (payload, vendor, conformsTo, validate) judge the envelope ITSELF: they dispatch on
    case(self) and hand case(self).Assertion to the Assertion-level function; any other case is InvalidAttachment. Looking through
    subject(self) would accept a decorated attachment assertion (one carrying assertions of its own), which validation must report."""
    F = ctx.F
    P1 = ('param', 1)
    for name in ('attachment_payload', 'attachment_vendor', 'attachment_conforms_to', 'validate_attachment'):
        b = F.method1('Envelope', name)
        if b is None:
            ctx.lost('C19.11', 'Envelope::' + name)
            continue
        tb = TermBuilder(F, b)
        calls = []
        for bi, c, t in b.calls():
            if c is not None and c.name == name and (c.self_ty or c.raw.get('impl_self') or '').endswith('Assertion'):
                calls.append((bi, strip_sites(detry(tb.call_args(bi)[0]))))
        good = bool(calls)
        for bi, a in calls:
            x = a
            while x[0] == 'call' and call_name(x) in ('clone', 'deref', 'borrow', 'as_ref') and len(x[2]) == 1:
                x = strip_sites(detry(x[2][0]))
            c_ = m_call(x[1], name='case', self_suffix='Envelope') if x[0] == 'vfield' and x[2:] == ('Assertion', '0') else None
            good &= c_ is not None and strip_sites(c_[0]) == P1
        if good:
            ctx.ok('C19.11', ctx.site(b), '%s reads case(self).Assertion (the envelope itself must be the attachment assertion)' % name)
        else:
            ctx.fail('C19.11', ctx.site(b), '%s does not read the Assertion of case(self): %s' % (name, [fmt(a)[:120] for _bi, a in calls] or 'no Assertion-level call'),
                     key='C19.11|' + name)


def check_container(ctx):
    """C19.9: the Attachments container. add stores new_attachment(payload, vendor, conformsTo) under its own digest; add_to_envelope
    is the fold of add_assertion_envelope over EVERY stored attachment starting from the given envelope (each one added to the
    envelope that already carries the earlier ones); try_from_envelope stores every attachment of the envelope under its digest."""
    F = ctx.F
    P1, P2 = ('param', 1), ('param', 2)
    def method(name):
        bs = [b for b in F.bodies if b.path.endswith('::Attachments::' + name)]
        return bs[0] if len(bs) == 1 else None
    def store_of(x, root):
        x = strip_sites(x)
        return x[0] == 'vfield' and x[3] == 'envelopes' and (root is None or strip_sites(x[1]) == root)
    # ---- add
    b = method('add')
    if b is None:
        ctx.lost('C19.9', 'Attachments::add')
    else:
        tb = TermBuilder(F, b)
        ins = [(bi, [strip_sites(a) for a in tb.call_args(bi)]) for bi, c, t in b.calls() if c is not None and c.name == 'insert']
        good = [x for x in ins if len(x[1]) == 3 and store_of(x[1][0], P1) and m_call(x[1][2], name='new_attachment') is not None
                and m_digest(x[1][1]) is not None and strip_sites(m_digest(x[1][1])) == x[1][2]
                and tuple(strip_sites(y) for y in m_call(x[1][2], name='new_attachment')[:2]) == (P2, ('param', 3))]
        if len(ins) == 1 and good:
            ctx.ok('C19.9', ctx.site(b, ins[0][0]), 'add stores new_attachment(payload, vendor, ..) under its own digest', sample=fmt(ins[0][1][2]))
        else:
            ctx.fail('C19.9', ctx.site(b), 'Attachments::add does not store exactly new_attachment(payload, vendor, conformsTo) keyed by its digest: %s' % [[fmt(y) for y in x[1]] for x in ins],
                     key='C19.9|add')
    # ---- add_to_envelope
    b = method('add_to_envelope')
    if b is None:
        ctx.lost('C19.9', 'Attachments::add_to_envelope')
    else:
        tb = TermBuilder(F, b)
        ff = fold_form(F, b, tb)
        if ff is None:
            ctx.fail('C19.9', ctx.site(b), 'add_to_envelope is not a fold over the stored attachments: %s' % fmt(strip_sites(tb.return_term()))[:300], key='C19.9|fold_form', rule='FLOW/IDIOM-UNKNOWN')
        else:
            init, step, accm = ff
            st = strip_sites(detry(step))
            u = m_call(st, name='unwrap') or m_call(st, name='expect')
            if u is not None:
                st = strip_sites(detry(u[0]))
            a = m_call(st, name='add_assertion_envelope', self_suffix='Envelope')
            def stored_value(x):
                x = strip_sites(x)
                while x[0] == 'call' and call_name(x) in ('clone', 'deref', 'borrow', 'as_ref') and len(x[2]) == 1:
                    x = strip_sites(x[2][0])
                if x[0] == 'vfield' and x[3] == '1' and x[1][0] == 'elem':
                    src = strip_sites(x[1][1])
                    return src[0] == 'call' and call_name(src) in ('iter', 'into_iter') and store_of(src[2][0], P1)
                if x[0] == 'elem':
                    src = strip_sites(x[1])
                    return src[0] == 'call' and call_name(src) in ('values', 'into_values') and store_of(src[2][0], P1)
                return False
            init_ok = strip_sites(init) == P2 or (m_call(init, name='clone') is not None and strip_sites(m_call(init, name='clone')[0]) == P2)
            if a is not None and strip_sites(a[0]) == accm and stored_value(a[1]) and init_ok:
                ctx.ok('C19.9', ctx.site(b), 'add_to_envelope = fold(stored attachments, envelope, |acc, a| add_assertion_envelope(acc, a)): every stored attachment is added, cumulatively',
                       sample=fmt(step))
            else:
                ctx.fail('C19.9', ctx.site(b), 'add_to_envelope does not add every stored attachment to the accumulated envelope (start %s, step %s)' % (fmt(init), fmt(step)[:300]),
                         key='C19.9|fold')
    # ---- try_from_envelope
    b = method('try_from_envelope')
    if b is None:
        ctx.lost('C19.9', 'Attachments::try_from_envelope')
    else:
        tb = TermBuilder(F, b)
        ins = [(bi, [strip_sites(detry(a)) for a in tb.call_args(bi)]) for bi, c, t in b.calls() if c is not None and c.name == 'insert']
        def att_elem(x):
            x = strip_sites(detry(x))
            if x[0] != 'elem':
                return False
            src = strip_sites(detry(x[1]))
            a_ = m_call(src, name='attachments', self_suffix='Envelope')
            return a_ is not None and strip_sites(a_[0]) == P1
        good = [x for x in ins if len(x[1]) == 3 and att_elem(x[1][2]) and m_digest(x[1][1]) is not None and strip_sites(detry(m_digest(x[1][1]))) == x[1][2]]
        # the insert must be unconditional per element: the only switch between loop header and insert is the iterator's own
        if len(ins) == 1 and good:
            ctx.ok('C19.9', ctx.site(b, ins[0][0]), 'try_from_envelope stores each attachment of the envelope under its own digest', sample=fmt(ins[0][1][2]))
        else:
            ctx.fail('C19.9', ctx.site(b), 'try_from_envelope does not store every attachment of the envelope keyed by its digest: %s' % [[fmt(y)[:120] for y in x[1]] for x in ins],
                     key='C19.9|try_from', rule='FLOW/IDIOM-UNKNOWN')
