"""C07 — assembling the same information in any order yields the identical envelope."""
from ..lib import *
from ..terms import TermBuilder
from .. import order
from . import C01, C04

NEED_DEPS = True
USES_QUERIES = True
EXPLANATION = (
    "ORDER/TYPE/FLOW rules. C07.1: order independence of assembly reduces to the node constructor sorting by digest and storing the "
    "sorted vector (C01.2 node), idempotent add (C04.3) and inverse remove with collapse (C04.5); those instances are re-evaluated here. "
    "C07.2: no operation can alter its receiver: no &mut self method on Envelope/Assertion, no projected assignment, Rc/Arc back door "
    "or interior mutability (C01.4). C07.3: wrap = wrapped-constructor(self); unwrap returns the `envelope` field of the matched Wrapped "
    "subject. C07.4: hash-iteration order must not reach an ordered sink: every iteration over a std HashMap/HashSet in the crate, and "
    "in every dcbor / bc-components conversion body that the crate's EnvelopeEncodable / From impls resolve to, is followed to its "
    "consumers; it must pass a sanitiser (sort*, collection into an unordered or canonically ordered container such as dcbor::Map / "
    "dcbor::Set / BTreeMap / HashSet) or an order-insensitive consumer (any/all/count/.., or add_assertion*, whose result is order "
    "independent by C07.1) before any ordered sink (Vec collect/push, CBORCase::Array); remaining ordered flows need a table entry "
    "with a reason. C07.5: no add_* entry point other than the two core adders returns self unchanged on a test of the receiver's content. Does not decide equality of dCBOR encodings for equal leaf values of each type."
    " C07.6: the expression builders with_parameter / with_optional_parameter only add.")
TRUSTED = ['dcbor::Map / dcbor::Set iterate in key-encoding order', 'sort* sorts']
FLOORS = {'C07.1': 4, 'C07.2': 4, 'C07.3': 2, 'C07.4': 4, 'C07.1/C04.5': 3, 'C07.1/C04.3': 2, 'C07.1/C01.2/node': 1}
P1 = ('param', 1)

# ordered flows that are benign, each with a reason (exact key: function role + source)
BENIGN = {
    ('sskr_join', 'values'): 'identifier groups are only TRIED in this order; the first group whose combined key decrypts the subject (digest-checked, C08.2) '
                             'determines the result, and any group that succeeds yields the same subject',
}


class Relabel:
    def __init__(self, ctx, prefix, keep):
        self.ctx, self.prefix, self.keep = ctx, prefix, keep
        self.F = ctx.F
        self.features = ctx.features
    def has(self, *f):
        return self.ctx.has(*f)
    def dep(self, c):
        return self.ctx.dep(c)
    def site(self, *a, **k):
        return self.ctx.site(*a, **k)
    def count(self, *a, **k):
        pass
    def skip(self, *a, **k):
        pass
    def need(self, inst, value, what):
        return self.ctx.need(self.prefix, value, what)
    def _keep(self, inst):
        return any(inst == k or inst.startswith(k + '/') or inst.startswith(k + '|') or inst.startswith(k + '.') for k in self.keep)
    def ok(self, inst, site, detail, **kw):
        if self._keep(inst):
            self.ctx.ok(self.prefix + '/' + inst, site, detail, **kw)
    def fail(self, inst, site, detail, key=None, **kw):
        if self._keep(inst):
            self.ctx.fail(self.prefix + '/' + inst, site, detail, key=self.prefix + '|' + (key or detail), **kw)
    def lost(self, inst, what):
        if self._keep(inst):
            self.ctx.lost(self.prefix + '/' + inst, what)
    @property
    def results(self):
        pre = self.prefix + '/'
        return [dict(r, inst=r['inst'][len(pre):]) for r in self.ctx.results if r['inst'].startswith(pre)]


def check(ctx):
    F = ctx.F
    # ---- C07.1 (re-evaluation of the instances this property rests on)
    try:
        C01.check(Relabel(ctx, 'C07.1', ['C01.2/node']))
    except Exception as e:
        ctx.fail('C07.1', '-', 'C01.2(node) could not be evaluated: %r' % e, key='C07.1|c01')
    try:
        C04.check(Relabel(ctx, 'C07.1', ['C04.1', 'C04.3', 'C04.5']))
    except Exception as e:
        ctx.fail('C07.1', '-', 'C04.3/C04.5 could not be evaluated: %r' % e, key='C07.1|c04')
    # ---- C07.2
    C01.check_immutability(ctx, 'C07.2')
    # ---- C07.3
    w = F.method1('Envelope', 'wrap_envelope')
    if w is None:
        ctx.lost('C07.3', 'Envelope::wrap_envelope')
    else:
        rt = strip_sites(inline(F, TermBuilder(F, w).return_term(), depth=1))
        cw = is_case_ctor_wrapper(rt)
        a = m_call(strip_sites(TermBuilder(F, w).return_term()), name='new_wrapped')
        if (a is not None and a[0] == P1) or (cw is not None and cw[2] == 'Wrapped' and cw[3][0] == P1):
            ctx.ok('C07.3', ctx.site(w), 'wrap = wrapped-constructor(self)')
        else:
            ctx.fail('C07.3', ctx.site(w), 'wrap_envelope is %s' % fmt(rt), key='C07.3|wrap')
    u = F.method1('Envelope', 'unwrap_envelope')
    if u is None:
        ctx.lost('C07.3', 'Envelope::unwrap_envelope')
    else:
        tb = TermBuilder(F, u)
        acc = [(bi, si, t) for bi, si, t in accept_sites(u, tb) if t[0] == 'agg' and t[2] == 'Ok']
        good = bool(acc)
        for bi, si, t in acc:
            v = strip_sites(t[3][0])
            c = m_call(v[1], name='case', self_suffix='Envelope') if v[0] == 'vfield' else None
            inner = c[0] if c else None
            subj = m_call(inner, name='subject', self_suffix='Envelope') if inner else None
            if not (v[0] == 'vfield' and v[2] == 'Wrapped' and v[3] == 'envelope' and ((subj is not None and subj[0] == P1) or inner == P1)):
                good = False
                ctx.fail('C07.3', ctx.site(u, bi, si), 'unwrap_envelope returns %s, not the wrapped envelope of the (subject of) self' % fmt(v), key='C07.3|unwrap')
        if good:
            ctx.ok('C07.3', ctx.site(u), 'unwrap returns the `envelope` field of the matched Wrapped subject')
    # ---- C07.4 ORDER
    n_src = 0
    for b in F.bodies:
        for sbi, sc, verdict, op, chain, cbi in order.hash_order_flows(F, b):
            n_src += 1
            site = ctx.site(b, sbi)
            role = (b.name if b.dk != 'Closure' else b.path.split('::')[-2], sc.name)
            if verdict in ('sanitised', 'insensitive'):
                ctx.ok('C07.4', site, 'hash iteration %s.%s() is %s by %s (%s)' % (sc.self_ty.split('<')[0].split('::')[-1] if sc.self_ty else 'hash', sc.name, verdict, op, chain))
            elif verdict == 'ordered':
                if role in BENIGN:
                    ctx.ok('C07.4', site, 'ordered flow listed benign: %s' % BENIGN[role], nontrivial=False)
                else:
                    ctx.fail('C07.4', site, 'iteration order of a hash container reaches an ordered sink (%s) without a sanitiser: %s' % (op, chain), key='C07.4|%s|%s' % role)
            else:
                ctx.fail('C07.4', site, 'cannot classify the consumer of this hash iteration (%s): %s' % (verdict, chain), key='C07.4|unknown|%s|%s' % role, rule='ORDER/IDIOM-UNKNOWN')
    # dependency conversions instantiated from this crate: collection -> CBOR / Envelope
    deps = {'dcbor': ctx.dep('dcbor'), 'bc_components': ctx.dep('bc_components')}
    seen = set()
    n_dep = 0
    for b in F.bodies:
        conv = bool(b.impl_trait and (b.impl_trait.endswith('EnvelopeEncodable') or b.impl_trait.endswith('From')) )
        if not conv:
            continue
        if not any(('Hash' in (x or '')) for x in (b.impl_self, b.impl_trait_full)):
            continue
        work = []
        for bi, c, t in b.calls():
            if c is not None and c.rkrate in deps and c.rhash:
                work.append((c.rkrate, c.rhash, 0, b, bi))
        while work:
            kr, h, d, ob, obi = work.pop()
            if (kr, h) in seen or d > 3:
                continue
            seen.add((kr, h))
            D = deps[kr]
            db = D.by_hash.get(h) if D else None
            if db is None:
                continue
            n_dep += 1
            flows = order.hash_order_flows(D, db)
            for sbi, sc, verdict, op, chain, cbi in flows:
                site = '%s (instantiated from %s)' % (db.path, ctx.site(ob, obi))
                if verdict in ('sanitised', 'insensitive'):
                    ctx.ok('C07.4', site, 'dependency conversion: hash iteration %s by %s (%s)' % (verdict, op, chain))
                else:
                    ctx.fail('C07.4', site, 'a hash container converted through %s reaches an ordered sink (%s) in hasher order: %s - equal values would give different envelopes' % (db.path, op, chain),
                             key='C07.4|dep|%s' % db.path)
            if not flows:
                ctx.ok('C07.4', '%s (from %s)' % (db.path, ob.path), 'dependency conversion body has no hash iteration', nontrivial=False)
            for bi, c, t in db.calls():
                if c is not None and c.rkrate in deps and c.rhash:
                    work.append((c.rkrate, c.rhash, d + 1, ob, obi))
    ctx.count('hash_iteration_sources', n_src)
    ctx.count('dependency_conversion_bodies_followed', n_dep)
    # positive control: the detector must recognise dcbor's raw HashSet -> Array conversion as an ordered flow
    D = deps['dcbor']
    pc = [x for x in (D.bodies if D else []) if x.impl_trait_full and 'From<std::collections::hash::set::HashSet<T>>' in x.impl_trait_full and x.impl_self and x.impl_self.endswith('CBOR')]
    if pc:
        fl = order.hash_order_flows(D, pc[0])
        if fl and fl[0][2] == 'ordered':
            ctx.ok('C07.4/control', pc[0].path, 'positive control: dcbor From<HashSet<T>> for CBOR is recognised as a hasher-order -> Array flow (and is not reachable from this crate)')
        else:
            ctx.fail('C07.4/control', pc[0].path, 'positive control failed: the ORDER rule no longer recognises the known raw HashSet->Array flow', key='C07.4|control')


_check_c07_core = check


def check_add_self_returns(ctx, inst, prefix='add_', floor=8):
    """No `add_*` entry point other than the two core adders returns self unchanged on a test of the receiver's content."""
    F = ctx.F
    P1 = ('param', 1)
    CORE = ('add_optional_assertion_envelope', 'add_optional_assertion_envelope_salted')
    n = 0
    for b in F.bodies:
        if not (b.name.startswith(prefix) and b.impl_self and b.impl_self.endswith('::Envelope') and '{closure' not in b.path) or b.name in CORE:
            continue
        n += 1
        tb = TermBuilder(F, b)
        def is_self(t):
            t = strip_sites(detry(t))
            if t[0] == 'agg' and t[2] == 'Ok' and t[3]:
                t = strip_sites(detry(t[3][0]))
            c = m_call(t, name='clone')
            return t == P1 or (c is not None and strip_sites(c[0]) == P1)
        for bi, si, t in ret_defs(tb):
            if not is_self(t):
                continue
            deciding = []
            for sb, dt in switch_on(tb, b, lambda d: True):
                if bi not in b.reachable(sb) or not b.dominates(sb, bi):
                    continue
                sd = strip_sites(dt)
                if contains(sd, lambda y: isinstance(y, tuple) and y and y[0] == 'call' and any(strip_sites(detry(a)) == P1 for a in y[2])):
                    deciding.append(sd)
            if deciding:
                ctx.fail(inst, ctx.site(b, bi, si), '%s returns self unchanged on a test of the receiver\'s content (%s): whether the assertion is added depends on what the envelope '
                         'already holds, beyond the digest-duplicate rule' % (b.name, fmt(deciding[0])[:160]), key='%s|%s' % (inst, b.name))
    ctx.need(inst, n >= floor, '%s* entry points of Envelope' % prefix)
    ctx.ok(inst, '-', '%d %s* entry points: none returns self on a query of the receiver (only the two core adders test the receiver, by digest: C04.3)' % (n, prefix), sample=str(n))


def check(ctx):
    _check_c07_core(ctx)
    # C07.5: the only test of the receiver's CONTENT that may turn an add into "return self unchanged" is the digest-duplicate test of
    # the two core adders (C04.3). A convenience adder (add_type, add_attachment, add_salt*, add_signature*, add_recipient*, ..) that
    # returns self on its own query of the receiver (has_type, a predicate lookup, ..) makes the result depend on HOW equal assertions
    # were added before (a decorated 'isA' assertion hides the plain one), i.e. on assembly order.
    check_add_self_returns(ctx, 'C07.5')
    # C07.6: the expression builders only ever ADD: with_parameter / with_optional_parameter bind a parameter by adding one assertion to
    # the expression's envelope and never remove or replace what is there (parameters are multi-valued; a "rebinding" builder makes the
    # result depend on the order in which equal parameters were bound)
    F = ctx.F
    if ctx.has('expression'):
        nb = 0
        for b in F.bodies:
            if b.name in ('with_parameter', 'with_optional_parameter') and '{closure' not in b.path:
                nb += 1
                bad = [c.name for bi, c, t in b.calls() if c is not None and c.name in ('remove_assertion', 'replace_assertion', 'replace_subject', 'elide_removing_target', 'elide_removing_set')]
                adds = [c.name for bi, c, t in b.calls() if c is not None and (c.name.startswith('add_assertion') or c.name in ('with_parameter', 'with_optional_parameter'))]
                if bad or not adds:
                    ctx.fail('C07.6', ctx.site(b), '%s %s: binding a parameter is not a pure add' % (b.path.split('::')[-2] + '::' + b.name, 'calls ' + '/'.join(bad) if bad else 'adds nothing'),
                             key='C07.6|' + b.path)
                else:
                    ctx.ok('C07.6', ctx.site(b), '%s only adds (%s)' % (b.name, '/'.join(sorted(set(adds)))), nontrivial=False)
        ctx.need('C07.6', nb >= 2, 'expression parameter builders')
