"""C16 — no operation panics on any envelope."""
from ..lib import *
from .. import panic

NEED_DEPS = True
EXPLANATION = (
    "PANIC ledger. Every panic-capable instruction in the MIR of every non-test body of the crate is enumerated: calls into "
    "core::panicking / begin_panic (panic!, assert!, unreachable!), Option/Result unwrap/expect, Index/IndexMut, Vec remove/insert/"
    "swap_remove/splice/.., slice windows/chunks, RefCell borrow(_mut), overflow / bounds / division Assert terminators "
    "(compiler-inserted alignment/null checks excluded), and calls of dependency APIs with a documented precondition "
    "(Compressed::digest, EncryptedMessage::digest, Salt::new_in_range*, SealedMessage::decrypt, ..). Each site has a line-free key "
    "(function, class, normalised receiver term) and must be discharged by one named rule evaluated on the current MIR: D-LEN, "
    "D-POSITION, D-HASDIGEST, D-CASEINV, D-ASSERTION-SUBJECT, D-OWNASSERT, D-GUARD, D-TOTAL, D-INITSOME, D-LOCK, D-COUNTER, D-PRESERVED, "
    "D-REFCELL, D-CONST, a T-REASON table entry, or the OUT-OF-FAMILY table (documented builder/registry misuse). Undischarged sites "
    "are violations unless their exact key is a known finding. C16.dep: every dcbor / bc-components function the crate calls whose own MIR (to depth 2) contains panic-capable instructions is either in the precondition table (its call sites are ledger sites) or in a reviewed table with the reason; a new such callee is reported. Does not decide allocation failure, stack overflow, or panics deeper inside "
    "dependencies.")
TRUSTED = ['dependency precondition table (panic.DEP_PRECONDITIONS) lists every dependency API used by the crate that panics on a violated precondition',
           'std APIs not in the enumerated classes do not panic on any input (e.g. Vec::push, HashMap::insert)']
FLOORS = {'C16': 95, 'C16.dep': 15}


def check(ctx):
    L = panic.Ledger(ctx)
    by_rule = {}
    for s in L.sites:
        b = s['body']
        site = ctx.site(b, s['block'])
        v = L.discharge(s)
        key = L.key(s)
        if v is None:
            ctx.fail('C16', site, 'undischarged panic-capable site [%s %s] receiver/arg: %s' % (s['cls'], s['what'], key.split('|')[-1] or '-'), key='C16|' + key, rule='PANIC/UNDISCHARGED')
        else:
            rule, arg = v
            by_rule[rule] = by_rule.get(rule, 0) + 1
            ctx.ok('C16', site + ' #%s' % s['what'], '[%s %s] discharged by %s: %s' % (s['cls'], s['what'], rule, arg), sample={'key': key, 'rule': rule})
    for r, n in sorted(by_rule.items()):
        ctx.count('discharged_by_' + r, n)
    ctx.count('panic_capable_sites', len(L.sites))
    # every dependency function the crate calls that can itself panic is either a ledger precondition or reviewed
    panic.dep_census(ctx, 'C16.dep')


def clippy_hits(repo):
    """Run the restriction lints that flag panic-capable constructs; returns [(lint, file, line)]. A census cross-reference, not a verdict."""
    import json, os, subprocess
    from .. import extract
    env = dict(os.environ)
    env['CARGO_NET_OFFLINE'] = 'true'
    env['CARGO_TARGET_DIR'] = os.path.join(extract.CACHE, 'target-clippy')
    env.pop('RUSTC_WRAPPER', None)
    env.pop('RUSTFLAGS', None)
    cmd = ['cargo', '+nightly', 'clippy', '--offline', '--lib', '--manifest-path', os.path.join(repo, 'Cargo.toml'), '--message-format=json', '--',
           '-A', 'clippy::all', '-W', 'clippy::unwrap_used', '-W', 'clippy::expect_used', '-W', 'clippy::panic', '-W', 'clippy::indexing_slicing',
           '-W', 'clippy::arithmetic_side_effects', '-W', 'clippy::unreachable']
    # force a re-lint of the crate itself
    subprocess.run(['touch', os.path.join(repo, 'src', 'lib.rs')])
    r = subprocess.run(cmd, env=env, capture_output=True, text=True)
    hits = []
    for l in r.stdout.splitlines():
        try:
            m = json.loads(l)
        except Exception:
            continue
        if m.get('reason') != 'compiler-message':
            continue
        msg = m['message']
        code = (msg.get('code') or {}).get('code', '')
        if not code.startswith('clippy::'):
            continue
        sp = [s for s in msg['spans'] if s.get('is_primary')]
        if sp:
            hits.append((code, sp[0]['file_name'], sp[0]['line_start'], sp[0]['line_end']))
    return hits, r.returncode


_check_ledger = check


def check(ctx):
    _check_ledger(ctx)
    if ctx.tier != 'thorough' or ctx.config != 'default':
        return
    from .. import extract
    hits, rc = clippy_hits(extract.REPO)
    if not hits:
        ctx.skip('C16/clippy', 'clippy produced no output (exit %s): cross-reference not available' % rc)
        return
    L = panic.Ledger(ctx)
    lines = set()
    for s in L.sites:
        sp = s['span']
        if sp:
            lines.add((sp['file'], sp['line']))
        # statement-level spans of the same block
        b = s['body']
        for st in b.blocks[s['block']]['stmts']:
            if st.get('span'):
                lines.add((st['span']['file'], st['span']['line']))
    missing = []
    for code, fn, l0, l1 in hits:
        if not any((fn, l) in lines for l in range(l0, l1 + 1)):
            missing.append((code, fn, l0))
    if missing:
        for code, fn, l0 in missing[:10]:
            ctx.fail('C16/clippy', '%s:%d' % (fn, l0), 'clippy %s flags a panic-capable construct that the MIR ledger does not list (census gap)' % code, key='C16/clippy|%s|%s|%d' % (code, fn, l0), rule='PANIC/CENSUS-GAP')
    else:
        ctx.ok('C16/clippy', '-', 'cross-reference: all %d sites flagged by clippy\'s unwrap_used/expect_used/panic/indexing_slicing/arithmetic_side_effects/unreachable lints are in the MIR ledger (%d ledger sites)' % (len(hits), len(L.sites)))
