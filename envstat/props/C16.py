"""C16 — no operation panics on any envelope."""
from ..lib import *
from .. import panic

NEED_DEPS = False
EXPLANATION = (
    "PANIC ledger. Every panic-capable instruction in the MIR of every non-test body of the crate is enumerated: calls into "
    "core::panicking / begin_panic (panic!, assert!, unreachable!), Option/Result unwrap/expect, Index/IndexMut, Vec remove/insert/"
    "swap_remove/splice/.., slice windows/chunks, RefCell borrow(_mut), overflow / bounds / division Assert terminators "
    "(compiler-inserted alignment/null checks excluded), and calls of dependency APIs with a documented precondition "
    "(Compressed::digest, EncryptedMessage::digest, Salt::new_in_range*, SealedMessage::decrypt, ..). Each site has a line-free key "
    "(function, class, normalised receiver term) and must be discharged by one named rule evaluated on the current MIR: D-LEN, "
    "D-POSITION, D-HASDIGEST, D-CASEINV, D-ASSERTION-SUBJECT, D-OWNASSERT, D-GUARD, D-TOTAL, D-INITSOME, D-LOCK, D-COUNTER, D-PRESERVED, "
    "D-REFCELL, D-CONST, a T-REASON table entry, or the OUT-OF-FAMILY table (documented builder/registry misuse). Undischarged sites "
    "are violations unless their exact key is a known finding. Does not decide allocation failure, stack overflow, or panics inside "
    "dependencies beyond the precondition table.")
TRUSTED = ['dependency precondition table (panic.DEP_PRECONDITIONS) lists every dependency API used by the crate that panics on a violated precondition',
           'std APIs not in the enumerated classes do not panic on any input (e.g. Vec::push, HashMap::insert)']
FLOORS = {'C16': 95}


def check(ctx):
    L = panic.Ledger(ctx)
    by_rule = {}
    for s in L.sites:
        b = s['body']
        site = ctx.site(b, s['block'])
        v = L.discharge(s)
        key = L.key(s)
        if v is None:
            ctx.fail('C16', site, 'undischarged panic-capable site [%s %s] receiver/arg: %s' % (s['cls'], s['what'], key.split('|')[-1] or '-'), key='C16|' + key, rule='PANIC/UNDISCHARGED')
        else:
            rule, arg = v
            by_rule[rule] = by_rule.get(rule, 0) + 1
            ctx.ok('C16', site + ' #%s' % s['what'], '[%s %s] discharged by %s: %s' % (s['cls'], s['what'], rule, arg), sample={'key': key, 'rule': rule})
    for r, n in sorted(by_rule.items()):
        ctx.count('discharged_by_' + r, n)
    ctx.count('panic_capable_sites', len(L.sites))
