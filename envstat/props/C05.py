"""C05 — serialization round-trips exactly (writer/reader table agreement)."""
from ..lib import *
from ..terms import TermBuilder
from .. import codec

NEED_DEPS = True
USES_QUERIES = True
EXPLANATION = (
    "CODEC rule over the resolved MIR: the encoder's case->(CBOR kind, tag) table is extracted from the per-arm value of "
    "`<Envelope as CBORTaggedEncodable>::untagged_cbor` (following tagged_cbor/untagged_cbor/Into<CBOR> into the dcbor and "
    "bc-components impl bodies), the decoder's (kind, tag)->case table from the accept exits of "
    "`<Envelope as CBORTaggedDecodable>::from_untagged_cbor` (arm regions of the CBOR-case and tag matches, constructor followed "
    "to the EnvelopeCase variant it builds). C05.1: the tables are mutually inverse except the listed alias Tagged(24)->Leaf. "
    "C05.2: assertion writer inserts exactly untagged(predicate)->untagged(object); reader builds Assertion::new(decode(key), "
    "decode(value)). C05.3: node writer emits [untagged(subject)] ++ untagged(assertions) in stored order; reader decodes "
    "element 0 as subject and the tail 1.. in order. C05.4: decoder accept values are constructor calls (digests recomputed). C05.5: the assertion-or-obscured predicate with which the decoder validates assertion slots has the expected table (Assertion / node over assertion; elided | encrypted | compressed subject), so everything the constructors can put into a slot is read back. C05.6: the writer's image lies in the reader's domain: every node the constructors build is non-empty, element-valid and without equal assertion digests (the C04.1/C04.3/C04.4 instances re-evaluated), because the reader refuses anything else. "
    "C05.7: every public decode entry point (TryFrom<CBOR>, try_from_cbor, try_from_cbor_data) is the tag-checking decoder applied exactly once to the value. C05.8: no refusal of the decoder's own inside the arm of a known tag value, and none that hangs on a case / shape test of an element it has just decoded. Does not decide dCBOR's own canonical round-trip of leaf values, nor the UR text codec.")
TRUSTED = ['dcbor: CBOR::to_tagged_value builds Tagged(tag, item); Map iterates in key order; CBOR::try_from_data accepts only dCBOR',
           'shape of dependency encoders is re-derived from the dcbor / bc-components MIR on every run']
ALIASES = {('Tagged', 24): 'Leaf'}   # deprecated leaf tag #6.24 read as #6.201 (named in the property)
FLOORS = {'C05.1': 8, 'C05.2': 2, 'C05.3': 2, 'C05.5': 2, 'C05.6': 10, 'C05.7': 3, 'C05.8': 1}


def check(ctx):
    F = ctx.F
    fl = [F, ctx.dep('bc_components'), ctx.dep('dcbor')]
    enc, enc_terms, problems = codec.encoder_table(ctx, fl)
    if enc is None:
        ctx.lost('C05.1', problems)
        return
    for p in problems:
        ctx.fail('C05.1', '-', p, key='C05.1|enc|' + p)
    dec = codec.decoder_table(ctx)
    if dec is None:
        ctx.lost('C05.1', 'decoder tables')
        return
    for p in dec['problems']:
        ctx.fail('C05.1', '-', p, key='C05.1|dec|' + p)
    b = dec['body']
    dtab = dec['table']
    # writer image must be read back as the same case
    for case, shapes in enc.items():
        site = enc_terms[case][1]
        for sh in shapes:
            got = dtab.get(sh)
            if got == {case}:
                ctx.ok('C05.1', site, 'writer %s -> %s ; reader %s -> %s' % (case, sh, sh, sorted(got)), sample={'case': case, 'shape': list(sh)})
            else:
                ctx.fail('C05.1', site, 'writer emits %s as %s but the reader maps %s to %s' % (case, sh, sh, sorted(got) if got else 'an error'),
                         key='C05.1|roundtrip|%s' % case)
    # reader must not accept shapes the writer never emits (except aliases)
    image = {}
    for case, shapes in enc.items():
        for sh in shapes:
            image.setdefault(sh, set()).add(case)
    for sh, cases in dtab.items():
        if sh in image:
            continue
        if sh in ALIASES and cases == {ALIASES[sh]}:
            ctx.ok('C05.1', ctx.site(b), 'listed alias %s read as %s' % (sh, ALIASES[sh]))
            continue
        ctx.fail('C05.1', ctx.site(b), 'reader accepts %s as %s but no case is written that way' % (sh, sorted(cases)), key='C05.1|extra|%s' % (sh,))
    for sh, cases in image.items():
        if len(cases) > 1:
            ctx.fail('C05.1', '-', 'two cases %s are written with the same shape %s' % (sorted(cases), sh), key='C05.1|ambiguous|%s' % (sh,))

    # ---- C05.2 assertion <-> single-entry map
    w = F.trait_impl('From', 'CBOR', 'from', trait_full_contains='Assertion')
    if len(w) != 1:
        ctx.lost('C05.2', 'From<Assertion> for CBOR')
    else:
        wb = w[0]
        tb = TermBuilder(F, wb)
        ins = [(bi, c, t) for bi, c, t in wb.calls() if c is not None and c.name == 'insert' and c.is_method('Map', 'insert')]
        if len(ins) != 1:
            ctx.fail('C05.2', ctx.site(wb), 'assertion writer performs %d map insertions (expected exactly 1)' % len(ins), key='C05.2|inserts')
        else:
            bi = ins[0][0]
            args = tb.call_args(bi)
            k = m_call(args[1], name='untagged_cbor')
            v = m_call(args[2], name='untagged_cbor')
            good = (k is not None and v is not None and strip_sites(k[0]) == ('vfield', ('param', 1), '', 'predicate')
                    and strip_sites(v[0]) == ('vfield', ('param', 1), '', 'object'))
            if good:
                ctx.ok('C05.2', ctx.site(wb, bi), 'writer: map[untagged(predicate)] = untagged(object)', sample=fmt(args[1]) + ' -> ' + fmt(args[2]))
            else:
                ctx.fail('C05.2', ctx.site(wb, bi), 'assertion writer inserts %s -> %s' % (fmt(args[1]), fmt(args[2])), key='C05.2|writer')
    r = F.trait_impl('TryFrom', 'Assertion', 'try_from', trait_full_contains='Map')
    if len(r) != 1:
        ctx.lost('C05.2', 'TryFrom<Map> for Assertion')
    else:
        rb = r[0]
        tb = TermBuilder(F, rb)
        acc = accept_sites(rb, tb)
        for bi, si, t in acc:
            t2 = t[3][0] if t[0] == 'agg' and t[2] == 'Ok' else t
            a = m_call(t2, name='new', self_suffix='Assertion')
            good = False
            if a is not None and len(a) == 2:
                p, o = unwrap_try(a[0]), unwrap_try(a[1])
                # strip env() conversion wrapper
                if p[0] == 'env': p = p[1]
                if o[0] == 'env': o = o[1]
                p, o = unwrap_try(p), unwrap_try(o)
                pa = m_call(p, name='from_untagged_cbor')
                oa = m_call(o, name='from_untagged_cbor')
                if pa is not None and oa is not None:
                    kp, vp = strip_sites(pa[0]), strip_sites(oa[0])
                    # key = elem.0, value = elem.1 of the same element of the map iteration
                    if kp[0] == 'vfield' and vp[0] == 'vfield' and kp[3] == '0' and vp[3] == '1' and kp[1] == vp[1]:
                        good = True
            if good:
                ctx.ok('C05.2', ctx.site(rb, bi, si), 'reader: Assertion::new(decode(entry.key), decode(entry.value))', sample=fmt(t))
            else:
                ctx.fail('C05.2', ctx.site(rb, bi, si), 'assertion reader does not build Assertion::new(decode(key), decode(value)): %s' % fmt(t), key='C05.2|reader')
        if not acc:
            ctx.lost('C05.2', 'accept site of TryFrom<Map> for Assertion')

    # ---- C05.3 node positions
    if 'Node' in enc_terms:
        val, site, enc_body, enc_use = enc_terms['Node']
        inner = m_call(val, name='into', trait='Into')
        arr = inner[0] if inner else val
        good = False
        if arr[0] == 'agg' and arr[1] == codec.CBORCASE and arr[2] == 'Array':
            v = arr[3][0]
            # any construction of the element vector (vec!+push loop, Vec::new+push/extend, once().chain().map().collect(), ..)
            # is compared in its sequence normal form: [one(untagged(subject)), each(untagged(elem(assertions)))]
            parts = seq_norm(v, enc_body, enc_use)
            def node_field(t, f):
                t = strip_sites(t)
                return t[0] == 'vfield' and t[2] == 'Node' and t[3] == f
            if parts is not None and len(parts) == 2 and parts[0][0] == 'one' and parts[1][0] == 'each':
                s0 = m_call(parts[0][1], name='untagged_cbor')
                pe = m_call(parts[1][1], name='untagged_cbor')
                if s0 is not None and pe is not None and node_field(s0[0], 'subject') and pe[0][0] == 'elem' and node_field(pe[0][1], 'assertions'):
                    good = True
        if good:
            ctx.ok('C05.3', site, 'writer: [untagged(subject)] then untagged(a) for a in assertions (stored order)', sample=fmt(val))
        else:
            ctx.fail('C05.3', site, 'node writer is not [untagged(subject)] ++ map(untagged, assertions): %s' % fmt(val), key='C05.3|writer')
    codec.check_node_reader(ctx, 'C05.3', dec)

    # ---- C05.4 decoder builds through constructors (no aggregate of EnvelopeCase in the decoding bodies)
    for bi, si, t, kind, tags, vs in dec['accepts']:
        if vs is None:
            ctx.fail('C05.4', ctx.site(b, bi, si), 'accept value is not a constructor call: %s' % fmt(t), key='C05.4|%s' % kind)
        else:
            ctx.ok('C05.4', ctx.site(b, bi, si), '%s%s -> constructor of %s (digest recomputed, see C01.2)' % (kind, tags if tags != [None] else '', sorted(vs)))


_check_inner = check


def check(ctx):
    _check_inner(ctx)
    # C05.5: what the constructors emit must be accepted back: the reader validates assertion slots with the same
    # assertion-or-obscured predicate the add paths enforce, so that predicate's table is part of the round trip.
    from . import C04
    from .C07 import Relabel
    C04.check_predicates(Relabel(ctx, 'C05.5', ['C04.4/pred']))
    # C05.6: the writer's image lies inside the reader's domain. The reader refuses a node with fewer than two elements, with
    # an element that is neither assertion nor obscured, or with assertion digests that are not strictly ascending; so every
    # node the constructors can build must be non-empty (C04.1), element-valid (C04.4) and free of equal digests (C04.3)
    # (sortedness is C01.2, evaluated for C01/C07). Re-evaluated here under this property's name.
    try:
        C04.check(Relabel(ctx, 'C05.6', ['C04.1', 'C04.3', 'C04.4']))
    except Exception as e:
        ctx.fail('C05.6', '-', 'writer-image obligations (C04.1/3/4) could not be evaluated: %r' % e, key='C05.6|c04')
    # C05.7: decode(encode(x)) = x through every public entry point: each of them is the tag-checking decoder applied once to the value
    # (an entry point that peels tags itself can return the content of a wrapped envelope instead of the wrapped envelope)
    from . import C06
    C06.check_entry_points(ctx, 'C05.7')
    # C05.8: the reader refuses nothing the writer can emit under a tag it knows: inside the arm of a known tag value the decoder has no
    # refusal of its own (an explicit Err exit) - only the `?` of the payload decoders and of the checked constructors, whose conditions
    # the writers enforce too (has_digest). A size / ratio / depth / content test added to one arm makes some encodable envelopes
    # undecodable.
    dec = codec.decoder_table(ctx)
    if dec is None:
        ctx.lost('C05.8', 'decoder tables')
    else:
        b, tb = dec['body'], dec['tb']
        tagv = find_terms(b, tb, lambda x: x[0] == 'call' and call_name(x) == 'value' and contains(x, lambda y: isinstance(y, tuple) and y and y[0] == 'vfield' and y[2] == 'Tagged'))
        cased = find_terms(b, tb, lambda x: x[0] == 'discr' and m_call(x[1], name='as_case') is not None)
        known = set()
        for sb, dt in switch_on(tb, b, lambda d: tagv and strip_sites(d) == tagv[0]):
            known |= {v for v, _bb in b.term(sb)['targets']}
        errs = [(bi, si, t) for bi, si, t in ret_defs(tb) if t[0] == 'agg' and t[2] == 'Err']
        if len(tagv) != 1 or not known or len(cased) != 1:
            ctx.lost('C05.8', 'tag dispatch of the decoder')
        else:
            bad = []
            for v in sorted(known):
                env = {tagv[0]: v}
                R = reach_under(b, tb, env)
                for bi, si, t in errs:
                    if bi in R:
                        # reachable under this tag value: is it reachable ONLY via the tag arm (i.e. not from the other CBOR cases)?
                        R_other = reach_under(b, tb, {tagv[0]: -1})
                        if bi not in R_other:
                            bad.append((v, bi, si))
            for v, bi, si in bad[:4]:
                ctx.fail('C05.8', ctx.site(b, bi, si), 'the decoder refuses on a condition of its own inside the arm of known tag %s: some envelopes the writer emits under that tag do not decode' % v,
                         key='C05.8|tag|%s' % v)
            # ... and none that hangs on a case / shape test of an element it has just decoded (array arm: the subject and the assertion
            # elements): what may stand where is the checked constructor's business, which the writers go through too
            def elem_test(x):
                x = strip_sites(detry(x))
                if x[0] == 'discr':
                    if m_call(x[1], name='branch') is not None:
                        return False
                    x = strip_sites(x[1])
                if x[0] != 'call' or not (call_name(x).startswith('is_') or call_name(x) in ('case', 'has_assertions')):
                    return False
                return contains(x, lambda y: isinstance(y, tuple) and y and y[0] == 'call' and call_name(y) == 'from_untagged_cbor')
            for bi, si, t in errs:
                for passing in (True, False):
                    ok_, _info = guard_dominates(b, tb, [bi], elem_test, passing)
                    if ok_:
                        bad.append(('elem', bi, si))
                        ctx.fail('C05.8', ctx.site(b, bi, si), 'the decoder refuses on a case / shape test of an element it has just decoded: envelopes the constructors build '
                                 '(and the writer emits) with that shape do not decode', key='C05.8|element-test')
                        break
            if not bad:
                ctx.ok('C05.8', ctx.site(b), 'no refusal of the decoder\'s own inside the arms of the %d known tag values (only `?` of payload decoders / checked constructors)' % len(known),
                       sample=str(sorted(known)))
