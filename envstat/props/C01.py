"""C01 — digest tree of every envelope matches the specification (formula at every construction site)."""
from ..lib import *
from ..terms import TermBuilder
from .. import codec

NEED_DEPS = True
USES_QUERIES = True
EXPLANATION = (
    "Static rule checking over the resolved MIR of /repo. C01.1 census: every aggregate construction of an EnvelopeCase "
    "variant, of the Assertion struct and of the Envelope tuple in non-test code is located; C01.2: at each site the digest "
    "field's recovered value term must equal the specification formula for that case applied to the very payload stored "
    "beside it (leaf: from_image(to_cbor_data(cbor)); known value: digest(value) with DigestProvider for KnownValue = "
    "from_image(to_cbor_data(tagged_cbor(self))); wrapped: from_digests([digest(envelope)]); assertion: "
    "from_digests([digest(predicate), digest(object)]); node: assertions = sort_by(input, cmp(digest(a),digest(b))), digest = "
    "from_digests([digest(subject)] ++ map(digest, sorted assertions))); C01.3: DigestProvider for Envelope returns, per "
    "variant arm, that arm's own stored/declared digest and the match is exhaustive; C01.4: no mutation path (no projected "
    "assignment through Envelope/EnvelopeCase/Assertion, no Rc/Arc get_mut/make_mut/try_unwrap, no interior mutability in the "
    "type tree, no &mut self method); C01.5: every decoder accept value is a constructor call over the decoded children (node = constructor(decode(elements[0]), decode(elements[1..]))); C01.6 route independence: a node's digest is a function of the set of its assertion digests, so the add path refuses an element whose digest is present and the remove path takes out exactly the element with the target's digest (the C04.1/C04.3/C04.5 instances re-evaluated here: every assertion vector handed to a node constructor has a recognised non-empty, duplicate-free form). The digest list and the stored vector are compared in sequence normal form (vec!+push loop, extend(map), once().chain().map().collect() are the same sequence); a comparator may be a closure or a crate function. C01.7: every digest-declaring sink (elide / encrypt / compress, incl. the action arms of the obscuring descent) declares the digest of the very element it replaces (the C02.1/C02.2 instances). Does not decide SHA-256, dCBOR serialisation or Digest::from_digests' concatenation."
    " C01.8: what uncompress / decrypt_subject return has the digest the obscured element declared (the C13.2 / C08.2 guards re-evaluated here).")
TRUSTED = ['Digest::from_image = SHA-256 of its argument', 'Digest::from_digests hashes the concatenation of the slice in order',
           'CBOR::to_cbor_data is the dCBOR serialisation']
ASSUMPTIONS = ['dependencies behave as their documented summaries']
FLOORS = {'C01.1': 8, 'C01.2': 5, 'C01.3': 5, 'C01.4': 4, 'C01.5': 6, 'C01.6': 5}


def comparator_table(ctx, F, closure_path):
    """Evaluate a sort comparator closure: returns description term of its result."""
    cb = F.closure(closure_path)
    if cb is None:
        return None
    tb = TermBuilder(F, cb)
    return tb.return_term()


def comparator_value(ctx, F, callable_):
    """Result term of a comparator / key function given as a closure or as a function item, over the element parameters
    ('param', 2) and ('param', 3) (closure numbering)."""
    if not (isinstance(callable_, tuple) and callable_):
        return None
    if callable_[0] == 'closure':
        return comparator_table(ctx, F, callable_[1])
    if callable_[0] == 'fnref':
        c = CALLEES.get(callable_[1])
        fb = F.by_hash.get(c.best_hash) if c is not None else None
        if fb is None or fb.dk == 'Closure':
            return None
        rt = return_term_of(F, fb)
        return subst(rt, {('param', 1): ('param', 2), ('param', 2): ('param', 3)})
    return None


def check_node(ctx, b, tb, agg, site, bi=None):
    fields = dict(zip(agg[4], agg[3]))
    subj, asrt, dig = fields.get('subject'), fields.get('assertions'), fields.get('digest')
    inst = 'C01.2/node'
    # assertions = sort_by!(A, closure)
    a = m_call(asrt, name='sort_by', kind='mut') or m_call(asrt, name='sort_unstable_by', kind='mut')
    key_sort = False
    if a is None:
        a = m_call(asrt, name='sort_by_key', kind='mut') or m_call(asrt, name='sort_by_cached_key', kind='mut')
        key_sort = a is not None
    if a is None and strip_sites(asrt)[0] == 'param':
        # a constructor that trusts its caller's order: the obligation moves to every call site (universal over sites)
        if not check_digest_formula(ctx, inst, site, subj, asrt, dig, use=(b, bi) if bi is not None else None):
            return
        k = strip_sites(asrt)[1]
        callers = ctx.F.callers().get(b.hash, [])
        if not callers:
            ctx.fail(inst, site, 'order-trusting node constructor without any caller to judge', key=inst + '|trust_nocaller')
            return
        allok = True
        for cb, cbi in callers:
            ctb = TermBuilder(ctx.F, cb)
            arg = ctb.call_args(cbi)[k - 1]
            okc, why = ordered_vector(ctx, cb, arg)
            csite = ctx.site(cb, cbi)
            if okc:
                ctx.ok(inst, csite, 'caller of the order-trusting constructor passes %s' % why)
            else:
                allok = False
                ctx.fail(inst, csite, 'passes an assertion vector that is not known to be in ascending digest order to a constructor that does not sort: %s' % why,
                         key=inst + '|trust_caller|' + cb.path)
        if allok:
            ctx.ok(inst, site, 'constructor hashes [digest(subject)] ++ digests of the given vector; every caller passes a digest-ordered vector')
        return
    if a is None:
        ctx.fail(inst, site, 'stored assertion vector is not the result of a sort: %s' % fmt(asrt), key=inst + '|nosort')
        return
    if asrt[2] != 0:
        ctx.fail(inst, site, 'sort applied to something else than the stored vector', key=inst + '|sortarg')
        return
    base = a[0]
    if contains(base, lambda x: x[0] == 'mut'):
        ctx.fail(inst, site, 'assertion vector mutated before the sort by something other than the sort: %s' % fmt(base), key=inst + '|premut')
        return
    clo = a[1]
    rt = comparator_value(ctx, ctx.F, clo)
    if rt is None:
        ctx.fail(inst, site, 'sort comparator is neither a closure nor a crate function: %s' % fmt(clo), key=inst + '|cmp')
        return
    good = False
    if rt is not None:
        if key_sort:
            x = m_digest(rt)
            good = x is not None and strip_sites(x) == ('param', 2)
        else:
            c = m_call(rt, name='cmp', trait='Ord')
            if c is None:
                pc = m_call(rt, name='partial_cmp', trait='PartialOrd')
                c = pc
            if c is not None and len(c) == 2:
                x, y = m_digest(c[0]), m_digest(c[1])
                good = x is not None and y is not None and strip_sites(x) == ('param', 2) and strip_sites(y) == ('param', 3)
    if not good:
        ctx.fail(inst, site, 'sort comparator is not ascending order of element digests: %s' % (fmt(rt) if rt else '?'), key=inst + '|cmpform')
        return
    if check_digest_formula(ctx, inst, site, subj, asrt, dig, use=(b, bi) if bi is not None else None):
        ctx.ok(inst, site, 'assertions=sort_by(input, cmp(digest(a),digest(b))); digest=from_digests([digest(subject)]++map(digest, sorted))',
               sample=fmt(agg))


def sort_comparator_ok(ctx, clo, key_sort=False):
    rt = comparator_value(ctx, ctx.F, clo)
    if rt is None:
        return False, 'comparator is not a closure or crate function'
    if key_sort:
        x = m_digest(rt)
        return (x is not None and strip_sites(x) == ('param', 2)), fmt(rt)
    c = m_call(rt, name='cmp', trait='Ord') or m_call(rt, name='partial_cmp', trait='PartialOrd')
    if c is not None and len(c) == 2:
        x, y = m_digest(c[0]), m_digest(c[1])
        return (x is not None and y is not None and strip_sites(x) == ('param', 2) and strip_sites(y) == ('param', 3)), fmt(rt)
    return False, fmt(rt)


def ordered_vector(ctx, body, t):
    """Is term t (in `body`) known to be in ascending digest order? -> (bool, description)"""
    from .. import obscure
    st = strip_sites(t)
    a = m_call(t, name='sort_by', kind='mut') or m_call(t, name='sort_unstable_by', kind='mut')
    if a is not None and t[2] == 0:
        ok_, why = sort_comparator_ok(ctx, a[1])
        return ok_, 'sort_by(.., %s)' % why
    if st[0] == 'vfield' and obscure.child_kind(st) == 'Node.assertions':
        return True, 'the assertions of an existing node (ordered by induction)'
    c = m_call(st, name='assertions', self_suffix='Envelope')
    if c is not None:
        return True, 'assertions(x) of an existing envelope (ordered by induction)'
    if st[0] == 'mut' and call_name(st) == 'remove' and st[2] == 0:
        ok_, why = ordered_vector(ctx, body, st[3][0])
        return ok_, 'remove(%s) keeps the order' % why
    col = m_call(st, name='collect', trait='Iterator')
    mp = m_call(col[0], name='map', trait='Iterator') if col else None
    if mp is not None:
        ok_, why = ordered_vector(ctx, body, elem_source(mp[0]))
        obsc = ctx.F.method1('Envelope', 'elide_set_with_action')
        root = body
        if body.dk == 'Closure' and body.closure_parent:
            root = ctx.F.closure_host(body) or body
        if ok_ and obsc is not None and root.hash == obsc.hash:
            return True, 'element-wise digest-preserving image (obscuring recursion, C02.4) of %s' % why
        return False, 'an element-wise map whose digest preservation is not established here: %s' % fmt(st)
    return False, fmt(st)


def check_digest_formula(ctx, inst, site, subj, asrt, dig, use=None):
    d = m_call(dig, name='from_digests', self_suffix='Digest')
    if d is None or len(d) != 1:
        ctx.fail(inst, site, 'node digest is not Digest::from_digests(..): %s' % fmt(dig), key=inst + '|fromdigests')
        return False
    # the hashed list in sequence normal form: [one(digest(subject)), each(digest(e)) for e in the stored (sorted) vector]
    ok = False
    body, use_block = (use if use else (None, None))
    parts = seq_norm(d[0], body, use_block)
    if parts is None:
        why = 'digest list has an unrecognised construction: %s' % fmt(d[0])
    elif len(parts) != 2 or parts[0][0] != 'one' or parts[1][0] != 'each':
        why = 'digest list is not [digest(subject)] followed by one digest per stored assertion: %s' % [(k, fmt(v)) for k, v in parts]
    else:
        x0 = m_digest(parts[0][1])
        xe = m_digest(parts[1][1])
        sa = strip_sites(detry(asrt))
        if x0 is None or not same(x0, strip_sites(detry(subj))):
            why = 'digest list does not start with exactly digest(subject): %s' % fmt(parts[0][1])
        elif xe is None or xe[0] != 'elem' or strip_sites(elem_source(xe[1])) != strip_sites(elem_source(sa)):
            why = 'digest list is not extended by the element digests of the stored (sorted) assertion vector: %s' % fmt(parts[1][1])
        else:
            ok = True
    if not ok:
        ctx.fail(inst, site, why, key=inst + '|formula')
        return False
    return True


def check(ctx):
    F = ctx.F
    # ---------------- C01.1 census + C01.2 formulas
    sites = agg_sites(F, CASE)
    ctx.count('envelope_case_construction_sites', len(sites))
    variants = adt_variants(F, CASE)
    ctx.need('C01.1', variants, 'EnvelopeCase ADT')
    seen_variants = set()
    for b, bi, si, rv in sites:
        tb = TermBuilder(F, b)
        agg = inline_deep(F, tb.rvalue_term(rv, bi, si))     # private helpers are looked through (constructors are not)
        v = rv['variant']
        seen_variants.add(v)
        site = ctx.site(b, bi, si)
        ctx.ok('C01.1', site, 'construction site of EnvelopeCase::%s' % v)
        fields = dict(zip(agg[4], agg[3]))
        if v == 'Node':
            check_node(ctx, b, tb, agg, site, bi)
        elif v == 'Leaf':
            inst = 'C01.2/leaf'
            a = m_call(fields['digest'], name='from_image', self_suffix='Digest')
            inner = m_call(a[0], name='to_cbor_data') if a else None
            if inner is not None and same(inner[0], fields['cbor']):
                ctx.ok(inst, site, 'digest = from_image(to_cbor_data(cbor)) over the stored cbor', sample=fmt(agg))
            else:
                ctx.fail(inst, site, 'leaf digest is not from_image(to_cbor_data(<stored cbor>)): %s' % fmt(agg), key=inst)
        elif v == 'Wrapped':
            inst = 'C01.2/wrapped'
            a = m_call(fields['digest'], name='from_digests', self_suffix='Digest')
            okk = False
            if a and a[0][0] in ('array', 'list') and len(a[0][1]) == 1:
                x = m_digest(a[0][1][0])
                okk = x is not None and same(x, fields['envelope'])
            if okk:
                ctx.ok(inst, site, 'digest = from_digests([digest(envelope)]) over the stored envelope', sample=fmt(agg))
            else:
                ctx.fail(inst, site, 'wrapped digest is not from_digests([digest(<stored envelope>)]): %s' % fmt(agg), key=inst)
        elif v == 'KnownValue':
            inst = 'C01.2/known_value'
            x = m_digest(fields['digest'])
            if x is None:
                # the KnownValue digest impl looked through: from_image(to_cbor_data(tagged_cbor(value)))
                a_ = m_call(fields['digest'], name='from_image', self_suffix='Digest')
                i1 = m_call(a_[0], name='to_cbor_data') if a_ else None
                i2 = m_call(i1[0], name='tagged_cbor') if i1 else None
                x = i2[0] if i2 else None
            if x is not None and same(x, fields['value']):
                ctx.ok(inst, site, 'digest = digest(value) of the stored value', sample=fmt(agg))
            else:
                ctx.fail(inst, site, 'known-value digest is not digest(<stored value>): %s' % fmt(agg), key=inst)
        else:
            # Assertion / Elided / Encrypted / Compressed carry their payload only
            pass
    for v in variants:
        if v not in seen_variants:
            ctx.lost('C01.1', 'no construction site for EnvelopeCase::%s' % v)
    # KnownValue digest impl
    if 'KnownValue' in variants:
        impl = F.trait_impl('DigestProvider', 'KnownValue', 'digest')
        if len(impl) != 1:
            ctx.lost('C01.2/known_value_impl', 'DigestProvider for KnownValue')
        else:
            tb = TermBuilder(F, impl[0])
            rt = tb.return_term()
            a = m_call(rt, name='from_image', self_suffix='Digest')
            i1 = m_call(a[0], name='to_cbor_data') if a else None
            i2 = m_call(i1[0], name='tagged_cbor') if i1 else None
            if i2 is not None and strip_sites(i2[0]) == ('param', 1):
                ctx.ok('C01.2/known_value_impl', ctx.site(impl[0]), 'digest(self) = from_image(to_cbor_data(tagged_cbor(self)))', sample=fmt(rt))
            else:
                ctx.fail('C01.2/known_value_impl', ctx.site(impl[0]), 'KnownValue digest is not over the tagged CBOR: %s' % fmt(rt), key='C01.2/known_value_impl')
    # Assertion struct
    asites = agg_sites(F, ASSERTION)
    if not asites:
        ctx.lost('C01.1', 'no construction site of Assertion')
    for b, bi, si, rv in asites:
        tb = TermBuilder(F, b)
        agg = inline_deep(F, tb.rvalue_term(rv, bi, si))
        site = ctx.site(b, bi, si)
        ctx.ok('C01.1', site, 'construction site of Assertion')
        fields = dict(zip(agg[4], agg[3]))
        inst = 'C01.2/assertion'
        a = m_call(fields['digest'], name='from_digests', self_suffix='Digest')
        okk = False
        if a and a[0][0] in ('array', 'list') and len(a[0][1]) == 2:
            x, y = m_digest(a[0][1][0]), m_digest(a[0][1][1])
            okk = x is not None and y is not None and same(x, fields['predicate']) and same(y, fields['object'])
        if okk:
            ctx.ok(inst, site, 'digest = from_digests([digest(predicate), digest(object)]) over the stored fields', sample=fmt(agg))
        else:
            ctx.fail(inst, site, 'assertion digest is not from_digests([digest(<stored predicate>), digest(<stored object>)]): %s' % fmt(agg), key=inst)
    # Envelope tuple
    for b, bi, si, rv in agg_sites(F, ENVELOPE):
        tb = TermBuilder(F, b)
        agg = tb.rvalue_term(rv, bi, si)
        site = ctx.site(b, bi, si)
        inner = agg[3][0]
        if strip_sites(inner) == ('param', 1) and b.impl_trait and b.impl_trait.endswith('From'):
            ctx.ok('C01.1', site, 'Envelope(..) wraps the given EnvelopeCase unchanged')
        else:
            ctx.fail('C01.1', site, 'Envelope tuple built outside From<EnvelopeCase>: %s' % fmt(agg), key='C01.1|envelope_tuple|' + b.path)

    # ---------------- C01.3 digest accessor
    impl = F.trait_impl('DigestProvider', 'Envelope', 'digest')
    if len(impl) != 1:
        ctx.lost('C01.3', 'DigestProvider for Envelope')
    else:
        b = impl[0]
        tb = TermBuilder(F, b)
        sw = list(switch_on(tb, b, lambda d: d[0] == 'discr' and m_call(d[1], name='case', self_suffix='Envelope') is not None and strip_sites(m_call(d[1], name='case', self_suffix='Envelope')[0]) == ('param', 1)))
        if len(sw) != 1:
            ctx.lost('C01.3', 'match on self.case() in digest()')
        else:
            sb, _ = sw[0]
            t = b.term(sb)
            if not block_is_unreachable(b, t['otherwise']):
                ctx.fail('C01.3', ctx.site(b, sb), 'digest() has a wildcard arm: not every case returns its own digest', key='C01.3|wildcard')
            regions = arm_regions(b, sb)
            tvals = dict((v, bb) for v, bb in t['targets'])
            for idx, vname in enumerate(variants):
                if idx not in tvals:
                    ctx.fail('C01.3', ctx.site(b, sb), 'no arm for EnvelopeCase::%s' % vname, key='C01.3|noarm|' + vname)
                    continue
                tgt, reg = regions[idx]
                rds = arm_ret_values(b, tb, sb, idx)
                if len(rds) != 1:
                    ctx.fail('C01.3', ctx.site(b, tgt), 'arm %s does not produce exactly one value' % vname, key='C01.3|armshape|' + vname)
                    continue
                val = strip_sites(rds[0][2])
                case_t = ('call',)
                def own(t, field):
                    return t[0] == 'vfield' and t[2] == vname and t[3] == field and m_call(t[1], name='case', self_suffix='Envelope') is not None
                good = False
                if vname in ('Node', 'Leaf', 'Wrapped', 'KnownValue'):
                    good = own(val, 'digest')
                elif vname == 'Elided':
                    good = own(val, '0')
                else:
                    x = m_digest(val)
                    good = x is not None and own(x, '0')
                if good:
                    ctx.ok('C01.3', ctx.site(b, tgt), 'arm %s returns its own stored/declared digest: %s' % (vname, fmt(val)))
                else:
                    ctx.fail('C01.3', ctx.site(b, tgt), 'arm %s returns %s, not its own digest' % (vname, fmt(val)), key='C01.3|arm|' + vname)
    # Assertion::digest returns its field
    impl = F.trait_impl('DigestProvider', 'Assertion', 'digest')
    if len(impl) == 1:
        tb = TermBuilder(F, impl[0])
        rt = strip_sites(tb.return_term())
        if rt == ('vfield', ('param', 1), '', 'digest'):
            ctx.ok('C01.3', ctx.site(impl[0]), 'Assertion::digest returns the stored digest field')
        else:
            ctx.fail('C01.3', ctx.site(impl[0]), 'Assertion::digest returns %s' % fmt(rt), key='C01.3|assertion')
    else:
        ctx.lost('C01.3', 'DigestProvider for Assertion')

    # ---------------- C01.5 decoded envelopes are rebuilt through the constructors over the decoded children
    codec.check_node_reader(ctx, 'C01.5')
    dec = codec.decoder_table(ctx)
    if dec is not None:
        b = dec['body']
        for bi, si, t, kind, tags, vs in dec['accepts']:
            if vs is None:
                ctx.fail('C01.5', ctx.site(b, bi, si), 'decoder accept value is not a (digest-computing) constructor call: %s' % fmt(t), key='C01.5|%s' % kind)
            else:
                ctx.ok('C01.5', ctx.site(b, bi, si), 'decoder %s -> constructor of %s (digest recomputed by C01.2 formula)' % (kind, sorted(vs)))
    # ---------------- C01.4 immutability
    check_immutability(ctx, 'C01.4')


PROTECTED = ('Envelope', 'EnvelopeCase', 'Assertion')
INTERIOR = ('core::cell::Cell', 'core::cell::RefCell', 'core::cell::UnsafeCell', 'std::sync::Mutex', 'std::sync::RwLock',
            'std::sync::poison::mutex::Mutex', 'std::sync::poison::rwlock::RwLock', 'core::cell::once::OnceCell',
            'std::sync::once_lock::OnceLock', 'std::sync::lazy_lock::LazyLock', 'core::cell::lazy::LazyCell', 'std::sync::once::Once',
            'std::sync::poison::once::Once')


def check_immutability(ctx, inst):
    F = ctx.F
    # (a) no projected assignment through a protected ADT
    n = 0
    for b in F.bodies:
        for bi, bl in enumerate(b.blocks):
            if bl['cleanup']:
                continue
            for si, st in enumerate(bl['stmts']):
                if st['k'] != 'assign' or not st['place']['p']:
                    continue
                pl = st['place']
                # a Field projection applied to a value whose type is a protected ADT = mutation inside it
                cur = b.local_ty(pl['l'])
                hit = []
                for e in pl['p']:
                    if isinstance(e, dict) and 'f' in e:
                        if any(ty_matches(cur, p) and 'bc_envelope' in cur for p in PROTECTED):
                            hit.append(cur)
                        cur = e['ty']
                n += 1
                if hit and not (st['span'].get('exp') and st['span'].get('mac') in ('Clone', 'Debug')):
                    ctx.fail(inst, ctx.site(b, bi, si), 'in-place assignment through %s (a stored digest could go stale)' % hit[0],
                             key='%s|assign|%s' % (inst, b.path))
    ctx.ok(inst + '/no_projected_assignment', '-', '%d projected assignments scanned, none through Envelope/EnvelopeCase/Assertion' % n, nontrivial=n > 0)
    # (b) no Rc/Arc mutation back doors on envelope types
    bad = F.call_sites(lambda c: c.name in ('get_mut', 'make_mut', 'try_unwrap', 'get_mut_unchecked', 'into_inner', 'unwrap_or_clone')
                       and (strip_generics(c.path).startswith('alloc::rc::Rc') or strip_generics(c.path).startswith('alloc::sync::Arc'))
                       and any('Envelope' in a for a in c.args))
    for b, bi, c, t in bad:
        ctx.fail(inst, ctx.site(b, bi), 'Rc/Arc back door %s on an envelope' % c.name, key='%s|rc|%s' % (inst, b.path))
    ctx.ok(inst + '/no_rc_backdoor', '-', 'no Rc/Arc::{get_mut,make_mut,try_unwrap,..} call on EnvelopeCase', nontrivial=True)
    # (c) no interior mutability reachable from Envelope's fields
    tree = {n['ty']: n for n in F.type_tree}
    root = ENVELOPE
    if root not in tree:
        ctx.lost(inst, 'type tree of Envelope')
        return
    seen = set()
    work = [root]
    found = []
    while work:
        t = work.pop()
        if t in seen or t not in tree:
            continue
        seen.add(t)
        node = tree[t]
        adt = node.get('adt', '')
        if adt in INTERIOR or adt.startswith('core::sync::atomic::Atomic'):
            found.append(t)
        work.extend(node.get('children', []))
    for t in found:
        ctx.fail(inst, '-', 'interior mutability reachable from Envelope: %s' % t, key='%s|interior|%s' % (inst, t))
    ctx.ok(inst + '/no_interior_mutability', '-', '%d types reachable from Envelope scanned (std containers opaque), no Cell/RefCell/Mutex/Atomic/Once' % len(seen), nontrivial=True)
    ctx.count('types_reachable_from_envelope', len(seen))
    # (d) no &mut self method on the protected types
    nm = 0
    for it in F.items:
        st = it.get('impl_self')
        if st and any(ty_matches(st, p) and 'bc_envelope' in st for p in PROTECTED) and it.get('inputs'):
            nm += 1
            if it['inputs'][0].lstrip().startswith('&') and 'mut ' in it['inputs'][0][:14] and it.get('has_self'):
                ctx.fail(inst, '%s:%s' % (it['span']['file'], it['span']['line']), '&mut self method %s on an immutable envelope type' % it['path'],
                         key='%s|mutself|%s' % (inst, it['path']))
    ctx.ok(inst + '/no_mut_self', '-', '%d methods on Envelope/EnvelopeCase/Assertion scanned, none takes &mut self' % nm, nontrivial=nm > 0)
    ctx.count('envelope_methods', nm)


_check_inner = check


def check(ctx):
    _check_inner(ctx)
    # C01.6: "the value never depends on the route": a node's digest is a function of the SET of its assertion digests, so the
    # add path must refuse an element whose digest is already present (else the node hashes a digest twice, which the
    # specification excludes) and the remove path must take out exactly the element with the target's digest (else
    # add-then-remove is not the identity). These are the C04.3 / C04.5 instances, re-evaluated under this property.
    from . import C04
    from .C07 import Relabel
    try:
        C04.check(Relabel(ctx, 'C01.6', ['C04.1', 'C04.3', 'C04.5']))
    except Exception as e:
        ctx.fail('C01.6', '-', 'route-independence obligations (C04.3/C04.5) could not be evaluated: %r' % e, key='C01.6|c04')
    # C01.7: "the declared digest for an elided, encrypted or compressed element": every digest-declaring sink pairs its payload with
    # the digest of the very element it replaces (the C02.1 / C02.2 instances: the sinks, and the action arms of the obscuring descent)
    from .. import obscure
    try:
        obscure.check_sinks(ctx, 'C01.7')
        obscure.check_obscure_region(ctx, 'C01.7/action')
        obscure.check_elide_primitive(ctx, 'C01.7/elide')
    except Exception as e:
        ctx.fail('C01.7', '-', 'declared-digest pairing (C02.1/C02.2) could not be evaluated: %r' % e, key='C01.7|c02')
    # C01.8: what uncompress / decrypt_subject hand back has the digest the obscured element declared (the content checks C13.2 / C08.2)
    from .C07 import Relabel as _Relabel
    if ctx.has('compress'):
        from . import C13
        try:
            C13.check(_Relabel(ctx, 'C01.8', ['C13.2']))
        except Exception as e:
            ctx.fail('C01.8', '-', 'uncompress digest check (C13.2) could not be evaluated: %r' % e, key='C01.8|c13')
    if ctx.has('encrypt'):
        from . import C08
        try:
            C08.check(_Relabel(ctx, 'C01.8', ['C08.2']))
        except Exception as e:
            ctx.fail('C01.8', '-', 'decrypt digest check (C08.2) could not be evaluated: %r' % e, key='C01.8|c08')
