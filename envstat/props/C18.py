"""C18 — expression, request, response and event envelopes round-trip."""
from ..lib import *
from ..terms import TermBuilder
from .C09 import const_name
import itertools

REQUIRES = ['expression']
USES_QUERIES = True
EXPLANATION = (
    "CODEC/TABLE/GUARD rules. For Request, Event and Response the writer (From<T> for Envelope) is parsed as a builder chain "
    "subject + add_assertion*/add_optional_assertion/add_assertion_if calls, giving a table field-path -> {subject tag | predicate}; the "
    "reader (TryFrom<Envelope> for T) gives the table construction-path -> {expected tag | predicate} from the struct aggregate it returns. "
    "C18.1: the two tables agree path by path (including the Ok/Err variants of Response and the optional id) and no predicate is read "
    "that is never written. C18.2: the response parser evaluated under all valuations of (result present, error present) ends in "
    "FF->Err, TT->Err, TF->Ok(success), FT->Ok(failure). C18.3: with an expected function, Ok is reachable only when the parsed function "
    "equals it (valuation over expected.is_some, equal). C18.4: each parser's subject goes through try_into_expected_tagged_value with the "
    "writer's tag. C18.5: early failure: the writer's 'Unknown' known value is the very constant the reader compares with; any other known "
    "value is an Err. Function/Parameter: Known <-> unsigned, Named <-> text under the same tag, and the reader refuses nothing of a kind the writer produces. C18.6: names that may be stored as a static or an owned string (the parser always produces the owned form) compare and hash by their text, never by storage variant. C18.9: a field written conditionally (add_assertion_if) is written iff !is_empty(that very field), the complement of the reader's empty default. C18.10: the well-known Function / Parameter / KnownValue constants have pairwise distinct codes and names. C18.11: Function / Parameter equality by variant pair (mixed -> false, Known by code, Named by name). Does not decide value-level round-trip of "
    "Date, ARID or arbitrary parameter values (dcbor / bc-components)."
    " C18.3 also: the function compared with the expected one is function(the parsed expression, unmodified).")
TRUSTED = ['CBOR::try_into_expected_tagged_value fails unless the tag matches', 'ARID/Date/String CBOR conversions round-trip (dependencies)']
FLOORS = {'C18.1': 10, 'C18.2': 1, 'C18.3': 1, 'C18.4': 3, 'C18.5': 1, 'C18.6': 2, 'C18.9': 2, 'C18.10': 3, 'C18.11': 2}
P1 = ('param', 1)
ADDERS = {'add_assertion': (1, 2, 'always'), 'add_optional_assertion': (1, 2, 'optional'), 'add_assertion_if': (2, 3, 'conditional'),
          'add_assertion_envelope': (None, 1, 'always')}


def field_path(t):
    """Path of vfield accesses from the root parameter: p1.0.Ok.0.1 -> ('0', 'Ok.0', '1')"""
    t = strip_sites(t)
    path = []
    while isinstance(t, tuple) and t and t[0] == 'vfield':
        path.append((t[2] + '.' if t[2] else '') + t[3])
        t = t[1]
    if t[0] == 'param':
        return tuple(reversed(path)), t
    return None, None


def first_field_path(t, root):
    """The first (pre-order) vfield chain rooted at `root` inside t."""
    for x in walk(strip_sites(t)):
        if isinstance(x, tuple) and x and x[0] == 'vfield':
            p, r = field_path(x)
            if p is not None and r == root:
                return p
    return None


def writer_roles(t, root, out):
    """Parse a builder chain into {field path: role}."""
    t = strip_sites(t)
    if t[0] == 'phi':
        for a in t[1]:
            writer_roles(a, root, out)
        return
    nm = call_name(t) if t[0] == 'call' else None
    if nm in ADDERS:
        pi, vi, kind = ADDERS[nm]
        a = t[2]
        if pi is not None:
            pred = const_name(a[pi])
            fp = first_field_path(a[vi], root)
            out.setdefault(fp, set()).add(('pred', pred))
        writer_roles(a[0], root, out)
        return
    # subject
    inner = t[1] if t[0] == 'env' else t
    tv = m_call(inner, name='to_tagged_value')
    if tv is not None:
        tag = const_name(tv[0])
        val = tv[1]
        for alt in phi_alts(val):
            fp = first_field_path(alt, root)
            if fp is None and const_name(alt):
                out.setdefault(('<const>',), set()).add(('subject', tag, const_name(alt)))
            else:
                out.setdefault(fp, set()).add(('subject', tag))
        return
    fp = first_field_path(inner, root)
    out.setdefault(fp, set()).add(('subject', None))


STRUCTURAL = ('subject', 'unwrap_envelope', 'try_unwrap', 'wrap_envelope', 'as_object', 'as_predicate', 'try_object', 'try_predicate', 'object', 'predicate',
              'elide', 'compress', 'uncompress', 'assertions')


def _path_to(t, target):
    """names of the calls on the way from term t down to the sub-term `target` (None if not inside)"""
    if t is target:
        return []
    if not isinstance(t, tuple):
        return None
    for x in t:
        if isinstance(x, tuple):
            p_ = _path_to(x, target)
            if p_ is not None:
                return ([call_name(t)] if t and t[0] == 'call' else []) + p_
    return None


def leaf_role(t):
    st = strip_sites(t)
    for x in walk(st):
        if isinstance(x, tuple) and x and x[0] == 'call':
            nm = call_name(x)
            if nm.endswith('_for_predicate') or nm.endswith('for_predicate_with_default'):
                # the field is the conversion of exactly the looked-up object: a structural accessor in between (subject(), unwrap ..)
                # reads a part of the object instead, and what the writer put around that part is lost
                between = [n for n in (_path_to(st, x) or []) if n in STRUCTURAL]
                if between:
                    return ('pred-part', '%s via %s' % (const_name(x[2][1]), '/'.join(between)))
                return ('pred', const_name(x[2][1]))
    for x in walk(strip_sites(t)):
        if isinstance(x, tuple) and x and x[0] == 'call' and call_name(x) == 'try_into_expected_tagged_value':
            return ('subject', const_name(x[2][1]))
    return None


def reader_roles(t, path, out):
    t = strip_sites(detry(t))
    if t[0] == 'phi':
        for a in t[1]:
            reader_roles(a, path, out)
        return
    if t[0] == 'agg':
        names = t[4] if len(t) > 4 else ()
        if t[2] == 'None' and not t[3]:
            return
        for i, f in enumerate(t[3]):
            fname = names[i] if i < len(names) else str(i)
            seg = (t[2] + '.' if t[2] else '') + fname
            reader_roles(f, path + (seg,), out)
        return
    if t[0] == 'tuple':
        for i, f in enumerate(t[1]):
            reader_roles(f, path + (str(i),), out)
        return
    r = leaf_role(t)
    if r is not None:
        out.setdefault(path, set()).add(r)


def check_pair(ctx, tyname, self_suffix):
    F = ctx.F
    ws = [b for b in F.trait_impl('From', 'Envelope', 'from') if self_suffix in (b.impl_trait_full or '')]
    rs = [b for b in F.trait_impl('TryFrom', self_suffix, 'try_from') if 'Envelope' in (b.impl_trait_full or '')]
    if len(ws) != 1 or not rs:
        ctx.lost('C18.1', 'From<%s> for Envelope / TryFrom<Envelope> for %s' % (tyname, tyname))
        return None, None
    w = ws[0]
    wtb = TermBuilder(F, w)
    wt = wtb.return_term()
    wr = {}
    writer_roles(wt, P1, wr)
    # every way out of the writer writes every field: an exit that lacks a field must have been chosen by a test of that field
    # (`if note.is_empty() { return e }` may drop the note, not the date)
    rds = ret_defs(wtb)
    if len(rds) > 1:
        for bi, si, t in rds:
            got = {}
            writer_roles(t, P1, got)
            for path in wr:
                if path is None or path == ('<const>',) or path in got:
                    continue
                # switches that decide reaching this exit and mention the field
                deciding = []
                for sb, dt in switch_on(wtb, w, lambda d: True):
                    fp = first_field_path(dt, P1)
                    # a test of the field itself, or of an enclosing variant / option the field lives in
                    if bi in w.reachable(sb) and fp is not None and (tuple(path[:len(fp)]) == tuple(fp) or '.'.join(path).startswith('.'.join(fp))):
                        deciding.append(sb)
                if deciding:
                    ctx.ok('C18.1', ctx.site(w, bi, si), '%s exit without %s is chosen by a test of that field' % (tyname, '.'.join(path)), nontrivial=False)
                else:
                    ctx.fail('C18.1', ctx.site(w, bi, si), '%s writer has an exit that does not write %s although no test of that field leads there: the field is lost on that path' % (tyname, '.'.join(path)),
                             key='C18.1|%s|dropped|%s' % (tyname, '.'.join(path)))
    # C18.9 conditional writes: a field that is written only under a condition must be left out exactly when it has the value the
    # reader fills in for an absent assertion (the empty default): the condition is !is_empty(field) of the very field written,
    # with nothing (trim, len comparison with another bound, another field) in between
    def bare_field(x):
        x = strip_sites(x)
        while x[0] == 'call' and call_name(x) in ('deref', 'as_str', 'as_ref', 'borrow', 'as_slice', 'as_bytes') and len(x[2]) == 1:
            x = strip_sites(x[2][0])
        while x[0] in ('ref', 'deref') and len(x) > 1 and isinstance(x[1], tuple):
            x = strip_sites(x[1])
        p_, r_ = field_path(x)
        return p_ if r_ == P1 else None
    for x in walk(strip_sites(wt)):
        if not (isinstance(x, tuple) and x and x[0] == 'call' and call_name(x) == 'add_assertion_if'):
            continue
        cond, val = strip_sites(x[2][1]), x[2][3]
        vp = first_field_path(val, P1)
        neg = cond[0] == 'unop' and cond[1] == 'Not'
        inner = strip_sites(cond[2]) if neg else cond
        ie = inner[2][0] if inner[0] == 'call' and call_name(inner) == 'is_empty' and len(inner[2]) == 1 else None
        if neg and ie is not None and vp is not None and bare_field(ie) == vp:
            ctx.ok('C18.9', ctx.site(w), '%s.%s is written iff it is not empty (the reader\'s default for the absent assertion)' % (tyname, '.'.join(vp)), sample=fmt(cond))
        else:
            ctx.fail('C18.9', ctx.site(w), '%s.%s is written under the condition %s, which is not "the field itself is not empty": some non-default values are dropped or '
                     'the default is written' % (tyname, '.'.join(vp) if vp else '?', fmt(cond)), key='C18.9|%s|%s' % (tyname, '.'.join(vp) if vp else '?'))
    # reader: the impl that builds the struct
    reader = None
    rr = {}
    for b in rs:
        tb = TermBuilder(F, b)
        for bi, si, t in accept_sites(b, tb):
            st = strip_sites(detry(t))
            v = st[3][0] if st[0] == 'agg' and st[2] == 'Ok' and st[1].endswith('Result') else None
            if v is not None and v[0] == 'agg' and v[1].endswith('::' + tyname):
                reader = b
                reader_roles(v, (), rr)
    if reader is None:
        ctx.lost('C18.1', 'struct-building reader of ' + tyname)
        return w, None
    # compare
    for path, roles in sorted(wr.items(), key=lambda kv: str(kv[0])):
        if path is None:
            ctx.fail('C18.1', ctx.site(w), '%s writer emits a part that is not taken from a field of the value: %s' % (tyname, roles), key='C18.1|%s|nofield' % tyname)
            continue
        if path == ('<const>',):
            continue
        got = rr.get(path, set())
        wr_norm = {(r[0], r[1]) for r in roles}
        if wr_norm <= got:
            ctx.ok('C18.1', ctx.site(w), '%s.%s: written as %s, read back from the same place' % (tyname, '.'.join(path), sorted(wr_norm)), sample={'path': list(path), 'role': [list(x) for x in wr_norm]})
        else:
            ctx.fail('C18.1', ctx.site(reader), '%s.%s is written as %s but read from %s' % (tyname, '.'.join(path), sorted(wr_norm), sorted(got) if got else 'nothing'),
                     key='C18.1|%s|%s' % (tyname, '.'.join(path)))
    wpreds = {r[1] for roles in wr.values() for r in roles if r[0] == 'pred'}
    for path, roles in rr.items():
        for r in roles:
            if r[0] == 'pred' and r[1] not in wpreds:
                ctx.fail('C18.1', ctx.site(reader), '%s reader takes %s from predicate %s which the writer never writes' % (tyname, '.'.join(path), r[1]), key='C18.1|%s|extra|%s' % (tyname, r[1]))
    # C18.4 tags
    wtags = {r[1] for roles in wr.values() for r in roles if r[0] == 'subject'}
    rtags = {r[1] for roles in rr.values() for r in roles if r[0] == 'subject'}
    if wtags and wtags == rtags and None not in wtags:
        ctx.ok('C18.4', ctx.site(reader), '%s subject: writer tag %s = reader expected tag' % (tyname, sorted(wtags)))
    else:
        ctx.fail('C18.4', ctx.site(reader), '%s subject tag: writer %s vs reader %s' % (tyname, sorted(map(str, wtags)), sorted(map(str, rtags))), key='C18.4|' + tyname)
    return w, reader


def check(ctx):
    F = ctx.F
    check_pair(ctx, 'Request', 'Request')
    check_pair(ctx, 'Event', 'Event')
    w, r = check_pair(ctx, 'Response', 'Response')
    # ---- C18.2 response table
    if r is not None:
        tb = TermBuilder(F, r)
        def present(pred):
            def f(x):
                if x[0] != 'call' or call_name(x) not in ('is_ok', 'is_some', 'is_err', 'is_none'):
                    return False
                inner = strip_sites(x[2][0])
                return inner[0] == 'call' and call_name(inner).endswith('with_predicate') or inner[0] == 'call' and call_name(inner).endswith('for_predicate') if False else \
                    (inner[0] == 'call' and ('predicate' in call_name(inner)) and const_name(inner[2][1]) == pred)
            return f
        ra = find_terms(r, tb, present('RESULT'))
        ea = find_terms(r, tb, present('ERROR'))
        if not ra or not ea:
            ctx.fail('C18.2', ctx.site(r), 'response parser does not test presence of result and of error (%d/%d tests found)' % (len(ra), len(ea)), key='C18.2|atoms')
        else:
            def val(atom, present_):
                return present_ if call_name(atom) in ('is_ok', 'is_some') else (not present_)
            rows = {}
            for rp in (False, True):
                for ep in (False, True):
                    env = {}
                    for a_ in ra:
                        env[a_] = val(a_, rp)
                    for a_ in ea:
                        env[a_] = val(a_, ep)
                    reach = reach_under(r, tb, env)
                    outs = set()
                    for bi, si, t in ret_defs(tb):
                        if bi not in reach:
                            continue
                        st = strip_sites(detry(t))
                        if st[0] == 'agg' and st[2] == 'Err':
                            outs.add('Err')
                        elif m_call(st, name='from_residual') is not None:
                            outs.add('Err?')
                        elif st[0] == 'agg' and st[2] == 'Ok':
                            v = st[3][0]
                            inner = v[3][0] if v[0] == 'agg' and v[3] else v
                            outs.add('Ok(success)' if inner[0] == 'agg' and inner[2] == 'Ok' else 'Ok(failure)' if inner[0] == 'agg' and inner[2] == 'Err' else 'Ok(?)')
                    rows[(rp, ep)] = sorted(outs - {'Err?'})
            expect = {(False, False): ['Err'], (True, True): ['Err'], (True, False): ['Ok(success)'], (False, True): ['Ok(failure)']}
            # inside the failure arm an unknown known-value subject is an explicit Err as well
            rows_cmp = {k: [x for x in v if not (x == 'Err' and k == (False, True))] for k, v in rows.items()}
            if rows_cmp == expect:
                ctx.ok('C18.2', ctx.site(r), 'response parser over (result present, error present): FF->Err TT->Err TF->Ok(success) FT->Ok(failure)', sample=str(rows))
            else:
                ctx.fail('C18.2', ctx.site(r), 'response parser table is %s, expected %s' % (rows, expect), key='C18.2|table')
        # ---- C18.5 early failure constant
        wt = strip_sites(TermBuilder(F, w).return_term()) if w else None
        wconst = None
        for x in walk(wt) if wt else []:
            tv = m_call(x, name='to_tagged_value') if isinstance(x, tuple) and x and x[0] == 'call' else None
            if tv is not None:
                for alt in phi_alts(tv[1]):
                    if const_name(alt):
                        wconst = const_name(alt)
        cmpc = None
        for sb, dt in switch_on(tb, r, lambda d: d[0] == 'call' and call_name(d) in ('eq', 'ne')):
            for a in dt[2]:
                if const_name(a):
                    cmpc = (sb, const_name(a), call_name(dt))
        if wconst and cmpc and cmpc[1] == wconst:
            # any other known value -> Err: on the not-equal edge the failure Ok exit with None id must be unreachable
            ctx.ok('C18.5', ctx.site(r, cmpc[0]), 'early failure: writer subject constant %s is the constant the reader compares with' % wconst)
        else:
            ctx.fail('C18.5', ctx.site(r), 'early-failure constant: writer %s vs reader %s' % (wconst, cmpc), key='C18.5')
    # ---- C18.3 expected function
    ex = [b for b in F.trait_impl('TryFrom', 'Expression', 'try_from') if 'Option' in (b.impl_trait_full or '')]
    if len(ex) != 1:
        ctx.lost('C18.3', 'TryFrom<(Envelope, Option<&Function>)> for Expression')
    else:
        b = ex[0]
        tb = TermBuilder(F, b)
        acc = [(bi, si, t) for bi, si, t in accept_sites(b, tb) if t[0] == 'agg' and t[2] == 'Ok']
        some_atoms = [dt for sb, dt in switch_on(tb, b, lambda d: d[0] == 'discr' and strip_sites(d[1]) == ('vfield', P1, '', '1'))]
        eq_atoms = find_terms(b, tb, lambda x: x[0] == 'call' and call_name(x) in ('eq', 'ne') and contains(x, lambda y: y[0] == 'call' and call_name(y) == 'function'))
        if not acc or not some_atoms or len(eq_atoms) != 1:
            ctx.fail('C18.3', ctx.site(b), 'expected-function form: Ok exits=%d, test of expected.is_some=%d, function comparisons=%d' % (len(acc), len(some_atoms), len(eq_atoms)), key='C18.3|shape')
        else:
            is_eq = call_name(eq_atoms[0]) == 'eq'
            # the comparison must be between the parsed function and the expected one
            sides = [strip_sites(a) for a in eq_atoms[0][2]]
            exp_side = any(contains(s_, lambda y: y == ('vfield', ('vfield', P1, '', '1'), 'Some', '0')) for s_ in sides)
            def parsed_fn(s_):
                # function(<the expression parsed from the envelope, untouched>)
                for y in walk(s_):
                    if isinstance(y, tuple) and y and y[0] == 'call' and call_name(y) == 'function' and len(y[2]) == 1:
                        x = strip_sites(detry(y[2][0]))
                        while x[0] == 'call' and call_name(x) in ('clone', 'deref', 'borrow', 'as_ref') and len(x[2]) == 1:
                            x = strip_sites(detry(x[2][0]))
                        if x[0] == 'call' and call_name(x) in ('try_from', 'try_into') and strip_sites(detry(x[2][0])) == ('vfield', P1, '', '0'):
                            return True
                return False
            exp_side = exp_side and any(parsed_fn(s_) for s_ in sides)
            rows = {}
            for given in (0, 1):
                for equal in (False, True):
                    env = {strip_sites(some_atoms[0]): given, eq_atoms[0]: (equal if is_eq else not equal)}
                    reach = reach_under(b, tb, env)
                    rows[(given, equal)] = any(a[0] in reach for a in acc)
            good = rows[(1, False)] is False and rows[(1, True)] is True and rows[(0, True)] is True and rows[(0, False)] is True and exp_side
            if good:
                ctx.ok('C18.3', ctx.site(b), 'with an expected function Ok is reachable only when function(parsed) == expected (table %s)' % rows, sample=str(rows))
            else:
                ctx.fail('C18.3', ctx.site(b), 'expected-function table (given, equal)->Ok reachable is %s (compares function(the parsed expression, unmodified) with expected: %s)' % (rows, exp_side), key='C18.3|table')
    check_name_equality(ctx)
    # ---- Function / Parameter codecs: Known <-> Unsigned, Named <-> Text
    for ty in ('Function', 'Parameter'):
        enc = F.trait_impl('CBORTaggedEncodable', ty, 'untagged_cbor')
        dec = F.trait_impl('CBORTaggedDecodable', ty, 'from_untagged_cbor')
        if len(enc) != 1 or len(dec) != 1:
            ctx.lost('C18.1', '%s tagged codec' % ty)
            continue
        eb, db = enc[0], dec[0]
        etb, dtb = TermBuilder(F, eb), TermBuilder(F, db)
        ev = adt_variants(F, [a['path'] for a in F.adts if a['path'].endswith('::' + ty)][0])
        # writer: per variant the source integer type / text
        sw = [x for x in switch_on(etb, eb, lambda d: d[0] == 'discr' and strip_sites(d[1]) == P1)]
        wmap = {}
        if len(sw) == 1:
            regs = arm_regions(eb, sw[0][0])
            tv = dict((v, bb) for v, bb in eb.term(sw[0][0])['targets'])
            for idx, vn in enumerate(ev):
                key = idx if idx in tv else 'otherwise'
                tgt, reg = regs[key]
                kinds = set()
                for bi in reg:
                    c = eb.callee(bi)
                    if c is not None and c.name in ('into', 'from'):
                        src = (c.args[0] if c.is_trait_method('Into') else (c.args[1] if len(c.args) > 1 else '')).strip().lstrip('&').strip()
                        if src in ('u64', 'u32', 'usize', 'u16', 'u8'):
                            kinds.add('Unsigned')
                        elif 'str' in src or 'String' in src:
                            kinds.add('Text')
                    if c is not None and c.name in ('to_string', 'value', 'name') and False:
                        pass
                wmap[vn] = kinds
        # reader: CBOR case -> variant constructed
        dsw = [x for x in switch_on(dtb, db, lambda d: d[0] == 'discr' and m_call(d[1], name='as_case') is not None)]
        rmap = {}
        if len(dsw) == 1:
            kinds = foreign_variants(F, 'dcbor::cbor::CBORCase')
            ckinds = kinds
            regs = arm_regions(db, dsw[0][0])
            for val, (tgt, reg) in regs.items():
                if val == 'otherwise' or not isinstance(val, int):
                    continue
                for bi, si, t in ret_defs(dtb, reg):
                    st = strip_sites(detry(t))
                    for x in walk(st):
                        if isinstance(x, tuple) and x and x[0] == 'agg' and x[1].endswith('::' + ty):
                            rmap.setdefault(kinds[val], set()).add(x[2])
                        if isinstance(x, tuple) and x and x[0] == 'call':
                            cb = F.by_hash.get(CALLEES[x[1]].best_hash) if CALLEES.get(x[1]) else None
                            if cb is not None:
                                for y in walk(strip_sites(return_term_of(F, cb))):
                                    if isinstance(y, tuple) and y and y[0] == 'agg' and y[1].endswith('::' + ty):
                                        rmap.setdefault(kinds[val], set()).add(y[2])
        okk = True
        for vn, kinds in wmap.items():
            for k in kinds:
                if rmap.get(k) != {vn}:
                    okk = False
        # the reader accepts every item of a kind the writer produces: no refusal is reachable from the arm of such a kind
        if len(dsw) == 1 and wmap:
            written = set().union(*wmap.values())
            for val, (tgt, reg) in regs.items():
                if val == 'otherwise' or not isinstance(val, int) or ckinds[val] not in written:
                    continue
                for bi, si, t in ret_defs(dtb, db.reachable(tgt)):
                    st = strip_sites(detry(t))
                    if (st[0] == 'agg' and st[2] == 'Err') or m_call(t, name='from_residual') is not None:
                        okk = False
                        ctx.fail('C18.1', ctx.site(db, bi, si), '%s reader refuses some %s items although the writer produces that kind for every %s' % (ty, ckinds[val], sorted(v for v, ks in wmap.items() if ckinds[val] in ks)),
                                 key='C18.1|codec-refusal|%s|%s' % (ty, ckinds[val]))
        if wmap and rmap and okk and all(wmap.values()):
            ctx.ok('C18.1', ctx.site(eb), '%s codec: writer %s, reader %s' % (ty, {k: sorted(v) for k, v in wmap.items()}, {k: sorted(v) for k, v in rmap.items()}))
        else:
            ctx.fail('C18.1', ctx.site(eb), '%s codec tables disagree: writer %s, reader %s' % (ty, {k: sorted(v) for k, v in wmap.items()}, {k: sorted(v) for k, v in rmap.items()}), key='C18.1|codec|' + ty)


def check_name_equality(ctx):
    """C18.6: enums with a static-str variant and a String variant must compare by text."""
    F = ctx.F
    n = 0
    for a in F.adts:
        if a['kind'] != 'Enum' or '::expressions::' not in a['path']:
            continue
        tys = [[f['ty'] for f in v['fields']] for v in a['variants']]
        if len(tys) < 2 or not all(len(t) == 1 for t in tys):
            continue
        flat = [t[0] for t in tys]
        if not (any('str' in t and 'String' not in t for t in flat) and any(t.endswith('String') for t in flat)):
            continue
        n += 1
        name = a['path'].split('::')[-1]
        impls = F.trait_impl('PartialEq', name, 'eq')
        if len(impls) != 1:
            ctx.lost('C18.6', 'PartialEq for ' + name)
            continue
        b = impls[0]
        derived = bool(b.span and b.span.get('exp'))
        rt = strip_sites(TermBuilder(F, b).return_term())
        e = m_call(rt, name='eq', trait='PartialEq')
        good = False
        if not derived and e is not None and e[0][0] == 'call' and e[1][0] == 'call' and e[0][1] == e[1][1] and {e[0][2][0], e[1][2][0]} == {P1, ('param', 2)}:
            c = CALLEES.get(e[0][1])
            vb = F.by_hash.get(c.best_hash) if c else None
            if vb is not None:
                alts = set(phi_alts(strip_sites(return_term_of(F, vb))))
                want = {('vfield', P1, v['name'], '0') for v in a['variants']}
                good = alts == want
        if good:
            ctx.ok('C18.6', ctx.site(b), '%s equality compares the text of either storage variant' % name)
        else:
            ctx.fail('C18.6', ctx.site(b), '%s equality is %s: a statically declared name and the parsed (owned) name with the same text would differ' % (name, 'derived (variant-sensitive)' if derived else fmt(rt)), key='C18.6|' + name)
    if n == 0:
        ctx.lost('C18.6', 'static/owned name enums')


_check_inner = check


def check(ctx):
    _check_inner(ctx)
    from .. import panic
    F = ctx.F
    entries = [b for b in F.trait_impl('TryFrom') if '::expressions::' in b.path and 'Envelope' in (b.impl_trait_full or '')]
    panic.slice_check(ctx, 'C18.7', entries, 'expression-parse')


_check_before_errflow = check


def check(ctx):
    _check_before_errflow(ctx)
    # C18.8 error discipline: no error of a fallible call is turned into "absent / false / default" outside the reviewed table
    from .. import errflow
    errflow.check(ctx, 'C18.8', ['src/extension/expressions/request.rs', 'src/extension/expressions/response.rs', 'src/extension/expressions/event.rs', 'src/extension/expressions/expression.rs', 'src/extension/expressions/function.rs', 'src/extension/expressions/parameter.rs'], 'expression family')
    # C18.10: the well-known function / parameter / known-value constants are pairwise distinct values (a request naming one of two
    # constants that share a code is accepted where the other is expected; RESULT and ERROR sharing a code would merge the two
    # response forms)
    from .. import accessors
    accessors.check_constant_registry(ctx, 'C18.10')
    # C18.11: Function and Parameter equality, per pair of variants: a numeric (Known) and a named item are never equal; two Known compare
    # their codes, two Named their names (so "a function other than the expected one is rejected" cannot be bypassed by a named function
    # whose text happens to be the digits of a code)
    F = ctx.F
    P1_, P2_ = ('param', 1), ('param', 2)
    for tyname in ('Function', 'Parameter'):
        bs = [b for b in F.trait_impl('PartialEq', tyname, 'eq') if b.impl_self and b.impl_self.endswith('::' + tyname)]
        if len(bs) != 1:
            ctx.lost('C18.11', 'PartialEq for ' + tyname)
            continue
        b = bs[0]
        tb = TermBuilder(F, b)
        adt = [a for a in F.adts if a['path'].endswith('::' + tyname.lower() + '::' + tyname)]
        variants = [v['name'] for v in adt[0]['variants']] if adt else []
        def is_d(x, p):
            x = strip_sites(x)
            if x[0] != 'discr':
                return False
            y = strip_sites(x[1])
            while y[0] in ('deref',) or (y[0] == 'call' and call_name(y) in ('deref', 'borrow') and len(y[2]) == 1):
                y = strip_sites(y[1] if y[0] == 'deref' else y[2][0])
            return y == p
        d1 = find_terms(b, tb, lambda x: is_d(x, P1_))
        d2 = find_terms(b, tb, lambda x: is_d(x, P2_))
        if len(variants) != 2 or len(d1) != 1 or len(d2) != 1:
            ctx.fail('C18.11', ctx.site(b), '%s equality does not decide on the variants of both operands (Known vs Named must differ, like variants compare their own payload): %s'
                     % (tyname, fmt(strip_sites(tb.return_term()))[:200]), key='C18.11|form|' + tyname, rule='FLOW/IDIOM-UNKNOWN')
            continue
        bad = []
        for i, vi in enumerate(variants):
            for j, vj in enumerate(variants):
                outs = [strip_sites(detry(t)) for bi, si, t in ret_values_under(b, tb, {d1[0]: i, d2[0]: j})]
                if i != j:
                    if not outs or any(o != ('bool', False) for o in outs):
                        bad.append('%s vs %s -> %s' % (vi, vj, [fmt(o)[:60] for o in outs]))
                else:
                    ok = len(outs) == 1 and outs[0][0] == 'call' and call_name(outs[0]) == 'eq' and len(outs[0][2]) == 2
                    if ok:
                        l, r = (strip_sites(x) for x in outs[0][2])
                        def fld(x, p):
                            while x[0] == 'call' and call_name(x) in ('deref', 'borrow', 'as_ref') and len(x[2]) == 1:
                                x = strip_sites(x[2][0])
                            return x[0] == 'vfield' and strip_sites(x[1]) == p and x[2] == vi and x[3] == '0'
                        ok = (fld(l, P1_) and fld(r, P2_)) or (fld(l, P2_) and fld(r, P1_))
                    if not ok:
                        bad.append('%s vs %s -> %s' % (vi, vj, [fmt(o)[:80] for o in outs]))
        if bad:
            ctx.fail('C18.11', ctx.site(b), '%s equality table unexpected: %s' % (tyname, bad), key='C18.11|table|' + tyname)
        else:
            ctx.ok('C18.11', ctx.site(b), '%s equality: different variants -> false; Known compares the codes, Named the names (4 variant pairs)' % tyname)
