"""C11 — SSKR shares reconstruct the envelope exactly when a quorum is present."""
from ..lib import *
from ..terms import TermBuilder
from .C09 import const_name

REQUIRES = ['sskr']
USES_QUERIES = True
USES_KNOWN_VALUES = True
EXPLANATION = (
    "FLOW/GUARD rules. C11.1 split: secret = SSKRSecret::new(data(content key)); shares = sskr_generate_using(spec, secret, rng); every "
    "returned envelope = add_assertion(self, 'sskrShare', share) for a share drawn from the nested loops over ALL groups and ALL members "
    "(element of element of the generated shares), self otherwise untouched. C11.2 join: empty input -> Err(InvalidShares); the only Ok "
    "exit returns subject(decrypt_subject(e, key)) for an element e of the input with key = SymmetricKey::from_data_ref(sskr_combine(one "
    "identifier group of the collected shares)); a failed combination/decryption of one group falls through to the next group (no Err exit "
    "inside the group loop other than after exhaustion); every other exit is Err(InvalidShares) or the propagated extraction error. C11.3: "
    "the collector reads the 'sskrShare' objects of every input envelope as SSKRShare and groups them by share.identifier() and nothing "
    "else (every collected share is kept in its identifier group). C11.6: the decrypt_subject instances of C08 re-evaluated here (the join opens the first share envelope with it). C11.7: the split functions have no refusal of their own. Does not decide 'iff the subset satisfies the policy': that is the sskr "
    "crate's combinatorics."
    " C11.8: sskr_split = sskr_split_using(.., fresh SecureRandomNumberGenerator).")
TRUSTED = ['sskr_generate_using / sskr_combine implement SSKR; SSKRShare::identifier is the split identifier']
FLOORS = {'C11.1': 3, 'C11.2': 4, 'C11.3': 3, 'C11.6': 3, 'C11.7': 3, 'C11.8': 1}
P1, P2, P3, P4 = [('param', i) for i in range(1, 5)]


def check(ctx):
    F = ctx.F
    # ---- C11.1 split
    b = F.method1('Envelope', 'sskr_split_using')
    if b is None:
        ctx.lost('C11.1', 'Envelope::sskr_split_using')
    else:
        tb = TermBuilder(F, b)
        gen = [(bi, tb.call_args(bi)) for bi, c, t in b.calls() if c is not None and c.name == 'sskr_generate_using']
        if len(gen) != 1:
            ctx.fail('C11.1', ctx.site(b), 'expected exactly one sskr_generate_using call', key='C11.1|gen')
        else:
            ga = [strip_sites(detry(x)) for x in gen[0][1]]
            sec = m_call(ga[1], name='new', path_end='Secret::new')
            d = m_call(sec[0], name='data', self_suffix='SymmetricKey') if sec else None
            if ga[0] == P2 and d is not None and d[0] == P3 and ga[2] == P4:
                ctx.ok('C11.1', ctx.site(b, gen[0][0]), 'shares = sskr_generate_using(spec, SSKRSecret::new(data(content key)), rng)')
            else:
                ctx.fail('C11.1', ctx.site(b, gen[0][0]), 'share generation is %s' % [fmt(x) for x in ga], key='C11.1|genargs')
            G = strip_sites(detry(tb.call_value(gen[0][0])))
            adds = []
            for bi, c, t in b.calls():
                if c is None:
                    continue
                v = tb.call_value(bi)
                for depth in (0, 1, 2):
                    full = strip_sites(detry(inline(F, v, depth) if depth else v))
                    a = m_call(full, name='add_assertion', self_suffix='Envelope')
                    if a is not None and const_name(a[1]) == 'SSKR_SHARE':
                        adds.append((bi, a))
                        break
            if len(adds) != 1:
                ctx.fail('C11.1', ctx.site(b), 'expected one add_assertion(self, \'sskrShare\', share) site, found %d' % len(adds), key='C11.1|adds')
            else:
                bi, a = adds[0]
                share = a[2]
                if share[0] == 'env':
                    share = share[1]
                ok_recv = a[0] == P1
                ok_share = share[0] == 'elem' and share[1][0] == 'elem' and strip_sites(detry(elem_source(share[1][1]))) == G
                if ok_recv and ok_share:
                    ctx.ok('C11.1', ctx.site(b, bi), 'each share envelope = add_assertion(self, \'sskrShare\', share) for every member of every group', sample=fmt(a[2]))
                else:
                    ctx.fail('C11.1', ctx.site(b, bi), 'share envelope is add_assertion(%s, \'sskrShare\', %s): not self / not ranging over all groups and members of the generated shares' % (fmt(a[0]), fmt(a[2])), key='C11.1|share')
            # result collects every group result (push inside both loops)
            rt = strip_sites(detry(tb.return_term()))
            pushes = [x for x in walk(rt) if isinstance(x, tuple) and x and x[0] == 'mut' and call_name(x) == 'push']
            if len(pushes) >= 2:
                ctx.ok('C11.1', ctx.site(b), 'result = one vector per group, one envelope per member')
            else:
                ctx.fail('C11.1', ctx.site(b), 'split result does not accumulate per group and per member: %s' % fmt(rt), key='C11.1|result')
    # ---- C11.3 collector (role: the callee of join that returns the grouped shares)
    j = F.method1('Envelope', 'sskr_join')
    if j is None:
        ctx.lost('C11.2', 'Envelope::sskr_join')
        return
    jtb = TermBuilder(F, j)
    comb = [(bi, jtb.call_args(bi)) for bi, c, t in j.calls() if c is not None and c.name == 'sskr_combine']
    if len(comb) != 1:
        ctx.fail('C11.2', ctx.site(j), 'expected exactly one sskr_combine call in join', key='C11.2|combine')
        return
    group = strip_sites(detry(comb[0][1][0]))
    coll_call = None
    for x in walk(group):
        if isinstance(x, tuple) and x and x[0] == 'call':
            c = CALLEES.get(x[1])
            if c is not None and F.by_hash.get(c.best_hash) is not None and x[2] and strip_sites(x[2][0]) == P1:
                coll_call = x
    good_group = group[0] == 'elem' and coll_call is not None and contains(group, lambda y: y[0] == 'call' and call_name(y) == 'values')
    if good_group:
        ctx.ok('C11.3', ctx.site(j, comb[0][0]), 'sskr_combine is applied to one identifier group (an element of values(grouped shares of the input))')
    else:
        ctx.fail('C11.3', ctx.site(j, comb[0][0]), 'sskr_combine is applied to %s, not to one identifier group of the collected shares' % fmt(group), key='C11.3|group')
    if coll_call is not None:
        cb = F.by_hash.get(CALLEES[coll_call[1]].best_hash)
        ctb = TermBuilder(F, cb)
        ents = [(bi, ctb.call_args(bi)) for bi, c, t in cb.calls() if c is not None and c.name == 'entry']
        srcs = [(bi, ctb.call_args(bi)) for bi, c, t in cb.calls() if c is not None and c.name == 'assertions_with_predicate']
        ext = [(bi, c) for bi, c, t in cb.calls() if c is not None and c.name == 'extract_subject' and any('SSKRShare' in a for a in c.args)]
        if len(srcs) == 1 and strip_sites(srcs[0][1][0]) == ('elem', P1) and const_name(srcs[0][1][1]) == 'SSKR_SHARE' and ext:
            ctx.ok('C11.3', ctx.site(cb, srcs[0][0]), 'collector reads the \'sskrShare\' objects of every input envelope as SSKRShare')
        else:
            ctx.fail('C11.3', ctx.site(cb), 'collector does not read the \'sskrShare\' assertions of every input envelope', key='C11.3|source')
        if len(ents) == 1:
            key = strip_sites(detry(ents[0][1][1]))
            ida = m_call(key, name='identifier', self_suffix='SSKRShare')
            share_t = strip_sites(detry(ida[0])) if ida else None
            # the share must be stored on both paths: and_modify(|v| v.push(share)) and or_insert(vec![share])
            pushes = False
            for cl in F.closures_of(cb):
                crt = strip_sites(TermBuilder(F, cl).return_term())
                for bi2, c2, t2 in cl.calls():
                    if c2 is not None and c2.name == 'push':
                        a2 = [strip_sites(x) for x in TermBuilder(F, cl).call_args(bi2)]
                        if a2[1][0] == 'upvar':
                            pushes = True
            ins = [(bi, ctb.call_args(bi)) for bi, c, t in cb.calls() if c is not None and c.name in ('or_insert', 'or_insert_with', 'or_default')]
            ins_ok = any(strip_sites(detry(a[1])) == ('list', (share_t,)) for bi, a in ins if len(a) > 1) if share_t else False
            # equivalent single-path idiom: entry(id).or_default().push(share)  (or_insert(empty) / or_insert_with(Vec::new) likewise)
            alt = False
            for bi2, c2, t2 in cb.calls():
                if c2 is None or c2.name != 'push' or share_t is None:
                    continue
                a2 = [strip_sites(detry(x)) for x in ctb.call_args(bi2)]
                recv = a2[0]
                if recv[0] == 'call' and call_name(recv) in ('or_default', 'or_insert', 'or_insert_with') and recv[2] and recv[2][0][0] == 'call' and call_name(recv[2][0]) == 'entry':
                    empty_ok = call_name(recv) == 'or_default'
                    if call_name(recv) == 'or_insert' and len(recv[2]) == 2 and seq_parts(recv[2][1], literal_only=True) == []:
                        empty_ok = True
                    if call_name(recv) == 'or_insert_with' and len(recv[2]) == 2 and recv[2][1][0] == 'fnref' and strip_generics(recv[2][1][1]).endswith('Vec::new'):
                        empty_ok = True
                    if empty_ok and a2[1] == share_t:
                        # the push must happen for every share: from the entry call the next iteration is unreachable without it
                        nexts2 = [bx for bx, cx, tx in cb.calls() if cx is not None and cx.name == 'next']
                        wo = cb.reachable(ents[0][0], removed_blocks=[bi2])
                        if not any(n in wo for n in nexts2):
                            alt = True
            if alt:
                pushes = ins_ok = True
            # every extracted share reaches the map: no conditional skip between extraction and entry (entry post-dominates the extraction success edge)
            ext_b = ext[0][0] if ext else None
            uncond = ext_b is not None and cb.dominates(ext_b, ents[0][0])
            skip = False
            if ext_b is not None:
                # can the loop continue (reach the next `next`) from the extraction without passing the entry call?
                reach = cb.reachable(ext_b, removed_blocks=[ents[0][0]])
                nexts = [bi for bi, c, t in cb.calls() if c is not None and c.name == 'next' and bi != ext_b]
                # ignore the error exit via `?`
                skip = any(n in reach for n in nexts)
            if ida is not None and pushes and ins_ok and uncond and not skip:
                ctx.ok('C11.3', ctx.site(cb, ents[0][0]), 'every extracted share is stored under entry(share.identifier()): push into an existing group or start [share]')
            else:
                ctx.fail('C11.3', ctx.site(cb, ents[0][0]), 'shares are not all grouped by identifier alone (key=%s, push=%s, insert=%s, unconditional=%s, skippable=%s)' % (fmt(key), pushes, ins_ok, uncond, skip), key='C11.3|grouping')
        else:
            ctx.fail('C11.3', ctx.site(cb), 'collector does not group through a single map entry per share (%d entry calls)' % len(ents), key='C11.3|entry')
    # ---- C11.2 join exits
    acc = accept_sites(j, jtb)
    oks = [(bi, si, t) for bi, si, t in acc if t[0] == 'agg' and t[2] == 'Ok']
    if len(oks) != 1:
        ctx.fail('C11.2', ctx.site(j), 'join has %d Ok exits (expected one)' % len(oks), key='C11.2|oks')
    for bi, si, t in oks:
        v = strip_sites(detry(t[3][0]))
        s = m_call(v, name='subject', self_suffix='Envelope')
        inner = s[0] if s else None
        while inner is not None and inner[0] == 'vfield' and inner[2] in ('Ok', 'Some'):
            inner = inner[1]
        d = m_call(inner, name='decrypt_subject', self_suffix='Envelope') if inner else None
        good = False
        why = fmt(v)
        if d is not None:
            e, k = d
            # e: an element of the input
            eu = m_call(e, name='unwrap') or m_call(e, name='expect')
            e0 = eu[0] if eu else e
            elem_ok = (e0[0] == 'call' and call_name(e0) in ('first', 'last', 'get') and e0[2][0] == P1) or (e0[0] == 'elem' and strip_sites(elem_source(e0[1])) == P1) or (e0[0] == 'index' and e0[1] == P1)
            kk = k
            while kk[0] == 'vfield' and kk[2] in ('Ok', 'Some'):
                kk = kk[1]
            fk = m_call(kk, name='from_data_ref', self_suffix='SymmetricKey') or m_call(kk, name='from_data', self_suffix='SymmetricKey')
            sec = fk[0] if fk else None
            while sec is not None and sec[0] == 'vfield' and sec[2] in ('Ok', 'Some'):
                sec = sec[1]
            cm = m_call(sec, name='sskr_combine') if sec else None
            if elem_ok and cm is not None and cm[0] == group:
                good = True
            else:
                why = 'element=%s key=%s' % (fmt(e), fmt(k))
        if good:
            ctx.ok('C11.2', ctx.site(j, bi, si), 'Ok(subject(decrypt_subject(an input envelope, SymmetricKey::from_data_ref(sskr_combine(identifier group)))))', sample=fmt(v))
        else:
            ctx.fail('C11.2', ctx.site(j, bi, si), 'join\'s Ok value is not the decrypted subject under the combined key: %s' % why, key='C11.2|value')
    # empty input -> Err(InvalidShares)
    emp = find_terms(j, jtb, lambda x: x[0] == 'call' and call_name(x) == 'is_empty' and strip_sites(x[2][0]) == P1)
    errs = [(bi, si, strip_sites(t)) for bi, si, t in ret_defs(jtb) if t[0] == 'agg' and t[2] == 'Err']
    def is_invalid(t):
        return any(isinstance(x, tuple) and x and x[0] == 'agg' and x[2] == 'InvalidShares' for x in walk(t))
    # the input length is the atom: `is_empty()`, `first()` being None, `len() == 0`, a slice pattern all follow from it
    env0 = {e: True for e in emp}
    env0[('len', P1)] = 0
    env1 = {e: False for e in emp}
    env1[('len', P1)] = 1
    decided = comb and (comb[0][0] not in reach_under(j, jtb, env0)) and (comb[0][0] in reach_under(j, jtb, env1))
    if decided:
        reach = reach_under(j, jtb, env0)
        outs = [t for bi, si, t in errs if bi in reach]
        okr = [1 for bi, si, t in oks if bi in reach]
        if outs and all(is_invalid(t) for t in outs) and not okr and not any(c[0] in reach for c in comb):
            ctx.ok('C11.2', ctx.site(j), 'empty input -> Err(InvalidShares) before anything else')
        else:
            ctx.fail('C11.2', ctx.site(j), 'empty input is not rejected with InvalidShares up front', key='C11.2|empty')
    else:
        ctx.fail('C11.2', ctx.site(j), 'no emptiness test of the input', key='C11.2|noempty')
    if errs and all(is_invalid(t) for bi, si, t in errs):
        ctx.ok('C11.2', ctx.site(j), 'every explicit failure exit is Err(InvalidShares) (%d)' % len(errs))
    else:
        ctx.fail('C11.2', ctx.site(j), 'a failure exit is not InvalidShares: %s' % [fmt(t) for bi, si, t in errs if not is_invalid(t)], key='C11.2|errkind')
    # every identifier group is actually tried: inside the group loop the combine call cannot be skipped
    loops = []
    for sb2, dt2 in switch_on(jtb, j, lambda dd: dd[0] == 'discr' and dd[1][0] == 'next'):
        for val, bb in j.term(sb2)['targets']:
            if val == 1:
                loops.append((sb2, bb))
    skipped = False
    for sb2, some_t in loops:
        # only the loop that contains the combination (not an earlier loop that merely precedes it)
        if comb[0][0] not in j.reachable(some_t, removed_blocks=[sb2]) or sb2 not in j.reachable(comb[0][0]):
            continue
        reach_wo = j.reachable(some_t, removed_blocks=[comb[0][0]])
        rets = [i for i in j.normal_blocks() if (j.term(i) or {}).get('k') == 'return']
        if sb2 in reach_wo or any(r in reach_wo for r in rets):
            skipped = True
    if skipped:
        ctx.fail('C11.2', ctx.site(j, comb[0][0]), 'an identifier group can be skipped without attempting sskr_combine (a pre-check decides instead of the combination): a valid quorum may be refused', key='C11.2|skip')
    elif loops:
        ctx.ok('C11.2', ctx.site(j, comb[0][0]), 'sskr_combine is attempted for every identifier group (no path through the loop body avoids it)')
    # a failing group must fall through to the next group: no exit (Err or `?`) between combine and loop continuation
    loop_exits = []
    creach = j.reachable(comb[0][0])
    for bi, si, t in ret_defs(jtb):
        if bi in creach and not (t[0] == 'agg' and t[2] == 'Ok'):
            # is this exit reachable from the combine block WITHOUT exhausting the loop (next == None)?
            edges = set()
            for sb2, dt2 in switch_on(jtb, j, lambda dd: dd[0] == 'discr' and dd[1][0] == 'next'):
                for val, bb in j.term(sb2)['targets']:
                    if val == 0:
                        edges.add((sb2, bb))
            if bi in j.reachable(comb[0][0], removed_edges=edges):
                loop_exits.append((bi, si, t))
    if loop_exits:
        ctx.fail('C11.2', ctx.site(j, loop_exits[0][0], loop_exits[0][1]), 'a failed combination/decryption of one identifier group aborts the join instead of trying the next group: %s' % fmt(strip_sites(loop_exits[0][2])), key='C11.2|abort')
    else:
        ctx.ok('C11.2', ctx.site(j, comb[0][0]), 'a failing identifier group falls through to the next group; failure only after all groups were tried')


_check_inner = check


def check(ctx):
    _check_inner(ctx)
    from .. import panic
    F = ctx.F
    names = ['sskr_join', 'sskr_split_using', 'sskr_split', 'sskr_split_flattened']
    panic.slice_check(ctx, 'C11.4', [F.method1('Envelope', n) for n in names if F.method1('Envelope', n)], 'sskr')


_check_before_errflow = check


def check(ctx):
    _check_before_errflow(ctx)
    # C11.5 error discipline: no error of a fallible call is turned into "absent / false / default" outside the reviewed table
    from .. import errflow
    errflow.check(ctx, 'C11.5', ['src/extension/sskr.rs'], 'SSKR family')
    # C11.6: sskr_join opens the first share envelope with decrypt_subject under the recombined key, so "returns the original decrypted
    # subject" rests on the symmetric decryption: the decrypt_subject instances of C08 (digest guards, node rebuilt through the node
    # constructor over the decrypted subject and the node's own assertions) re-evaluated under this property
    from . import C08
    from .C07 import Relabel
    try:
        C08.check(Relabel(ctx, 'C11.6', ['C08.2', 'C08.3']))
    except Exception as e:
        ctx.fail('C11.6', '-', 'decrypt_subject obligations (C08.2/3) could not be evaluated: %r' % e, key='C11.6|c08')
    # C11.7: "for any envelope, content key and policy": the split side adds no refusal of its own - its only error exits are the `?` of
    # SSKRSecret::new / sskr_generate* (a bad key length or policy). A guard on the shape of the envelope leaves some envelopes without
    # any share envelopes at all.
    F = ctx.F
    for name in ('sskr_split_using', 'sskr_split', 'sskr_split_flattened'):
        b = F.method1('Envelope', name)
        if b is None:
            ctx.lost('C11.7', 'Envelope::' + name)
            continue
        tb = TermBuilder(F, b)
        own = [(bi, si, t) for bi, si, t in ret_defs(tb) if t[0] == 'agg' and t[2] == 'Err']
        if own:
            ctx.fail('C11.7', ctx.site(b, own[0][0], own[0][1]), '%s refuses on a condition of its own (%s): some envelopes get no share envelopes' % (name, fmt(strip_sites(own[0][2]))[:160]),
                     key='C11.7|' + name)
        else:
            ctx.ok('C11.7', ctx.site(b), '%s has no refusal of its own (errors only through `?` of the secret / share generation)' % name)
    # C11.8: the public split draws the share randomness (incl. the 16-bit split identifier) from a fresh SecureRandomNumberGenerator:
    # sskr_split = sskr_split_using(self, spec, key, &mut SecureRandomNumberGenerator). A fixed / test generator gives every split the
    # same identifier, so shares of different splits fall into one group and a quorum mixed with a stray share no longer joins.
    b = F.method1('Envelope', 'sskr_split')
    if b is None:
        ctx.lost('C11.8', 'Envelope::sskr_split')
    else:
        tb = TermBuilder(F, b)
        calls = [(bi, tb.call_args(bi)) for bi, c, t in b.calls() if c is not None and c.name == 'sskr_split_using']
        def secure(t):
            t = strip_sites(detry(t))
            while t[0] in ('ref', 'deref') and len(t) > 1 and isinstance(t[1], tuple):
                t = strip_sites(t[1])
            return t[0] == 'agg' and t[1].endswith('SecureRandomNumberGenerator')
        if len(calls) == 1 and len(calls[0][1]) == 4 and strip_sites(calls[0][1][0]) == ('param', 1) and secure(calls[0][1][3]):
            ctx.ok('C11.8', ctx.site(b, calls[0][0]), 'sskr_split = sskr_split_using(self, spec, key, fresh SecureRandomNumberGenerator)')
        else:
            ctx.fail('C11.8', ctx.site(b), 'sskr_split does not split with a fresh SecureRandomNumberGenerator: %s' % [[fmt(strip_sites(a))[:80] for a in c_[1]] for c_ in calls], key='C11.8|rng')
