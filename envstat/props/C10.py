"""C10 — every recipient, and only a recipient, can open a public-key encrypted envelope."""
from ..lib import *
from ..terms import TermBuilder
from .C09 import const_name

REQUIRES = ['recipient']
USES_QUERIES = True
USES_KNOWN_VALUES = True
EXPLANATION = (
    "FLOW/CODEC/GUARD rules. C10.1 (also: the forms without a test nonce are the _opt forms over the receiver and the caller's recipients): in multi-recipient encryption the very same fresh SymmetricKey value (same creation site) is the "
    "key of encrypt_subject and the content key sealed for every recipient; the loop ranges over the whole recipients parameter; each "
    "recipient assertion is assertion('hasRecipient', SealedMessage::new_opt(to_cbor_data(content key), that recipient, ..)). C10.2: the "
    "reader looks up 'hasRecipient', extracts SealedMessage, and parses the plaintext with the SymmetricKey tagged decoder (writer: tagged "
    "encoder). C10.3: decrypt_subject_to_recipient = decrypt_subject(self, key_from(plaintext(recipients(self), recipient))) where the "
    "plaintext helper (the body calling SealedMessage::decrypt) returns Ok only with a successful decryption result of one of the sealed "
    "messages under the caller's key, tries every message, and otherwise returns Err(UnknownRecipient). C10.4: seal = "
    "encrypt_to_recipient(sign(self, sender), recipient); unseal = verify(decrypt_to_recipient(self, recipient)?, sender); the wrap-and-"
    "encrypt forms wrap before / unwrap after. Adding a recipient only adds an assertion (C04), digest preservation is C02/C08. C10.8: the decrypt_subject instances of C08 (digest guards, node rebuilt through the node constructor, decrypt = unwrap(decrypt_subject)) re-evaluated here. Does not "
    "decide KEM/AEAD security ('any other private key gets an error')."
    " C10.4 also covers seal_opt = encrypt_to_recipient(sign_opt(self, sender, options), recipient). C10.9: add_recipient* never returns self on a test of the receiver.")
TRUSTED = ['SealedMessage::new_opt seals its plaintext to the given public key; SealedMessage::decrypt opens only with the matching private key',
           'SymmetricKey::new() draws a fresh random key']
FLOORS = {'C10.1': 5, 'C10.2': 2, 'C10.3': 3, 'C10.4': 5, 'C10.8': 5, 'C10.9': 1}
P1, P2, P3, P4 = [('param', i) for i in range(1, 5)]


def check(ctx):
    F = ctx.F
    # ---- C10.1
    b = F.method1('Envelope', 'encrypt_subject_to_recipients_opt')
    if b is None:
        ctx.lost('C10.1', 'Envelope::encrypt_subject_to_recipients_opt')
    else:
        tb = TermBuilder(F, b)
        enc = [(bi, tb.call_args(bi)) for bi, c, t in b.calls() if c is not None and c.is_method('Envelope', 'encrypt_subject')]
        adds = []
        for bi, c, t in b.calls():
            if c is None:
                continue
            cb = F.by_hash.get(c.best_hash)
            if cb is None or cb.dk == 'Closure':
                continue
            # the adding helper, judged in its own parameter space
            body_t = strip_sites(inline_deep(F, return_term_of(F, cb)))
            seals = [x for x in walk(body_t) if isinstance(x, tuple) and x and x[0] == 'call' and call_name(x) == 'new_opt']
            if len(seals) == 1:
                adds.append((bi, tb.call_args(bi), cb, body_t, seals[0]))
        if len(enc) != 1 or not adds:
            ctx.fail('C10.1', ctx.site(b), 'expected one encrypt_subject and at least one recipient-adding call, found %d / %d' % (len(enc), len(adds)), key='C10.1|shape')
        else:
            K = enc[0][1][1]
            if strip_sites(enc[0][1][0]) != P1:
                ctx.fail('C10.1', ctx.site(b, enc[0][0]), 'encrypt_subject is applied to %s, not self' % fmt(enc[0][1][0]), key='C10.1|recv')
            fresh = m_call(K, name='new', self_suffix='SymmetricKey') is not None
            if fresh:
                ctx.ok('C10.1', ctx.site(b, enc[0][0]), 'subject encrypted under a fresh SymmetricKey::new()')
            else:
                ctx.fail('C10.1', ctx.site(b, enc[0][0]), 'content key is %s, not a fresh SymmetricKey::new()' % fmt(K), key='C10.1|fresh')
            for bi, args, cb, body_t, seal in adds:
                good = False
                sa = seal[2]
                pt = m_call(sa[0], name='to_cbor_data')
                kp = pt[0] if pt is not None else None
                rp = sa[1]
                na = [x for x in walk(body_t) if isinstance(x, tuple) and x and x[0] == 'call' and (call_name(x) == 'new_assertion' or m_call(x, name='new', self_suffix='Assertion') is not None)]
                addc = [x for x in walk(body_t) if isinstance(x, tuple) and x and x[0] == 'call' and call_name(x) in ('add_assertion_envelope', 'add_optional_assertion_envelope', 'add_assertion')]
                if kp is None or kp[0] != 'param' or rp[0] != 'param':
                    why = 'adding helper does not seal to_cbor_data(content key parameter) to the recipient parameter: %s' % fmt(seal)
                elif not na or const_name(na[0][2][0]) != 'HAS_RECIPIENT' or not contains(na[0][2][1], lambda y: y == seal):
                    why = 'recipient assertion is not \'hasRecipient\': SealedMessage'
                elif not addc or addc[0][2][0] != P1:
                    why = 'adding helper does not add the assertion to its receiver'
                else:
                    ka, ra, acc = args[kp[1] - 1], strip_sites(args[rp[1] - 1]), args[0]
                    if ka != K:
                        why = 'the key sealed for the recipients (%s) is not the very key the subject is encrypted with (%s at its creation site)' % (fmt(ka), fmt(K))
                    elif not (ra[0] == 'elem' and strip_sites(elem_source(ra[1])) == P2):
                        why = 'recipient loop does not range over the whole recipients parameter: %s' % fmt(ra)
                    elif not contains(acc, lambda y: y == enc[0][1] or (y[0] == 'call' and call_name(y) == 'encrypt_subject')):
                        why = 'recipient assertions are not added onto the encrypted envelope: %s' % fmt(acc)
                    else:
                        good = True
                if good:
                    ctx.ok('C10.1', ctx.site(b, bi), 'for every r in recipients: add assertion(\'hasRecipient\', SealedMessage::new_opt(to_cbor_data(the same content key), r, ..)) onto the encrypted envelope', sample=fmt(body_t)[:300])
                else:
                    ctx.fail('C10.1', ctx.site(b, bi), why, key='C10.1|recipient')
    single = F.method1('Envelope', 'encrypt_subject_to_recipient_opt')
    if single is not None:
        rt = strip_sites(TermBuilder(F, single).return_term())
        a = m_call(rt, name='encrypt_subject_to_recipients_opt', self_suffix='Envelope')
        if a is not None and a[0] == P1 and a[1][0] in ('array', 'list') and a[1][1] == (P2,):
            ctx.ok('C10.1', ctx.site(single), 'single-recipient form = multi-recipient form over [recipient]')
        else:
            ctx.fail('C10.1', ctx.site(single), 'single-recipient form is %s' % fmt(rt), key='C10.1|single')
    # the forms without a test nonce have no key handling of their own: each is, on every path, the `_opt` form (or its sibling) over the
    # receiver and the caller's recipient(s)
    for nm in ('encrypt_subject_to_recipients', 'encrypt_subject_to_recipient'):
        w = F.method1('Envelope', nm)
        if w is None:
            ctx.lost('C10.1', 'Envelope::' + nm)
            continue
        rt = strip_sites(TermBuilder(F, w).return_term())
        c = callee_of(rt) if rt[0] == 'call' else None
        good = (c is not None and c.name != nm and c.name in ('encrypt_subject_to_recipients_opt', 'encrypt_subject_to_recipient_opt', 'encrypt_subject_to_recipients',
                                                             'encrypt_subject_to_recipient')
                and len(rt[2]) >= 2 and strip_sites(rt[2][0]) == P1
                and (strip_sites(rt[2][1]) == P2 or (strip_sites(rt[2][1])[0] in ('array', 'list') and tuple(strip_sites(z) for z in strip_sites(rt[2][1])[1]) == (P2,)))
                and not any(contains(a_, lambda y: y[0] == 'param') for a_ in rt[2][2:]))
        if good:
            ctx.ok('C10.1', ctx.site(w), '%s = %s(self, the caller\'s recipient(s), no test nonce)' % (nm, c.name), nontrivial=False)
        else:
            ctx.fail('C10.1', ctx.site(w), '%s handles keys or recipients on its own instead of being the checked form: returns %s' % (nm, fmt(rt)[:220]), key='C10.1|wrapper|' + nm)
    # ---- C10.2 reader
    r = F.method1('Envelope', 'recipients')
    if r is None:
        ctx.lost('C10.2', 'Envelope::recipients')
    else:
        rtb = TermBuilder(F, r)
        rds = [x for x in accept_sites(r, rtb)]
        sel = None
        for bi, si, t in rds:
            inner = detry(t)
            inner = inner[3][0] if inner[0] == 'agg' and inner[2] == 'Ok' and inner[3] else inner
            s_ = selection(F, r, rtb, inner, use_block=bi)
            if s_ is not None:
                sel = s_
        good = False
        why = fmt(strip_sites(rtb.return_term()))[:400]
        if sel is not None:
            src = m_call(sel.coll, name='assertions_with_predicate', self_suffix='Envelope')
            E = sel.elem
            def obj_of_E(x):
                """as_object(subject(E)) (unwrapped)"""
                u = m_call(x, name='unwrap') or m_call(x, name='expect')
                x = u[0] if u else x
                ao = m_call(x, name='as_object', self_suffix='Envelope')
                sj = m_call(ao[0], name='subject', self_suffix='Envelope') if ao else None
                return sj is not None and (sj[0] == E or sj[0] == ('elem', sel.coll))
            ext = m_call(sel.value, name='extract_subject', self_suffix='Envelope')
            c = CALLEES.get(sel.value[1]) if ext is not None else None
            sealed = c is not None and any('SealedMessage' in a for a in c.args)
            if src is None or src[0] != P1 or const_name(src[1]) != 'HAS_RECIPIENT':
                why = 'selection ranges over %s, not the \'hasRecipient\' assertions of self' % fmt(sel.coll)
            elif ext is None or not sealed or not obj_of_E(ext[0]):
                why = 'kept elements are not read as extract_subject::<SealedMessage>(object of the assertion): %s' % fmt(sel.value)
            else:
                # obscured recipient objects are skipped, every other one is read (a table over is_obscured(object))
                obs = sel.atoms(lambda x: x[0] == 'call' and call_name(x) == 'is_obscured' and obj_of_E(x[2][0]))
                if len(obs) == 1 and sel.keep_values({obs[0]: True}) == {False} and sel.keep_values({obs[0]: False}) == {True}:
                    good = True
                elif not obs and sel.keep_values({}) == {True}:
                    good = True
                else:
                    why = 'recipient objects are not kept exactly when they are not obscured (atoms %s)' % [fmt(o) for o in obs]
        if good:
            ctx.ok('C10.2', ctx.site(r), 'reader: objects of the \'hasRecipient\' assertions of self that are not obscured, each extracted as SealedMessage')
        else:
            ctx.fail('C10.2', ctx.site(r), 'recipients() does not read SealedMessage objects of \'hasRecipient\' assertions: %s' % why, key='C10.2|reader')
    # ---- C10.3
    d = F.method1('Envelope', 'decrypt_subject_to_recipient')
    helper = None
    hs = F.call_sites(lambda c: c.name == 'decrypt' and c.is_method('SealedMessage', 'decrypt'))
    helpers = {b.hash: b for b, bi, c, t in hs}
    if d is None:
        ctx.lost('C10.3', 'Envelope::decrypt_subject_to_recipient')
    else:
        tb = TermBuilder(F, d)
        acc = accept_sites(d, tb)
        if not acc:
            ctx.lost('C10.3', 'accept exit of decrypt_subject_to_recipient')
        for bi, si, t in acc:
            v = detry(t)
            a = m_call(v, name='decrypt_subject', self_suffix='Envelope')
            good = False
            why = fmt(strip_sites(v))
            if a is not None and strip_sites(a[0]) == P1:
                kd = a[1]
                c = callee_of(kd)
                if c is not None and c.name in ('from_tagged_cbor_data', 'try_from_cbor_data', 'from_tagged_cbor') and any('SymmetricKey' in x for x in c.args):
                    inner = kd[2][0]
                    hc = callee_of(inner)
                    if hc is not None and hc.best_hash in helpers:
                        ha = [strip_sites(x) for x in inner[2]]
                        rc = m_call(ha[0], name='recipients', self_suffix='Envelope')
                        if rc is not None and rc[0] == P1 and ha[1] == P2:
                            good = True
                            helper = helpers[hc.best_hash]
                        else:
                            why = 'plaintext helper is given %s' % [fmt(x) for x in ha]
                    else:
                        why = 'content key does not come from opening the sealed messages: %s' % fmt(strip_sites(inner))
                else:
                    why = 'content key is not parsed with the SymmetricKey tagged decoder: %s' % fmt(strip_sites(kd))
            if good:
                ctx.ok('C10.3', ctx.site(d, bi, si), 'decrypt_subject(self, SymmetricKey::from_tagged_cbor_data(plaintext(recipients(self), recipient key)))')
                ctx.ok('C10.2', ctx.site(d, bi, si), 'content key parsed with the tagged SymmetricKey decoder (writer: to_cbor_data = tagged encoding)')
            else:
                ctx.fail('C10.3', ctx.site(d, bi, si), why, key='C10.3|wiring')
    if helper is None and len(helpers) == 1:
        helper = list(helpers.values())[0]
    if helper is None:
        ctx.lost('C10.3', 'plaintext helper (body calling SealedMessage::decrypt)')
    else:
        htb = TermBuilder(F, helper)
        acc = accept_sites(helper, htb)
        msgs_param = None
        for bi, si, t in acc:
            v = strip_sites(detry(t))
            inner = v[3][0] if v[0] == 'agg' and v[2] == 'Ok' else v
            # successful decryption result: ok(decrypt(elem(msgs), key)).Some.0  or decrypt(..).Ok.0
            dec = None
            for x in walk(inner):
                if isinstance(x, tuple) and x and x[0] == 'call' and call_name(x) == 'decrypt':
                    dec = x
            # the success value of decrypt(..): written `decrypt(m, k).ok()` + Some payload, `decrypt(m, k)?`, or its Ok payload
            is_payload = (inner[0] == 'vfield' and inner[2] in ('Some', 'Ok')) or inner == dec
            good = dec is not None and is_payload and dec[2][0][0] == 'elem' and dec[2][1][0] == 'param'
            if good:
                msgs_param = elem_source(dec[2][0][1])
                ctx.ok('C10.3', ctx.site(helper, bi, si), 'plaintext helper returns Ok only with the successful result of SealedMessage::decrypt(one of the messages, caller\'s key)')
            else:
                ctx.fail('C10.3', ctx.site(helper, bi, si), 'plaintext helper returns %s' % fmt(inner), key='C10.3|helper_ok')
        errs = [strip_sites(t) for bi, si, t in ret_defs(htb) if t[0] == 'agg' and t[2] == 'Err']
        if errs and all(any(isinstance(x, tuple) and x and x[0] == 'agg' and x[2] == 'UnknownRecipient' for x in walk(e)) for e in errs):
            # the error exit only after all messages were tried: dominated by next == None
            ebs = [bi for bi, si, t in ret_defs(htb) if t[0] == 'agg' and t[2] == 'Err']
            edges = set()
            for sb2, dt2 in switch_on(htb, helper, lambda dd: dd[0] == 'discr' and dd[1][0] == 'next'):
                for val, bb in helper.term(sb2)['targets']:
                    if val == 0:
                        edges.add((sb2, bb))
            if edges and not any(e in reach_under(helper, htb, {}, removed_edges=edges) for e in ebs):
                ctx.ok('C10.3', ctx.site(helper, ebs[0]), 'Err(UnknownRecipient) only after every sealed message was tried')
            else:
                ctx.fail('C10.3', ctx.site(helper, ebs[0]), 'UnknownRecipient can be returned before every sealed message was tried (a listed recipient may be locked out)', key='C10.3|early_unknown')
        else:
            ctx.fail('C10.3', ctx.site(helper), 'failure exit of the plaintext helper is not Err(UnknownRecipient): %s' % [fmt(e) for e in errs], key='C10.3|helper_err')
    # ---- C10.4 compositions
    def comp(name, pred, desc, expected=None):
        b = F.method1('Envelope', name)
        if b is None:
            ctx.lost('C10.4', 'Envelope::' + name)
            return
        tb = TermBuilder(F, b)
        acc = accept_sites(b, tb)
        if not acc:
            ctx.lost('C10.4', 'accept exit of ' + name)
        for bi, si, t in acc:
            v = strip_sites(detry(t))
            u = m_call(v, name='unwrap') or m_call(v, name='expect')
            if u is not None:
                v = u[0]
            if pred(v) or same_mod_inline(F, v, expected):
                ctx.ok('C10.4', ctx.site(b, bi, si), '%s = %s' % (name, desc), sample=fmt(v))
            else:
                ctx.fail('C10.4', ctx.site(b, bi, si), '%s returns %s, expected %s' % (name, fmt(v), desc), key='C10.4|' + name)
    def is_call(v, nm, *argpreds):
        a = m_call(v, name=nm, self_suffix='Envelope')
        return a is not None and len(a) >= len(argpreds) and all(p(a[i]) for i, p in enumerate(argpreds))
    eq = lambda x: (lambda t: t == x)
    if not ctx.has('signature'):
        ctx.skip('C10.4', 'seal/unseal compiled out without the signature feature')
    else:
      E = lambda *a: expected_call(F, *a)
      comp('seal', lambda v: is_call(v, 'encrypt_to_recipient', lambda s: is_call(s, 'sign', eq(P1), eq(P2)), eq(P3)), 'encrypt_to_recipient(sign(self, sender), recipient)',
           E('encrypt_to_recipient', E('sign', P1, P2), P3))
      P4 = ('param', 4)
      comp('seal_opt', lambda v: is_call(v, 'encrypt_to_recipient', lambda s: is_call(s, 'sign_opt', eq(P1), eq(P2), eq(P4)), eq(P3)),
           'encrypt_to_recipient(sign_opt(self, sender, options), recipient)', E('encrypt_to_recipient', E('sign_opt', P1, P2, P4), P3))
      comp('unseal', lambda v: is_call(v, 'verify', lambda s: is_call(s, 'decrypt_to_recipient', eq(P1), eq(P3)), eq(P2)), 'verify(decrypt_to_recipient(self, recipient)?, sender)',
           E('verify', E('decrypt_to_recipient', P1, P3), P2))
    E = lambda *a: expected_call(F, *a)
    comp('encrypt_to_recipient', lambda v: is_call(v, 'encrypt_subject_to_recipient', lambda s: is_call(s, 'wrap_envelope', eq(P1)), eq(P2)), 'encrypt_subject_to_recipient(wrap(self), recipient)',
         E('encrypt_subject_to_recipient', E('wrap_envelope', P1), P2))
    comp('decrypt_to_recipient', lambda v: is_call(v, 'unwrap_envelope', lambda s: is_call(s, 'decrypt_subject_to_recipient', eq(P1), eq(P2))), 'unwrap_envelope(decrypt_subject_to_recipient(self, recipient)?)',
         E('unwrap_envelope', E('decrypt_subject_to_recipient', P1, P2)))


_check_inner = check


def check(ctx):
    _check_inner(ctx)
    from .. import panic
    F = ctx.F
    names = ['recipients', 'decrypt_subject_to_recipient', 'decrypt_to_recipient', 'encrypt_subject_to_recipients_opt', 'encrypt_subject_to_recipient_opt', 'encrypt_to_recipient', 'add_recipient_opt', 'seal', 'unseal']
    panic.slice_check(ctx, 'C10.6', [F.method1('Envelope', n) for n in names if F.method1('Envelope', n)], 'recipient')


_check_before_errflow = check


def check(ctx):
    _check_before_errflow(ctx)
    # C10.7 error discipline: no error of a fallible call is turned into "absent / false / default" outside the reviewed table
    from .. import errflow
    errflow.check(ctx, 'C10.7', ['src/extension/recipient.rs', 'src/seal.rs', 'src/extension/encrypt.rs'], 'recipient / encryption family')
    # C10.8: a recipient opens the envelope through decrypt_subject with the recovered content key, so "every listed recipient
    # recovers an envelope identical to the original" rests on the symmetric round trip: the decrypt_subject instances of C08
    # (digest guards C08.2, value wiring C08.3 - the node is rebuilt over the decrypted subject and the node's own assertions through
    # the node constructor) and the wrappers C08.5, re-evaluated under this property
    from . import C08
    from .C07 import Relabel
    try:
        C08.check(Relabel(ctx, 'C10.8', ['C08.2', 'C08.3', 'C08.5']))
    except Exception as e:
        ctx.fail('C10.8', '-', 'symmetric round-trip obligations (C08.2/3/5) could not be evaluated: %r' % e, key='C10.8|c08')
    # C10.9: add_recipient* always adds the recipient's sealed key (no exit that returns self on a test of the receiver: an envelope that
    # already carries assertions next to its encrypted subject must get the further recipient too)
    from .C07 import check_add_self_returns
    check_add_self_returns(ctx, 'C10.9', prefix='add_recipient', floor=2)
