"""Check runner: loads facts for the current tree, evaluates a property's rule instances, reports."""
import importlib, json, os, sys, time, traceback
from . import extract, facts as factsmod

VERIF = extract.VERIF


class AnchorLost(Exception):
    pass


class Ctx:
    """Per (property, configuration) evaluation context."""

    def __init__(self, prop, tier, config, F, deps=None, tree=None):
        self.prop = prop
        self.tier = tier
        self.config = config
        self.F = F
        self._deps = deps or {}
        self.tree = tree
        self.results = []      # dicts
        self.skipped = []
        self.stats = {}
        self.features = set(F.features)

    def has(self, *features):
        return all(f in self.features for f in features)

    def dep(self, crate):
        return self._deps.get(crate)

    # ---- recording
    def ok(self, inst, site, detail, nontrivial=True, sample=None):
        self.results.append({'inst': inst, 'status': 'pass', 'site': site, 'detail': detail, 'nontrivial': nontrivial,
                             'config': self.config, 'sample': sample})

    def fail(self, inst, site, detail, key=None, rule=None):
        self.results.append({'inst': inst, 'status': 'violation', 'site': site, 'detail': detail,
                             'key': key or ('%s|%s' % (inst, detail)), 'rule': rule or inst, 'config': self.config})

    def lost(self, inst, what):
        self.results.append({'inst': inst, 'status': 'violation', 'site': '-', 'detail': 'ANCHOR-LOST: ' + what,
                             'key': '%s|ANCHOR-LOST|%s' % (inst, what), 'rule': 'ANCHOR-LOST', 'config': self.config})

    def skip(self, inst, why):
        self.skipped.append({'inst': inst, 'why': why, 'config': self.config})

    def count(self, name, n=1):
        self.stats[name] = self.stats.get(name, 0) + n

    def need(self, inst, value, what):
        """Fail closed when an anchor lookup returned nothing."""
        if value is None or (hasattr(value, '__len__') and len(value) == 0):
            self.lost(inst, what)
            raise AnchorLost(what)
        return value

    def site(self, body, block=None, stmt=None):
        if block is None:
            sp = body.span or {}
            return '%s:%s in %s' % (sp.get('file', '?'), sp.get('line', '?'), body.path)
        return '%s in %s' % (body.line(block, stmt), body.path)


def load_known():
    p = os.path.join(VERIF, 'known_findings.json')
    if not os.path.exists(p):
        return []
    with open(p) as f:
        return json.load(f).get('findings', [])


def unexplained(results, known_keys):
    return [r for r in results if r['status'] == 'violation' and r['key'] not in known_keys]


def evaluate(mod, prop, tier, cfg, F, deps, th, with_floors):
    """Judge every rule instance of a property on one program representation in one configuration."""
    from . import lib as _lib
    ctx = Ctx(prop, tier, cfg, F, deps, th)
    _lib.CURRENT_FACTS[0] = F
    try:
        mod.check(ctx)
        if getattr(mod, 'USES_QUERIES', False):
            # the property's rules read subject() / assertions() / case predicates / the predicate lookups as opaque atoms with their
            # documented meaning; that meaning (the C15.5 / C15.6 tables) is part of what the property rests on
            from .props import C15 as _C15
            from .props.C07 import Relabel as _Relabel
            _C15.check(_Relabel(ctx, prop + '.Q', ['C15.5', 'C15.6']))
        if getattr(mod, 'USES_KNOWN_VALUES', False) and 'known_value' in F.features:
            # the rules identify predicates by the NAME of the known-value constant; two constants sharing a code would be one predicate
            from . import accessors as _acc
            _acc.check_constant_registry(ctx, prop + '.K', kinds=('KnownValue',))
    except AnchorLost:
        pass
    except Exception as e:
        tb = traceback.format_exc()
        ctx.results.append({'inst': 'ENGINE', 'status': 'violation', 'site': '-', 'detail': 'rule engine failed closed: %r\n%s' % (e, tb[-1500:]),
                            'key': 'ENGINE|%r' % (e,), 'rule': 'ENGINE-ERROR', 'config': cfg})
    if with_floors:
        by_inst = {}
        for r in ctx.results:
            by_inst[r['inst']] = by_inst.get(r['inst'], 0) + 1
        for inst, floor in getattr(mod, 'FLOORS', {}).items():
            got = sum(v for k, v in by_inst.items() if k == inst or k.startswith(inst + '/'))
            if got < floor:
                ctx.results.append({'inst': inst, 'status': 'violation', 'site': '-', 'config': cfg,
                                    'detail': 'ANCHOR-LOST: instance count %d below confirmed floor %d' % (got, floor),
                                    'key': '%s|FLOOR' % inst, 'rule': 'ANCHOR-LOST'})
    return ctx


def run_property(prop, tier, replay=None):
    t0 = time.time()
    mod = importlib.import_module('envstat.props.' + prop)
    need_deps = getattr(mod, 'NEED_DEPS', False)
    configs = list(getattr(mod, 'QUICK_CONFIGS', ['default']))
    if tier == 'thorough':
        configs = list(getattr(mod, 'THOROUGH_CONFIGS', list(extract.CONFIGS.keys())))
    all_results = []
    skipped = []
    stats = {}
    analysed = []
    nf_notes = []
    floors = getattr(mod, 'FLOORS', {})
    known = [k for k in load_known() if k.get('property') == prop and k.get('status') == 'known']
    known_keys = {k['key']: k for k in known}
    for cfg in configs:
        paths, th = extract.facts_paths(cfg, need_deps=need_deps)
        F = factsmod.Facts(paths['bc_envelope'])
        deps = {}
        if need_deps:
            for c in ('dcbor', 'bc_components'):
                deps[c] = factsmod.Facts(paths[c])
        required = getattr(mod, 'REQUIRES', [])
        if not set(required) <= set(F.features):
            skipped.append({'inst': '*', 'why': 'configuration lacks features %s: property mechanism compiled out' % required, 'config': cfg})
            analysed.append({'config': cfg, 'features': sorted(F.features), 'bodies': len(F.bodies), 'tree': th, 'applicable': False})
            continue
        with_floors = cfg == configs[0]
        from . import normalize
        forced = os.environ.get('VERIF_FORCE_NF')
        nf_used = None
        if forced:
            # development aid: judge one named representation only
            NF, note = normalize.representation(F, forced)
            ctx = evaluate(mod, prop, tier, cfg, NF if NF is not None else F, deps, th, with_floors)
            nf_used = forced if NF is not None else None
        else:
            ctx = evaluate(mod, prop, tier, cfg, F, deps, th, with_floors)
        if not forced and unexplained(ctx.results, known_keys) and not os.environ.get('VERIF_NO_NORMAL_FORMS'):
            # re-judge on behaviour-preserving normal forms of the same program before reporting
            for name in normalize.REPRESENTATIONS:
                try:
                    NF, note = normalize.representation(F, name)
                except Exception as e:
                    NF, note = None, 'error %r' % (e,)
                if NF is None:
                    nf_notes.append({'config': cfg, 'representation': name, 'skipped': note})
                    continue
                ctx2 = evaluate(mod, prop, tier, cfg, NF, deps, th, with_floors)
                bad2 = unexplained(ctx2.results, known_keys)
                nf_notes.append({'config': cfg, 'representation': name, 'note': note, 'violations_as_written': len(unexplained(ctx.results, known_keys)),
                                 'violations_on_normal_form': len(bad2)})
                if os.environ.get('VERIF_SHOW_NF'):
                    for v in bad2:
                        print('  [normal form %s] %s %s -- %s' % (name, v['site'], v['inst'], v['detail'][:300]))
                if not bad2:
                    ctx = ctx2
                    nf_used = name
                    break
        all_results.extend(ctx.results)
        skipped.extend(ctx.skipped)
        for k, v in ctx.stats.items():
            stats[k] = stats.get(k, 0) + v
        ncalls = sum(1 for b in F.bodies for _ in b.calls())
        analysed.append({'config': cfg, 'features': sorted(ctx.features), 'bodies': len(F.bodies), 'call_sites': ncalls, 'tree': th, 'applicable': True,
                         'normal_form': nf_used})
    show = os.environ.get('VERIF_SHOW_SITE')
    if show:
        # development aid: every verdict recorded at sites whose name contains the given substring
        for r in all_results:
            if show in r.get('site', ''):
                print('  [%s] %s %s -- %s' % (r['status'], r['site'], r['inst'], r.get('detail', '')[:400]))
    viols = [r for r in all_results if r['status'] == 'violation']
    # de-duplicate across configurations by key
    seen = {}
    for v in viols:
        seen.setdefault(v['key'], v)
        if v is not seen[v['key']]:
            seen[v['key']].setdefault('also_in', []).append(v['config'])
    uniq = list(seen.values())
    real = []
    known_hit = []
    for v in uniq:
        if v['key'] in known_keys:
            known_hit.append((v, known_keys[v['key']]))
        else:
            real.append(v)
    rep_dir = os.path.join(VERIF, 'reports', prop)
    os.makedirs(rep_dir, exist_ok=True)
    if not os.environ.get('VERIF_REPO') and os.environ.get('VERIF_REPLAY_KEY') is None:
        for fn in os.listdir(rep_dir):
            if fn.endswith('.json'):
                os.unlink(os.path.join(rep_dir, fn))
    for v, k in known_hit:
        print('KNOWN-FINDING: property=%s %s [%s]' % (prop, k.get('what', v['detail']), v['site']))
    exit_code = 0
    rk = os.environ.get('VERIF_REPLAY_KEY')
    if rk is not None:
        if any(v['key'] == rk for v in uniq):
            os.environ['VERIF_REPLAY_HIT'] = '1'
        real = []      # replay mode: the verdict is about the stored instance only
    for i, v in enumerate(real):
        name = ''.join(ch if ch.isalnum() or ch in '._-' else '_' for ch in v['inst'])[:60]
        path = os.path.join(rep_dir, '%s-%d.json' % (name, i))
        with open(path, 'w') as f:
            json.dump(v, f, indent=1)
        print('%s  %s.%s  rule=%s  [%s]  -- %s' % (v['site'], prop, v['inst'], v.get('rule'), v['config'], v['detail'][:600]))
        print('VIOLATION property=%s replay=%s' % (prop, path))
        exit_code = 1
    passes = [r for r in all_results if r['status'] == 'pass']
    nontrivial = {(r['inst'], r['site']) for r in passes if r.get('nontrivial')}
    samples = []
    seen_inst = set()
    for r in passes:
        if r['inst'] in seen_inst:
            continue
        seen_inst.add(r['inst'])
        samples.append({'instance': r['inst'], 'site': r['site'], 'verdict': 'holds', 'detail': r['detail'][:400]})
        if len(samples) >= 14:
            break
    for v in real[:6]:
        samples.append({'instance': v['inst'], 'site': v['site'], 'verdict': 'VIOLATION', 'detail': v['detail'][:400]})
    selftest = None
    if tier == 'thorough' and not os.environ.get('VERIF_REPO'):
        try:
            selftest = self_validation(prop)
            print('%s self-validation: %d mutants reported, %d missed, %d refactors silent, %d noisy, %d skipped' % (
                prop, len(selftest['killed']), len(selftest['survived']), len(selftest['silent']), len(selftest['noisy']), len(selftest['skipped'])))
        except Exception as e:
            selftest = {'error': repr(e)}
    wall = time.time() - t0
    ev = {
        'property_id': prop,
        'tier': tier,
        'seed': int(os.environ.get('VERIF_SEED', '0') or 0),
        'level': 'other',
        'coverage': {
            'explanation': getattr(mod, 'EXPLANATION', ''),
            'rule': 'one evaluation = one rule instance judged at one resolved site in one feature configuration; '
                    'non-trivial = the instance found a real construct to judge (accept exit, sink, call site, panic site, table row), '
                    'distinct = distinct (instance, site) pairs',
            'evaluations': len(all_results),
            'distinct_nontrivial': len(nontrivial),
            'obligations': len(all_results),
            'discharged': len(passes),
            'known_findings_matched': len(known_hit),
            'violations': len(real),
            'instances': sorted({r['inst'] for r in all_results}),
            'configurations': analysed,
            'absent_by_cfg': skipped[:40],
            'stats': stats,
            'floors': floors,
            'normal_forms': nf_notes,
            'samples': samples,
            'checker_cmd': './check %s %s' % (prop, tier),
            'trusted_base': getattr(mod, 'TRUSTED', []) + [
                'rustc nightly type checking, trait resolution and MIR construction (-Zmir-opt-level=0)',
                'envstat term normalisation table (clone/borrow/deref/into_owned transparent)'],
            'exhaustive': True,
            'selftest': selftest,
        },
        'assumptions': getattr(mod, 'ASSUMPTIONS', []),
        'wall_s': round(wall, 2),
        'violations': len(real),
    }
    if not os.environ.get('VERIF_NO_EVIDENCE'):
        os.makedirs(os.path.join(VERIF, 'evidence'), exist_ok=True)
        tmp = os.path.join(VERIF, 'evidence', '.%s.json.tmp%d' % (prop, os.getpid()))
        with open(tmp, 'w') as f:
            json.dump(ev, f, indent=1)
        os.rename(tmp, os.path.join(VERIF, 'evidence', prop + '.json'))
    print('%s %s: %d instance evaluations over %d configuration(s), %d passed, %d known, %d violations (%.1fs)' % (
        prop, tier, len(all_results), len(configs), len(passes), len(known_hit), len(real), wall))
    return exit_code


def self_validation(prop):
    """Thorough tier: run this property's check against scratch copies of /repo carrying (a) the mutants that are expected to be
    reported for it (selftest/mutants, seeded/) and (b) behaviour-preserving refactors that must stay silent. Informational:
    never changes the exit code of the check, which reflects the current tree only."""
    import shutil, subprocess, tempfile
    out = {'killed': [], 'survived': [], 'silent': [], 'noisy': [], 'skipped': []}
    cases = []
    mdir = os.path.join(VERIF, 'selftest', 'mutants')
    idx = json.load(open(os.path.join(mdir, 'index.json'))) if os.path.exists(os.path.join(mdir, 'index.json')) else {}
    for name, meta in sorted(idx.items()):
        if prop in meta.get('expect', []):
            cases.append(('mutant', name, os.path.join(mdir, name + '.patch'), bool(meta.get('reverse'))))
    sdir = os.path.join(VERIF, 'seeded')
    if os.path.isdir(sdir):
        for d in sorted(os.listdir(sdir)):
            if d.startswith(prop + '_') and os.path.exists(os.path.join(sdir, d, 'patch.diff')):
                cases.append(('mutant', 'seeded/' + d, os.path.join(sdir, d, 'patch.diff'), False))
    rdir = os.path.join(VERIF, 'selftest', 'refactors')
    ridx = json.load(open(os.path.join(rdir, 'index.json'))) if os.path.exists(os.path.join(rdir, 'index.json')) else {}
    for name, meta in sorted(ridx.items()):
        cases.append(('refactor', name, os.path.join(rdir, name + '.patch'), bool(meta.get('reverse'))))
    # the sub-agent refactor corpus (x.., y..) is large: the thorough tier of one property runs the hand-written ones and a
    # deterministic sample of the rest; `tools/selftest_par.py refactors` runs all of them against all properties
    import hashlib
    def keep(case):
        kind, name, patch, reverse = case
        if kind != 'refactor' or not (name.startswith('x') or name.startswith('y')):
            return True
        return int(hashlib.sha1((prop + name).encode()).hexdigest(), 16) % 6 == 0
    cases = [c for c in cases if keep(c)]

    def run_case(case):
        kind, name, patch, reverse = case
        tmp = tempfile.mkdtemp(prefix='envstat_selftest_')
        try:
            repo = os.path.join(tmp, 'repo')
            os.makedirs(repo)
            shutil.copytree(os.path.join(extract.REPO, 'src'), os.path.join(repo, 'src'))
            for fn in ('Cargo.toml', 'Cargo.lock'):
                shutil.copy(os.path.join(extract.REPO, fn), os.path.join(repo, fn))
            subprocess.run(['git', 'init', '-q', '.'], cwd=repo)
            r = subprocess.run(['git', 'apply'] + (['-R'] if reverse else []) + ['-p1', patch], cwd=repo, capture_output=True, text=True)
            if r.returncode != 0:
                return ('skipped', {'case': name, 'why': 'patch does not apply to the current tree'})
            env = dict(os.environ, VERIF_REPO=repo, VERIF_NO_EVIDENCE='1', VERIF_TIER='quick')
            o = subprocess.run([os.path.join(VERIF, 'check'), prop, 'quick'], capture_output=True, text=True, env=env, cwd=VERIF)
            fired = o.returncode == 1
            if o.returncode not in (0, 1):
                return ('skipped', {'case': name, 'why': 'infrastructure exit %d' % o.returncode})
            insts = sorted({l.split('  ')[1] for l in o.stdout.splitlines() if 'rule=' in l and '  ' in l})
            if kind == 'mutant':
                return ('killed' if fired else 'survived', {'case': name, 'instances': insts[:6]})
            return ('noisy' if fired else 'silent', {'case': name, 'instances': insts[:6]})
        finally:
            shutil.rmtree(tmp, ignore_errors=True)

    from concurrent.futures import ThreadPoolExecutor
    with ThreadPoolExecutor(max_workers=int(os.environ.get('VERIF_SELFTEST_JOBS', '8'))) as ex:
        for bucket, item in ex.map(run_case, cases):
            out[bucket].append(item)
    return out


def main(argv):
    if len(argv) < 2:
        print('usage: check <Cxx> [quick|thorough] | check <Cxx> --replay <report>')
        return 2
    prop = argv[1]
    tier = os.environ.get('VERIF_TIER', 'quick')
    if len(argv) >= 3 and argv[2] in ('quick', 'thorough'):
        tier = argv[2]
    if '--replay' in argv:
        # re-evaluate the property on the current tree and report whether the stored violation (by its line-free key) is still there
        rp = argv[argv.index('--replay') + 1]
        with open(rp) as f:
            rep = json.load(f)
        print('replaying %s.%s key=%s' % (prop, rep.get('inst'), rep.get('key', '')[:200]))
        print('  stored report: %s -- %s' % (rep.get('site'), rep.get('detail', '')[:400]))
        os.environ['VERIF_NO_EVIDENCE'] = '1'
        os.environ['VERIF_REPLAY_KEY'] = rep.get('key', '')
        try:
            rc = run_property(prop, 'quick')
        except extract.InfraError as e:
            sys.stderr.write('INFRASTRUCTURE ERROR (not a verdict): %s\n' % e)
            return 2
        still = os.environ.get('VERIF_REPLAY_HIT') == '1'
        print('replay verdict: the reported violation is %s on the current tree' % ('STILL PRESENT' if still else 'no longer present'))
        if still:
            print('VIOLATION property=%s replay=%s' % (prop, rp))
        return 1 if still else 0
    # watchdog: the analysis of a tree the rules were not written for must end in a verdict, not hang. On the pinned tree a quick check
    # takes seconds (C16 / C20: a few minutes when the facts have to be re-extracted); the limit is far above that. Running out of time is
    # reported like any other failure of the engine: fail-closed, as a violation that names the cause.
    import signal
    limit = int(os.environ.get('VERIF_TIME_LIMIT', '2400' if tier == 'quick' else '14400'))
    class EngineTimeout(Exception):
        pass
    def _on_alarm(sig, frm):
        raise EngineTimeout()
    try:
        signal.signal(signal.SIGALRM, _on_alarm)
        signal.alarm(limit)
    except Exception:
        pass
    try:
        return run_property(prop, tier)
    except EngineTimeout:
        rep_dir = os.path.join(VERIF, 'reports', prop)
        os.makedirs(rep_dir, exist_ok=True)
        path = os.path.join(rep_dir, 'ENGINE-timeout.json')
        with open(path, 'w') as f:
            json.dump({'inst': 'ENGINE', 'status': 'violation', 'site': '-', 'key': 'ENGINE|timeout', 'rule': 'ENGINE-ERROR',
                       'detail': 'the rule engine did not reach a verdict within %d s on this tree: judged fail-closed' % limit}, f, indent=1)
        print('-  %s.ENGINE  rule=ENGINE-ERROR  -- the rule engine did not reach a verdict within %d s on this tree: judged fail-closed' % (prop, limit))
        print('VIOLATION property=%s replay=%s' % (prop, path))
        return 1
    except extract.InfraError as e:
        sys.stderr.write('INFRASTRUCTURE ERROR (not a verdict): %s\n' % e)
        return 2
    finally:
        try:
            signal.alarm(0)
        except Exception:
            pass
