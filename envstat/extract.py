"""Fact extraction: run the envfacts driver over /repo (and its dependency tree) and cache the result.

The cache key is a hash of the *current* contents of /repo/{src,Cargo.toml,Cargo.lock}; it is recomputed on
every run, so a check always analyses the tree as it is now.  Facts are a pure function of (tree, toolchain,
feature configuration)."""
import fcntl, hashlib, json, os, shutil, subprocess, sys, time, glob

VERIF = os.path.dirname(os.path.dirname(os.path.abspath(__file__)))
REPO = os.environ.get('VERIF_REPO', '/repo')
CACHE = os.path.join(VERIF, '.cache')
DRIVER = os.path.join(VERIF, 'driver', 'target', 'release', 'envfacts')

ALL_FEATURES = ["attachment", "compress", "encrypt", "expression", "known_value", "proof", "recipient", "salt",
                "signature", "ssh", "sskr", "types"]

CONFIGS = {
    'default': [],
    'mt': ['--features', 'multithreaded'],
    'none': ['--no-default-features'],
}
for f in ALL_FEATURES:
    CONFIGS['only-' + f] = ['--no-default-features', '--features', f]


class InfraError(Exception):
    pass


def _hash_files(paths):
    h = hashlib.sha256()
    for p in sorted(paths):
        h.update(p.encode())
        h.update(b'\0')
        with open(p, 'rb') as f:
            h.update(hashlib.sha256(f.read()).digest())
    return h.hexdigest()[:20]


def tree_hash(repo=None):
    repo = repo or REPO
    paths = []
    for root, dirs, files in os.walk(os.path.join(repo, 'src')):
        for fn in files:
            paths.append(os.path.join(root, fn))
    for fn in ('Cargo.toml', 'Cargo.lock'):
        p = os.path.join(repo, fn)
        if os.path.exists(p):
            paths.append(p)
    # hash relative names so a scratch copy of the same tree shares cache entries
    h = hashlib.sha256()
    for p in sorted(paths):
        h.update(os.path.relpath(p, repo).encode())
        h.update(b'\0')
        with open(p, 'rb') as f:
            h.update(hashlib.sha256(f.read()).digest())
    with open(DRIVER, 'rb') as f:
        h.update(hashlib.sha256(f.read()).digest())
    return h.hexdigest()[:20]


def lock_hash(repo=None):
    repo = repo or REPO
    h = hashlib.sha256()
    with open(os.path.join(repo, 'Cargo.lock'), 'rb') as f:
        h.update(f.read())
    with open(DRIVER, 'rb') as f:
        h.update(hashlib.sha256(f.read()).digest())
    return h.hexdigest()[:20]


def sysroot_lib():
    out = subprocess.run(['rustc', '+nightly', '--print', 'sysroot'], capture_output=True, text=True)
    if out.returncode != 0:
        raise InfraError('nightly toolchain not available: ' + out.stderr)
    return os.path.join(out.stdout.strip(), 'lib')


def ensure_driver():
    if not os.path.exists(DRIVER):
        r = subprocess.run(['sh', os.path.join(VERIF, 'setup.sh')], capture_output=True, text=True)
        if r.returncode != 0 or not os.path.exists(DRIVER):
            raise InfraError('cannot build driver: ' + r.stdout + r.stderr)


def _run_driver(repo, crates, outdir, cfg_args, target_dir, nonce):
    env = dict(os.environ)
    env['LD_LIBRARY_PATH'] = sysroot_lib() + ':' + env.get('LD_LIBRARY_PATH', '')
    env['ENVFACTS_CRATES'] = ','.join(crates)
    env['ENVFACTS_OUT'] = outdir
    env['ENVFACTS_NONCE'] = nonce
    env['RUSTFLAGS'] = '-Zmir-opt-level=0 -Awarnings'
    env['RUSTC_WRAPPER'] = DRIVER
    env['CARGO_TARGET_DIR'] = target_dir
    env['CARGO_NET_OFFLINE'] = 'true'
    env.pop('RUSTC_WORKSPACE_WRAPPER', None)
    cmd = ['cargo', '+nightly', 'check', '--offline', '--lib', '--manifest-path', os.path.join(repo, 'Cargo.toml')] + cfg_args
    r = subprocess.run(cmd, env=env, capture_output=True, text=True)
    return r


def _rm_fingerprints(target_dir, names):
    fp = os.path.join(target_dir, 'debug', '.fingerprint')
    for n in names:
        for d in glob.glob(os.path.join(fp, n + '-*')):
            shutil.rmtree(d, ignore_errors=True)


def facts_paths(config='default', repo=None, need_deps=False):
    """Return dict crate->path of fact files for the current tree in `config`, extracting on a cache miss."""
    repo = repo or REPO
    ensure_driver()
    os.makedirs(CACHE, exist_ok=True)
    th = tree_hash(repo)
    lh = lock_hash(repo)
    target_dir = os.path.join(CACHE, 'target')
    fdir = os.path.join(CACHE, 'facts', config + '-' + th)
    ddir = os.path.join(CACHE, 'facts', 'deps-' + lh)
    out = {'bc_envelope': os.path.join(fdir, 'bc_envelope.json')}
    deps = {'dcbor': os.path.join(ddir, 'dcbor.json'), 'bc_components': os.path.join(ddir, 'bc_components.json')}
    missing_main = not os.path.exists(out['bc_envelope'])
    missing_deps = need_deps and not all(os.path.exists(p) for p in deps.values())
    if missing_main or missing_deps:
        with open(os.path.join(CACHE, 'lock'), 'w') as lk:
            fcntl.flock(lk, fcntl.LOCK_EX)
            try:
                if need_deps and not all(os.path.exists(p) for p in deps.values()):
                    nonce = 'deps-%s-%d' % (lh, time.time_ns())
                    _rm_fingerprints(target_dir, ['dcbor', 'bc-components', 'bc-envelope'])
                    tmp = ddir + '.tmp%d' % os.getpid()
                    shutil.rmtree(tmp, ignore_errors=True)
                    r = _run_driver(repo, ['dcbor', 'bc_components'], tmp, CONFIGS['default'], target_dir, nonce)
                    if r.returncode != 0:
                        raise InfraError('dependency fact extraction failed:\n' + r.stderr[-4000:])
                    for c in ('dcbor', 'bc_components'):
                        p = os.path.join(tmp, c + '.json')
                        if not os.path.exists(p):
                            raise InfraError('dependency facts not produced for ' + c)
                    os.makedirs(os.path.dirname(ddir), exist_ok=True)
                    shutil.rmtree(ddir, ignore_errors=True)
                    os.rename(tmp, ddir)
                if not os.path.exists(out['bc_envelope']):
                    nonce = '%s-%s-%d' % (config, th, time.time_ns())
                    _rm_fingerprints(target_dir, ['bc-envelope'])
                    tmp = fdir + '.tmp%d' % os.getpid()
                    shutil.rmtree(tmp, ignore_errors=True)
                    r = _run_driver(repo, ['bc_envelope'], tmp, CONFIGS[config], target_dir, nonce)
                    p = os.path.join(tmp, 'bc_envelope.json')
                    if r.returncode != 0:
                        shutil.rmtree(tmp, ignore_errors=True)
                        raise InfraError('the tree does not compile in configuration %s:\n%s' % (config, r.stderr[-6000:]))
                    if not os.path.exists(p):
                        raise InfraError('fact file was not produced (cargo freshness?)\n' + r.stderr[-2000:])
                    with open(p) as f:
                        head = f.read(400)
                    if nonce not in head:
                        raise InfraError('stale fact file (nonce mismatch)')
                    os.makedirs(os.path.dirname(fdir), exist_ok=True)
                    shutil.rmtree(fdir, ignore_errors=True)
                    os.rename(tmp, fdir)
                    _prune(os.path.join(CACHE, 'facts'), keep=60)
            finally:
                fcntl.flock(lk, fcntl.LOCK_UN)
    if need_deps:
        out.update(deps)
    return out, th


def _prune(d, keep):
    ents = [os.path.join(d, x) for x in os.listdir(d) if not x.startswith('deps-')]
    ents.sort(key=lambda p: os.path.getmtime(p))
    for p in ents[:-keep]:
        shutil.rmtree(p, ignore_errors=True)
