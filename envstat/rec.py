"""REC helpers: recursive call sites of a traversal (in the body and its closures), with child-kind classification."""
from .lib import *
from .terms import TermBuilder
from .obscure import child_kind, CHILD_KINDS

ADAPTORS = {'map', 'for_each', 'any', 'all', 'filter', 'filter_map', 'find', 'find_map', 'position', 'flat_map', 'fold', 'try_for_each', 'try_fold', 'sum', 'inspect'}


def closure_bindings(F, parent, tb):
    """For each closure created in `parent`: (closure path) -> (captures terms, element binding term or None)."""
    out = {}
    for bi, c, t in parent.calls():
        args = tb.call_args(bi)
        for i, a in enumerate(args):
            if isinstance(a, tuple) and a and a[0] == 'closure':
                elem = None
                if c is not None and c.name in ADAPTORS and i >= 1:
                    elem = ('elem', elem_source(args[0]))
                out[a[1]] = (a[2], elem, c.name if c else None)
    return out


def recursive_call_sites(F, body, target_hashes=None, _depth=0, _map=None):
    """All calls (in body and nested closures) to `body` itself (or to any of target_hashes).
    Returns list of dicts: {args: terms in the *outer function's* parameter space where possible, site, in_closure}."""
    target_hashes = target_hashes or {body.hash}
    res = []
    tb = TermBuilder(F, body)
    for bi, c, t in body.calls():
        if c is not None and c.best_hash in target_hashes:
            args = tb.call_args(bi)
            if _map:
                args = tuple(subst(a, _map) for a in args)
            res.append({'args': args, 'block': bi, 'body': body, 'site': '%s in %s' % (body.line(bi), body.path), 'callee': c})
    if _depth < 3:
        binds = closure_bindings(F, body, tb)
        for cl in F.closures_of(body):
            # direct children only
            rest = cl.path[len(body.path):]
            if rest.count('{closure#') != 1:
                continue
            caps, elem, adaptor = binds.get(cl.path, ((), None, None))
            m = {}
            for i, cterm in enumerate(caps):
                m[('upvar', i)] = subst(cterm, _map) if _map else cterm
            if elem is not None:
                m[('param', 2)] = subst(elem, _map) if _map else elem
            res.extend(recursive_call_sites(F, cl, target_hashes, _depth + 1, m))
    return res


def coverage(sites, recv_index=0):
    """child kind -> list of sites"""
    cov = {}
    other = []
    for s in sites:
        k = child_kind(s['args'][recv_index]) if len(s['args']) > recv_index else None
        if k is None:
            other.append(s)
        else:
            cov.setdefault(k, []).append(s)
    return cov, other


def is_self_recursive(F, body):
    return bool(recursive_call_sites(F, body))


def reachable_recursive(F, start, through_exported=False):
    """Self-recursive crate-local functions reachable from `start` through calls (closures included),
    not descending through other exported (public API) functions unless through_exported."""
    seen = {start.path}
    work = [start]
    out = []
    while work:
        b = work.pop()
        bodies = [b] + F.closures_of(b)
        for bb in bodies:
            for bi, c, t in bb.calls():
                if c is None:
                    continue
                cb = F.by_hash.get(c.best_hash)
                if cb is None or cb.path in seen:
                    continue
                seen.add(cb.path)
                if is_self_recursive(F, cb):
                    out.append(cb)
                    continue
                if not through_exported and F.item_is_exported(cb) and cb is not start:
                    continue
                work.append(cb)
    return out
