"""Semantics-preserving normal forms of the analysed program.

A rule instance that fails on the program as written is re-judged on a normal form of the same program before it is reported:
the rules are sound for whatever program they are given and the normal forms preserve behaviour, so a pass on any of them is a pass.
The only normal form so far is MIR-level inlining of crate-private helper functions into their callers, which undoes
"extract function" refactors (a check, a match arm, a closure body or a tail of a function moved into a private helper).

Two policies, tried in order:
  new-helpers : inline only private functions that do not exist in the baseline function list of the pinned tree
  all-helpers : inline every private, non-constructor, non-recursive function
Functions that build Envelope / EnvelopeCase / Assertion aggregates (the constructors the rules are anchored on) are never inlined."""
import copy, json, os
from . import facts as factsmod

MAX_DEPTH = 3
MAX_BLOCKS = 400
_KEEP = []


def _remap(o, loff, boff, poff):
    """Deep copy of a MIR json fragment with locals, blocks and promoted indexes shifted."""
    if isinstance(o, list):
        return [_remap(x, loff, boff, poff) for x in o]
    if not isinstance(o, dict):
        return o
    k = o.get('k')
    out = {}
    is_place = 'l' in o and 'p' in o
    for key, v in o.items():
        if key == 'l' and (is_place or k in ('live', 'dead')):
            out[key] = v + loff
        elif key == 'idx' and isinstance(v, int) and len(o) == 1:
            out[key] = v + loff
        elif key == 'promoted' and isinstance(v, int) and k == 'const':
            out[key] = v + poff
        elif key == 't' and k in ('goto', 'call', 'drop', 'assert'):
            out[key] = (v + boff) if isinstance(v, int) else v
        elif key == 'otherwise' and k == 'switch':
            out[key] = v + boff
        elif key == 'targets' and k == 'switch':
            out[key] = [[a, b + boff] for a, b in v]
        elif key == 'unwind':
            out[key] = (v + boff) if isinstance(v, int) and not isinstance(v, bool) else v
        elif key in ('span', 'fn_span', 'fn'):
            out[key] = v
        else:
            out[key] = _remap(v, loff, boff, poff)
    return out


def _rename_local(o, src, dst):
    if isinstance(o, list):
        for x in o:
            _rename_local(x, src, dst)
    elif isinstance(o, dict):
        if 'l' in o and o['l'] == src and ('p' in o or o.get('k') in ('live', 'dead')):
            o['l'] = dst
        for key, v in o.items():
            if key not in ('span', 'fn_span', 'fn'):
                _rename_local(v, src, dst)


def _inline_at(raw, bi, H, stacks):
    """Inline body H (raw json) at the call terminating block bi of raw (mutated in place)."""
    bl = raw['blocks'][bi]
    t = bl['term']
    loff = len(raw['locals'])
    boff = len(raw['blocks'])
    poff = len(raw.get('promoted', []))
    raw['locals'].extend(copy.deepcopy(H['locals']))
    # a call whose destination is a whole local writes the callee's return place straight into it: the callee's definitions
    # of its return value stay separate definitions (one per exit) instead of merging into one copy
    fwd = t['dest']['l'] if not t['dest']['p'] else None
    raw.setdefault('promoted', []).extend(copy.deepcopy(H.get('promoted', [])))
    span = t.get('span')
    unwind = t.get('unwind')
    for hb in H['blocks']:
        nb = _remap(hb, loff, boff, poff)
        if fwd is not None:
            _rename_local(nb, loff, fwd)
        nt = nb['term']
        if nt and nt['k'] == 'return':
            if fwd is None:
                nb['stmts'].append({'k': 'assign', 'place': copy.deepcopy(t['dest']),
                                    'rv': {'k': 'use', 'op': {'k': 'move', 'place': {'l': loff, 'p': []}}}, 'span': nt.get('span') or span})
            if t['t'] is None:
                nb['term'] = {'k': 'unreachable'}
            else:
                nb['term'] = {'k': 'goto', 't': t['t']}
        elif nt and nt['k'] == 'resume' and isinstance(unwind, int) and not isinstance(unwind, bool):
            nb['term'] = {'k': 'goto', 't': unwind}
        raw['blocks'].append(nb)
        stacks.append(stacks[bi] + (H['hash'],))
    for i, a in enumerate(t['args']):
        bl['stmts'].append({'k': 'assign', 'place': {'l': loff + 1 + i, 'p': []}, 'rv': {'k': 'use', 'op': copy.deepcopy(a)}, 'span': span})
    bl['term'] = {'k': 'goto', 't': boff}


def _directly_recursive(b):
    for bi, c, t in b.calls(include_cleanup=True):
        if c is not None and (c.best_hash == b.hash or c.hash == b.hash):
            return True
    return False


def _fn_refs(F):
    """Hashes of functions whose address is taken (passed as a value)."""
    refs = set()
    def visit(o):
        if isinstance(o, dict):
            if o.get('k') == 'const' and 'fn' in o:
                fn = o['fn']
                refs.add((fn.get('res') or {}).get('hash') or fn.get('hash'))
            for v in o.values():
                visit(v)
        elif isinstance(o, list):
            for v in o:
                visit(v)
    for b in F.bodies:
        for bl in b.blocks:
            for st in bl['stmts']:
                visit(st)
            t = bl['term']
            if t:
                if t['k'] == 'call':
                    for a in t['args']:
                        visit(a)
                    if not (t['func'].get('k') == 'const' and 'fn' in t['func']):
                        visit(t['func'])
                else:
                    visit(t)
    return refs


def candidates(F, policy, baseline):
    from .lib import ctor_hashes
    ch = ctor_hashes(F)
    out = {}
    for b in F.bodies:
        if b.dk not in ('Fn', 'AssocFn') or b.impl_trait or F.item_is_exported(b):
            continue
        if b.hash in ch or len(b.blocks) > MAX_BLOCKS or _directly_recursive(b):
            continue
        if baseline is not None and b.path in baseline and b.name.startswith('new_') and any(c is not None and c.best_hash in ch and c.name.startswith('new_') for bi, c, t in b.calls()):
            # a checked / convenience wrapper of the pinned tree directly around a case constructor (new_with_assertions, ..) is an anchor
            # with rules of its own (what it validates, what it refuses): folding it into its callers would hide it from those rules.
            # Helpers a later edit introduces are not in the baseline list and are always folded.
            continue
        if policy == 'new-helpers' and (baseline is None or b.path in baseline):
            continue
        out[b.hash] = b
    return out


def load_baseline():
    p = os.path.join(os.path.dirname(os.path.dirname(os.path.abspath(__file__))), 'baseline_functions.json')
    if not os.path.exists(p):
        return None
    with open(p) as f:
        return set(json.load(f)['functions'])


def normal_form(F, policy):
    """-> (Facts', list of inlined helper paths) or (None, []) when the policy changes nothing."""
    cand = candidates(F, policy, load_baseline())
    if not cand:
        return None, []
    used = set()
    new_bodies = []
    for b in F.bodies:
        raw = None
        stacks = None
        progress = True
        while progress:
            progress = False
            src = raw or b.raw
            for bi in range(len(src['blocks'])):
                bl = src['blocks'][bi]
                t = bl['term']
                if not t or t['k'] != 'call':
                    continue
                f = t['func']
                if not (f.get('k') == 'const' and 'fn' in f):
                    continue
                fn = f['fn']
                h = (fn.get('res') or {}).get('hash') or fn.get('hash')
                H = cand.get(h)
                if H is None or H.hash == b.hash or len(t['args']) != H.arg_count:
                    continue
                if raw is None:
                    raw = copy.deepcopy(b.raw)
                    stacks = [()] * len(raw['blocks'])
                    src = raw
                if H.hash in stacks[bi] or len(stacks[bi]) >= MAX_DEPTH or len(raw['blocks']) > 4 * MAX_BLOCKS:
                    continue
                _inline_at(raw, bi, H.raw, stacks)
                used.add(H.path)
                progress = True
        new_bodies.append(factsmod.Body(raw, F.krate) if raw is not None else b)
    if not used:
        return None, []
    NF = F.derived(new_bodies)
    # helpers that are no longer called and whose address is never taken disappear
    refs = _fn_refs(NF)
    called = set()
    for b in NF.bodies:
        for bi, c, t in b.calls(include_cleanup=True):
            if c is not None:
                called.add(c.best_hash)
                called.add(c.hash)
    keep = [b for b in NF.bodies if not (b.hash in cand and b.path in used and b.hash not in called and b.hash not in refs)]
    NF = F.derived(keep)
    _KEEP.append(NF)
    return NF, sorted(used)


REPRESENTATIONS = ('new-helpers', 'lowered', 'new-helpers+lowered', 'all-helpers', 'all-helpers+lowered')


def representation(F, name):
    """-> (Facts', note) for a named normal form of F, or (None, why) when it is the same program as an earlier one."""
    from . import lower
    note = {}
    cur = F
    for step in name.split('+'):
        if step == 'lowered':
            L, n = lower.lowered(cur)
            if L is None:
                return None, 'no iterator chain to lower'
            note['chains_lowered'] = n
            cur = L
        else:
            NF, inl = normal_form(cur, step)
            if NF is None:
                return None, 'no helper to inline under policy %s' % step
            note['inlined'] = inl[:40]
            cur = NF
    return cur, note
