"""Shared rules for the obscuring machinery (C02, C03, C08, C13)."""
from .lib import *
from .terms import TermBuilder
from . import codec


def rec_call(t, fn_hash):
    """If t is a call of the function with hash fn_hash return its args."""
    if isinstance(t, tuple) and t and t[0] == 'call':
        c = CALLEES.get(t[1])
        if c is not None and c.best_hash == fn_hash:
            return t[2]
    return None


def own_digest_of(x, t):
    """t is the digest of envelope-term x: digest(x), or x's own stored digest field case(x).V.digest / digest(case(x).V.0)."""
    t = strip_sites(t)
    x = strip_sites(x)
    d = m_digest(t)
    if d is not None:
        if d == x:
            return True
        # digest(case(x).V.0) for payload-carrying variants
        if d[0] == 'vfield' and d[3] == '0' and d[2] in ('Assertion', 'Encrypted', 'Compressed'):
            a = m_call(d[1], name='case', self_suffix='Envelope')
            return a is not None and a[0] == x
        return False
    if t[0] == 'vfield' and t[3] in ('digest', '0'):
        if t[3] == '0' and t[2] != 'Elided':
            return False
        a = m_call(t[1], name='case', self_suffix='Envelope')
        return a is not None and a[0] == x
    return False


def variant_of_own_digest(t):
    t = strip_sites(t)
    d = m_digest(t)
    if d is not None and d[0] == 'vfield':
        return d[2]
    if t[0] == 'vfield':
        return t[2]
    return None


def payload_root(ctx, fl, payload, enc_terms):
    """Decompose an obscuring payload term.  Returns (root envelope term, how) or (None, reason).
    Accepted: to_cbor_data(tagged_cbor(X));  to_cbor_data(to_tagged_value(TAG_ENVELOPE, U)) with U == the encoder's own arm for a case of p1."""
    a = m_call(payload, name='to_cbor_data')
    if a is None:
        return None, 'payload is not a serialisation (to_cbor_data): %s' % fmt(payload)
    inner = a[0]
    tc = m_call(inner, name='tagged_cbor', trait='CBORTaggedEncodable')
    if tc is not None:
        c = callee_of(inner)
        st = c.args[0] if c and c.args else ''
        if not ty_matches(st, 'Envelope'):
            return None, 'tagged_cbor of a non-envelope (%s)' % st
        return tc[0], 'tagged_cbor'
    tv = m_call(inner, name='to_tagged_value')
    if tv is not None:
        tag = const_int(tv[0])
        env_tag = codec.first_tag_of(fl, ENVELOPE)
        if tag != env_tag:
            return None, 'hand-built payload is tagged %s, not the envelope tag %s' % (tag, env_tag)
        u = strip_into(strip_sites(tv[1]))
        for case, (val, site, _b, _bi) in enc_terms.items():
            if strip_into(strip_sites(val)) == u:
                return ('param', 1), 'hand-built = encoder arm %s' % case
        return None, 'hand-built payload body matches no encoder arm: %s' % fmt(tv[1])
    return None, 'payload form not recognised: %s' % fmt(inner)


def check_sinks(ctx, inst, want=('encrypt', 'compress', 'elide')):
    """C02.1/C02.2: census of digest-declaring sinks and payload/declared pairing at each."""
    F = ctx.F
    fl = [F, ctx.dep('bc_components'), ctx.dep('dcbor')]
    enc, enc_terms, problems = codec.encoder_table(ctx, fl)
    enc_terms = enc_terms or {}
    n = 0
    if 'encrypt' in want and ctx.has('encrypt'):
        sites = F.call_sites(lambda c: c.name == 'encrypt_with_digest' and c.is_method('SymmetricKey', 'encrypt_with_digest'))
        if not sites:
            ctx.lost(inst, 'no SymmetricKey::encrypt_with_digest call site')
        for b, bi, c, t in sites:
            tb = TermBuilder(F, b)
            args = tb.call_args(bi)
            key, payload, declared = args[0], args[1], args[2]
            root, how = payload_root(ctx, fl, payload, enc_terms)
            site = ctx.site(b, bi)
            n += 1
            if root is None:
                ctx.fail(inst, site, 'encrypt sink: ' + how, key='%s|enc|%s|payload' % (inst, b.path))
                continue
            if how.startswith('hand-built'):
                case = how.split()[-1]
                ok = own_digest_of(root, declared) and variant_of_own_digest(declared) in (case, None)
            else:
                ok = own_digest_of(root, declared)
            if ok:
                ctx.ok(inst, site, 'encrypt sink: payload = serialisation of X (%s), declared digest = digest of the same X = %s' % (how, fmt(root)),
                       sample={'payload': fmt(payload), 'declared': fmt(declared)})
            else:
                ctx.fail(inst, site, 'encrypt sink declares %s for payload %s (root %s): digest of a different element' % (fmt(declared), fmt(payload), fmt(root)),
                         key='%s|enc|%s|pair' % (inst, b.path))
    if 'compress' in want and ctx.has('compress'):
        sites = F.call_sites(lambda c: c.name == 'from_uncompressed_data' and c.is_method('Compressed', 'from_uncompressed_data'))
        if not sites:
            ctx.lost(inst, 'no Compressed::from_uncompressed_data call site')
        for b, bi, c, t in sites:
            tb = TermBuilder(F, b)
            args = tb.call_args(bi)
            payload, declared = args[0], args[1]
            site = ctx.site(b, bi)
            root, how = payload_root(ctx, fl, payload, enc_terms)
            n += 1
            if root is None:
                ctx.fail(inst, site, 'compress sink: ' + how, key='%s|cmp|%s|payload' % (inst, b.path))
                continue
            d = declared[3][0] if declared[0] == 'agg' and declared[2] == 'Some' else None
            if d is not None and own_digest_of(root, d):
                ctx.ok(inst, site, 'compress sink: payload = serialisation of X, declared = Some(digest(X)), X = %s' % fmt(root),
                       sample={'payload': fmt(payload), 'declared': fmt(declared)})
            else:
                ctx.fail(inst, site, 'compress sink declares %s for payload %s' % (fmt(declared), fmt(payload)), key='%s|cmp|%s|pair' % (inst, b.path))
    if 'elide' in want:
        # callers of the Elided constructor
        ctors = [s for s in agg_sites(F, CASE) if s[3]['variant'] == 'Elided']
        for cb, cbi, csi, rv in ctors:
            callers = F.callers().get(cb.hash, [])
            for b, bi in callers:
                tb = TermBuilder(F, b)
                args = tb.call_args(bi)
                site = ctx.site(b, bi)
                n += 1
                d = detry(args[0])
                if own_digest_of(('param', 1), d) and b.impl_self and ty_matches(b.impl_self, 'Envelope'):
                    ctx.ok(inst, site, 'elide sink: Elided(digest(self))')
                elif m_call(d, name='from_data_ref', self_suffix='Digest') is not None and b.impl_trait and b.impl_trait.endswith('CBORTaggedDecodable'):
                    ctx.ok(inst, site, 'elide sink in the decoder: digest taken from the input bytes (nothing to preserve)', nontrivial=False)
                else:
                    ctx.fail(inst, site, 'Elided(..) built from %s, not from the digest of the element being elided' % fmt(d), key='%s|eli|%s' % (inst, b.path))
    ctx.count('digest_declaring_sinks', n)


def obscure_fn(ctx, inst):
    F = ctx.F
    b = F.method1('Envelope', 'elide_set_with_action')
    if b is None:
        ctx.lost(inst, 'Envelope::elide_set_with_action')
        return None
    return b


def check_target_table(ctx, inst):
    """C03.1: (contains(target, digest(self)), is_revealing) -> obscure / recurse."""
    F = ctx.F
    b = obscure_fn(ctx, inst)
    if b is None:
        return
    tb = TermBuilder(F, b)
    contains_terms = find_terms(b, tb, lambda x: x[0] == 'call' and call_name(x) == 'contains')
    good_atoms = [x for x in contains_terms if x[2][0] == ('param', 2) and m_digest(x[2][1]) == ('param', 1)]
    if len(good_atoms) != 1:
        ctx.fail(inst, ctx.site(b), 'the membership test is not contains(target, digest(self)): %s' % [fmt(x) for x in contains_terms], key=inst + '|atom')
        return
    c_atom = good_atoms[0]
    r_atom = ('param', 3)
    obscure_lm = [bi for bi, dt in switch_on(tb, b, lambda d: strip_sites(d) == ('discr', ('param', 4)))]
    if not obscure_lm:
        # configuration with a single obscuring action (no encrypt / compress): there is no dispatch, the obscure region is the elide call
        obscure_lm = [bi for bi, c, t in b.calls() if c is not None and c.name in ('elide', 'new_elided') and strip_sites(tb.call_args(bi)[0]) in (('param', 1),) ]
    recurse_lm = [bi for bi, dt in switch_on(tb, b, lambda d: d[0] == 'discr' and m_call(d[1], name='case', self_suffix='Envelope') is not None)]
    if not obscure_lm or not recurse_lm:
        ctx.lost(inst, 'action dispatch / case dispatch landmarks')
        return
    expected = {(False, False): 'recurse', (False, True): 'obscure', (True, False): 'obscure', (True, True): 'recurse'}
    got = {}
    for c in (False, True):
        for r in (False, True):
            reach = reach_under(b, tb, {c_atom: c, r_atom: r}, stop_blocks=obscure_lm + recurse_lm)
            o = any(x in reach for x in obscure_lm)
            rc = any(x in reach for x in recurse_lm)
            got[(c, r)] = 'obscure' if (o and not rc) else 'recurse' if (rc and not o) else 'both' if (o and rc) else 'neither'
            # every path must arrive at the dispatch: an exit reachable without passing a landmark bypasses the target test's verdict
            rets = [i for i in b.normal_blocks() if (b.term(i) or {}).get('k') == 'return']
            if any(x in reach for x in rets):
                got[(c, r)] += '+bypass'
    if got == expected:
        ctx.ok(inst, ctx.site(b), 'target table (in-target, revealing) -> %s' % {('%d%d' % (int(k[0]), int(k[1]))): v for k, v in got.items()}, sample=str(got))
    else:
        ctx.fail(inst, ctx.site(b), 'target table is %s, expected %s' % (got, expected), key=inst + '|table')


def check_elide_primitive(ctx, inst):
    """Envelope::elide(): self if it already is an Elided element, otherwise Elided(digest(self)) - decided per case arm."""
    F = ctx.F
    b = F.method1('Envelope', 'elide')
    if b is None:
        ctx.lost(inst, 'Envelope::elide')
        return
    tb = TermBuilder(F, b)
    variants = adt_variants(F, CASE)
    P1 = ('param', 1)
    case_atoms = find_terms(b, tb, lambda x: x[0] == 'discr' and m_call(x[1], name='case', self_suffix='Envelope') is not None and strip_sites(m_call(x[1], name='case', self_suffix='Envelope')[0]) == P1)
    if len(case_atoms) != 1:
        ctx.fail(inst, ctx.site(b), 'elide() does not decide on the case of self alone', key=inst + '|elide_atoms')
        return
    bad = []
    for idx, vname in enumerate(variants):
        reach = reach_under(b, tb, {case_atoms[0]: idx})
        outs = set()
        for bi, si, t in ret_defs(tb):
            if bi not in reach:
                continue
            st = strip_sites(t)
            if st == P1:
                outs.add('self')
            else:
                a = m_call(st, name='new_elided')
                w = is_case_ctor_wrapper(st)
                if a is not None and own_digest_of(P1, a[0]):
                    outs.add('elided')
                elif w is not None and w[2] == 'Elided' and own_digest_of(P1, w[3][0]):
                    outs.add('elided')
                else:
                    outs.add('other:' + fmt(st))
        want = {'self'} if vname == 'Elided' else {'elided'}
        if outs != want:
            bad.append((vname, sorted(outs)))
    if bad:
        ctx.fail(inst, ctx.site(b), 'elide() must return Elided(digest(self)) for every case except an already elided element; got %s' % bad, key=inst + '|elide_table')
    else:
        ctx.ok(inst, ctx.site(b), 'elide(): Elided -> self; every other case -> Elided(digest(self)) (%d case valuations)' % len(variants))


def check_obscure_region(ctx, inst, arms=None):
    """C03.2/C02.2: each action arm applies a whole-element sink to self; no recursion inside."""
    F = ctx.F
    b = obscure_fn(ctx, inst)
    if b is None:
        return
    tb = TermBuilder(F, b)
    action_variants = None
    for a in F.adts:
        if a['path'].endswith('::ObscureAction'):
            action_variants = [v['name'] for v in a['variants']]
    if action_variants is None:
        ctx.lost(inst, 'ObscureAction ADT')
        return
    sw = [bi for bi, dt in switch_on(tb, b, lambda d: strip_sites(d) == ('discr', ('param', 4)))]
    if len(sw) != 1:
        if action_variants == ['Elide']:
            # single action: no dispatch; the obscuring exit must be Elided(digest(self))
            vals = [(bi, si, t) for bi, si, t in ret_defs(tb) if m_call(t, name='elide', self_suffix='Envelope') is not None or m_call(t, name='new_elided') is not None]
            good = [x for x in vals if strip_sites(x[2][2][0]) == ('param', 1) or own_digest_of(('param', 1), x[2][2][0])]
            if good and len(good) == len(vals):
                ctx.ok(inst, ctx.site(b, good[0][0], good[0][1]), 'single action Elide: the element is replaced by Elided(digest(self))')
            else:
                ctx.fail(inst, ctx.site(b), 'single-action configuration: obscuring exit is not elide(self)', key='%s|single' % inst)
            return
        ctx.lost(inst, 'action dispatch')
        return
    regs = arm_regions(b, sw[0])
    t = b.term(sw[0])
    tv = dict((v, bb) for v, bb in t['targets'])
    for idx, name in enumerate(action_variants):
        if arms is not None and name not in arms:
            continue
        if idx not in tv:
            if block_is_unreachable(b, t['otherwise']):
                ctx.fail(inst, ctx.site(b, sw[0]), 'no arm for action %s' % name, key='%s|noarm|%s' % (inst, name))
            continue
        tgt, reg = regs[idx]
        rds = arm_ret_values(b, tb, sw[0], idx)
        # recursion inside the obscure region?
        for bi in reg:
            c = b.callee(bi)
            if c is not None and c.best_hash == b.hash:
                ctx.fail(inst, ctx.site(b, bi), 'recursive call inside the %s arm of the obscure region' % name, key='%s|rec|%s' % (inst, name))
        if name == 'Compress' and len(rds) == 2:
            # `match self.compress() { Ok(c) => c, Err(_) => self.clone() }`: the fallible sink's payload on its Ok edge, self on its Err edge
            vs = [strip_sites(detry(r[2])) for r in rds]
            pay = [i for i, v in enumerate(vs) if m_call(v[1] if v[0] == 'vfield' and v[2] == 'Ok' else v, name='compress', self_suffix='Envelope') is not None]
            own = [i for i, v in enumerate(vs) if v == ('param', 1)]
            if len(pay) == 1 and len(own) == 1:
                pv = vs[pay[0]]
                ct = strip_sites(pv[1] if pv[0] == 'vfield' and pv[2] == 'Ok' else pv)
                okedge, _i1 = guard_dominates(b, tb, [rds[pay[0]][0]], lambda x: x[0] == 'discr' and strip_sites(detry(x[1])) == ct, 0)
                erredge, _i2 = guard_dominates(b, tb, [rds[own[0]][0]], lambda x: x[0] == 'discr' and strip_sites(detry(x[1])) == ct, 1)
                if strip_sites(m_call(ct, name='compress', self_suffix='Envelope')[0]) == ('param', 1) and okedge and erredge:
                    ctx.ok(inst, ctx.site(b, rds[pay[0]][0], rds[pay[0]][1]), 'action Compress replaces the whole element by compress(self) on its Ok edge and keeps self unchanged on its Err edge',
                           sample=fmt(pv))
                    continue
        if len(rds) != 1:
            ctx.fail(inst, ctx.site(b, tgt), 'action arm %s has %d results' % (name, len(rds)), key='%s|shape|%s' % (inst, name))
            continue
        val = rds[0][2]
        site = ctx.site(b, rds[0][0], rds[0][1])
        good = False
        why = fmt(val)
        P1 = ('param', 1)
        if name == 'Elide':
            a = m_call(val, name='elide', self_suffix='Envelope')
            if a is not None and strip_sites(a[0]) == P1:
                good = True
            else:
                a = m_call(val, name='new_elided')
                good = a is not None and own_digest_of(P1, a[0])
        elif name == 'Encrypt':
            v = val
            u = m_call(v, name='unwrap') or m_call(v, name='expect')
            if u is not None:
                v = u[0]
            a = m_call(detry(v), name='new_with_encrypted')
            if a is not None:
                e = m_call(a[0], name='encrypt_with_digest')
                if e is not None:
                    p = m_call(e[1], name='to_cbor_data')
                    tcb = m_call(p[0], name='tagged_cbor') if p else None
                    if tcb is not None and strip_sites(tcb[0]) == P1 and own_digest_of(P1, e[2]):
                        good = True
        elif name == 'Compress':
            v = val
            for wrapper in ('unwrap', 'expect', 'unwrap_or_else', 'unwrap_or'):
                u = m_call(v, name=wrapper)
                if u is not None:
                    # a fallback must be self unchanged
                    if wrapper in ('unwrap_or_else', 'unwrap_or'):
                        fb = u[1]
                        if fb[0] == 'closure':
                            cb = F.closure(fb[1])
                            crt = strip_sites(TermBuilder(F, cb).return_term()) if cb else None
                            fb_ok = crt is not None and crt[0] == 'upvar' and strip_sites(fb[2][crt[1]]) == P1
                        else:
                            fb_ok = strip_sites(fb) == P1
                        if not fb_ok:
                            why = 'fallback of the Compress arm is not the element itself: ' + fmt(val)
                            v = None
                            break
                    v = u[0]
                    break
            if v is not None:
                a = m_call(detry(v), name='compress', self_suffix='Envelope')
                good = a is not None and strip_sites(a[0]) == P1
        if good:
            ctx.ok(inst, site, 'action %s replaces the whole element by a digest-declaring sink applied to self: %s' % (name, fmt(val)), sample=fmt(val))
        else:
            ctx.fail(inst, site, 'action %s does not obscure the element as a whole with its own digest: %s' % (name, why), key='%s|arm|%s' % (inst, name))


CHILD_KINDS = ('Node.subject', 'Node.assertions', 'Assertion.predicate', 'Assertion.object', 'Wrapped.envelope')


def child_kind(t):
    """Classify a term rooted at a child of self (param 1): returns one of CHILD_KINDS or None."""
    t = strip_sites(t)
    if t[0] == 'elem':
        k = child_kind(t[1])
        return k
    if t[0] == 'vfield':
        a = m_call(t[1], name='case', self_suffix='Envelope')
        if a is not None and a[0] == ('param', 1):
            if t[2] == 'Node' and t[3] in ('subject', 'assertions'):
                return 'Node.' + t[3]
            if t[2] == 'Wrapped' and t[3] == 'envelope':
                return 'Wrapped.envelope'
        return None
    if t[0] == 'call':
        nm = call_name(t)
        if nm in ('predicate', 'object') and len(t[2]) == 1:
            x = t[2][0]
            if x[0] == 'vfield' and x[2] == 'Assertion' and x[3] == '0':
                a = m_call(x[1], name='case', self_suffix='Envelope')
                if a is not None and a[0] == ('param', 1):
                    return 'Assertion.' + nm
    return None


def check_rebuild(ctx, inst, inst_rec):
    """C02.4 (same-case constructor, positions kept, context unchanged) and C03.4 (all five child kinds recursed once)."""
    F = ctx.F
    b = obscure_fn(ctx, inst)
    if b is None:
        return
    tb = TermBuilder(F, b)
    ctx_args = (('param', 2), ('param', 3), ('param', 4))
    h = b.hash
    kinds_seen = {}

    def rec_of(t):
        """t == rec(child, ctx...) -> child kind, else None (records)."""
        a = rec_call(t, h)
        if a is None:
            return None
        if tuple(strip_sites(x) for x in a[1:]) != ctx_args:
            return 'ctx-changed'
        return child_kind(a[0])

    def rec_closure(clo):
        """closure mapping an element to rec(element, captured ctx)"""
        cb = F.closure(clo[1])
        if cb is None:
            return False
        ctb = TermBuilder(F, cb)
        rt = ctb.return_term()
        a = rec_call(rt, h)
        if a is None:
            return False
        if strip_sites(a[0]) != ('param', 2):
            return False
        caps = [strip_sites(x) for x in clo[2]]
        passed = []
        for x in a[1:]:
            x = strip_sites(x)
            if x[0] != 'upvar' or x[1] >= len(caps):
                return False
            passed.append(caps[x[1]])
        return tuple(passed) == ctx_args

    rdefs = ret_defs(tb)
    exits = []
    # exits that belong to the obscure region (the arms of the action dispatch; with a single action, the elide sink)
    region_exits = set()
    sw = [bi for bi, dt in switch_on(tb, b, lambda d: strip_sites(d) == ('discr', ('param', 4)))]
    if len(sw) == 1:
        tsw = b.term(sw[0])
        for v, _bb in list(tsw['targets']) + [('otherwise', None)]:
            for bi2, si2, _t in arm_ret_values(b, tb, sw[0], v):
                region_exits.add((bi2, si2))
    else:
        for bi2, si2, t2 in rdefs:
            if m_call(t2, name='elide', self_suffix='Envelope') is not None or m_call(t2, name='new_elided') is not None:
                region_exits.add((bi2, si2))
    for bi, si, t in rdefs:
        site = ctx.site(b, bi, si)
        st = strip_sites(t)
        if st == ('param', 1):
            exits.append(('self', site))
            ctx.ok(inst, site, 'non-recursive exit returns self unchanged')
            continue
        nm = call_name(t)
        if nm == 'new_with_assertion' or (nm == 'new' and m_call(t, name='new', self_suffix='Assertion') is not None):
            inner = t[2][0] if nm == 'new_with_assertion' else t
            a = m_call(inner, name='new', self_suffix='Assertion')
            if a is not None and rec_of(a[0]) == 'Assertion.predicate' and rec_of(a[1]) == 'Assertion.object':
                ctx.ok(inst, site, 'assertion rebuilt as Assertion::new(rec(predicate), rec(object)) with target/mode/action unchanged', sample=fmt(t))
                kinds_seen['Assertion.predicate'] = kinds_seen.get('Assertion.predicate', 0) + 1
                kinds_seen['Assertion.object'] = kinds_seen.get('Assertion.object', 0) + 1
            else:
                ctx.fail(inst, site, 'assertion arm is not Assertion::new(rec(predicate), rec(object)): %s' % fmt(t), key=inst + '|assertion')
            continue
        if nm == 'new_wrapped':
            if rec_of(t[2][0]) == 'Wrapped.envelope':
                ctx.ok(inst, site, 'wrapped rebuilt as wrapped(rec(envelope))', sample=fmt(t))
                kinds_seen['Wrapped.envelope'] = kinds_seen.get('Wrapped.envelope', 0) + 1
            else:
                ctx.fail(inst, site, 'wrapped arm is not wrapped(rec(envelope)): %s' % fmt(t), key=inst + '|wrapped')
            continue
        c = callee_of(t)
        node_ctor = c is not None and t[0] == 'call' and codec.ctor_variants(F, t) == {'Node'} and len(t[2]) == 2
        if node_ctor:
            s_ok = rec_of(t[2][0]) == 'Node.subject'
            # the assertion vector in sequence normal form: exactly rec(a, same context) for each a of the node's assertions
            # (map+collect, a push loop, extend, .. are the same sequence)
            a_ok = False
            parts = seq_norm(t[2][1], b, bi)
            if parts is not None and len(parts) == 1 and parts[0][0] == 'each':
                ra = rec_call(parts[0][1], h)
                if ra is not None and ra[0][0] == 'elem' and child_kind(ra[0][1]) == 'Node.assertions' and ra[0][1][0] != 'elem' \
                        and tuple(strip_sites(x) for x in ra[1:]) == ctx_args:
                    a_ok = True
            if s_ok and a_ok:
                ctx.ok(inst, site, 'node rebuilt as node(rec(subject), map(rec, assertions)) through the node constructor', sample=fmt(t))
                kinds_seen['Node.subject'] = kinds_seen.get('Node.subject', 0) + 1
                kinds_seen['Node.assertions'] = kinds_seen.get('Node.assertions', 0) + 1
            else:
                ctx.fail(inst, site, 'node arm is not node-constructor(rec(subject), map(rec, assertions)): %s' % fmt(t), key=inst + '|node')
            continue
        # obscure-region exits are judged by check_obscure_region
        if contains(t, lambda x: rec_call(x, h) is not None):
            ctx.fail(inst, site, 'recursive result rebuilt in an unrecognised way: %s' % fmt(t), key=inst + '|unknown')
        elif (bi, si) not in region_exits:
            # neither self, nor a same-case rebuild over recursed children, nor one of the action arms' whole-element sinks
            ctx.fail(inst, site, 'exit outside the obscure region returns %s: neither self unchanged nor the same case rebuilt over its recursed children' % fmt(t),
                     key=inst + '|foreign|' + fmt(st)[:80])
    for k in CHILD_KINDS:
        n = kinds_seen.get(k, 0)
        if n == 1:
            ctx.ok(inst_rec, ctx.site(b), 'child kind %s is recursed into exactly once' % k)
        else:
            ctx.fail(inst_rec, ctx.site(b), 'child kind %s is recursed into %d times (expected once): obscuring stops short of / repeats a position kind' % (k, n),
                     key='%s|%s' % (inst_rec, k))


def check_subject_encrypt_node(ctx, inst):
    """C02.3: the node arm of subject encryption rebuilds a node over the encrypted subject and the same node's assertions."""
    F = ctx.F
    if not ctx.has('encrypt'):
        ctx.skip(inst, 'encrypt compiled out')
        return
    b = F.method1('Envelope', 'encrypt_subject_opt')
    if b is None:
        ctx.lost(inst, 'Envelope::encrypt_subject_opt')
        return
    tb = TermBuilder(F, b)
    found = 0
    for bi, c, t in b.calls():
        if c is None:
            continue
        val = tb.call_value(bi)
        if t['dest']['p']:
            continue
        if codec.ctor_variants(F, val) == {'Node'} and len(val[2]) == 2:
            found += 1
            subj, asr = val[2]
            sv = subj
            u = m_call(sv, name='unwrap') or m_call(sv, name='expect')
            if u is not None:
                sv = u[0]
            e = m_call(detry(sv), name='new_with_encrypted')
            msg = m_call(e[0], name='encrypt_with_digest') if e else None
            ok_s = False
            if msg is not None:
                p = m_call(msg[1], name='to_cbor_data')
                tcb = m_call(p[0], name='tagged_cbor') if p else None
                ok_s = tcb is not None and child_kind(tcb[0]) == 'Node.subject'
            ok_a = child_kind(asr) == 'Node.assertions'
            if ok_s and ok_a:
                ctx.ok(inst, ctx.site(b, bi), 'node arm returns node(encrypted(subject), same assertions)', sample=fmt(val))
            else:
                ctx.fail(inst, ctx.site(b, bi), 'node arm of subject encryption does not rebuild node(encrypted(subject), the same assertions): %s' % fmt(val), key=inst)
        a = m_call(val, name='replace_subject', self_suffix='Envelope')
        if a is not None:
            found += 1
            sv = strip_sites(detry(a[1]))
            u = m_call(sv, name='unwrap') or m_call(sv, name='expect')
            if u is not None:
                sv = strip_sites(detry(u[0]))
            e = m_call(sv, name='new_with_encrypted')
            msg = m_call(strip_sites(detry(e[0])), name='encrypt_with_digest') if e else None
            ok_s = False
            if msg is not None:
                p = m_call(msg[1], name='to_cbor_data')
                tcb = m_call(p[0], name='tagged_cbor') if p else None
                ok_s = tcb is not None and child_kind(tcb[0]) == 'Node.subject' and own_digest_of(strip_sites(tcb[0]), msg[2])
            if ok_s and strip_sites(a[0]) == ('param', 1):
                ctx.ok(inst, ctx.site(b, bi), 'node arm returns replace_subject(self, encrypted subject)')
            else:
                ctx.fail(inst, ctx.site(b, bi), 'node arm of subject encryption replaces the subject by %s, which is not the subject\'s own encoding encrypted under the subject\'s own digest' % fmt(sv)[:200],
                         key=inst + '|replace')
    if found == 0:
        ctx.lost(inst, 'node rebuild in encrypt_subject_opt')


def check_replace_subject(ctx, inst):
    F = ctx.F
    P1 = ('param', 1)
    # replace_subject: node(new subject, the receiver's assertions) - the new subject must stay the subject even if it is a node
    b = F.method1('Envelope', 'replace_subject')
    if b is None:
        ctx.lost(inst, 'Envelope::replace_subject')
    else:
        tb = TermBuilder(F, b)
        alts = [strip_sites(x[2]) for x in ret_defs(tb)]
        bad = []
        nodes = 0
        for a in alts:
            if a == ('param', 2):
                continue
            if a[0] == 'call' and len(a[2]) == 2 and codec.ctor_variants(F, a) == {'Node'} and a[2][0] == ('param', 2):
                v = a[2][1]
                s_ = m_call(v, name='assertions', self_suffix='Envelope')
                if (s_ is not None and s_[0] == P1) or child_kind(v) == 'Node.assertions':
                    nodes += 1
                    continue
            bad.append(a)
        if bad or nodes == 0:
            ctx.fail(inst, ctx.site(b), 'replace_subject does not return node-constructor(new subject, assertions(self)) (a fold of add_assertion onto the new subject '
                     'merges into a node-valued subject and changes the digest): %s' % [fmt(x) for x in (bad or alts)], key=inst + '|replace_subject')
        else:
            ctx.ok(inst, ctx.site(b), 'replace_subject = new subject alone, or node-constructor(new subject, assertions(self))', sample=[fmt(x) for x in alts])
