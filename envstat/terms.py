"""Value recovery: for an operand at a program point, recover a normalised term describing how it was computed.

Terms are nested tuples:
  ('param', i) ('upvar', i) ('const', text) ('int', n) ('bool', b) ('fnref', path)
  ('call', key, args, site)            key = resolved callee path; site = (body path, block)
  ('mut', key, argidx, args, site)     value of a local after a call that received `&mut local` as args[argidx]
  ('vfield', base, variant, field)     field of an enum variant / struct (variant '' for structs)
  ('agg', adt, variant, fields) ('tuple', fields) ('array', fields) ('list', fields) ('closure', path, captures)
  ('binop', op, a, b) ('unop', op, a) ('discr', a) ('cast', a)
  ('elem', coll)                       an element of a collection (closure parameter of an adaptor, loop variable)
  ('phi', alts) ('rec',) ('undef',) ('unknown', why)
References, derefs, clones and the other entries of TRANSPARENT are erased.
"""
from .facts import Callee, ty_matches, strip_generics

TRANSPARENT_NAMES = {
    # (trait suffix or None, method name)
    ('Clone', 'clone'), ('ToOwned', 'to_owned'), ('Deref', 'deref'), ('DerefMut', 'deref_mut'),
    ('AsRef', 'as_ref'), ('AsMut', 'as_mut'), ('Borrow', 'borrow'), ('BorrowMut', 'borrow_mut'),
}
TRANSPARENT_PATHS = {
    'alloc::borrow::Cow::into_owned', 'alloc::rc::Rc::new', 'alloc::sync::Arc::new', 'alloc::boxed::Box::new',
    'core::option::Option::as_ref', 'core::result::Result::as_ref', 'core::option::Option::cloned',
    'core::option::Option::copied', 'alloc::vec::Vec::as_slice', 'alloc::vec::Vec::as_mut_slice',
    'alloc::slice::<impl [T]>::to_vec', 'alloc::string::String::as_str', 'core::convert::identity',
    'alloc::rc::Rc::as_ref', 'core::option::Option::as_deref', 'alloc::slice::<impl [T]>::into_vec',
    'alloc::vec::Vec::into_boxed_slice',
}
# iterator source adaptors: elem(into_iter(x)) == elem(x)
ITER_SOURCES = {'iter', 'into_iter', 'iter_mut', 'cloned', 'copied', 'by_ref', 'rev', 'peekable', 'drain', 'values', 'keys'}
NONMUTATING = {'next', 'deref_mut', 'index_mut', 'as_mut', 'borrow_mut', 'lock', 'get_mut', 'iter_mut', 'as_mut_slice',
               'by_ref', 'call_once', 'call_mut', 'fmt', 'write_fmt', 'write_str'}


CALLEES = {}
CONST_INTS = {}   # def path of an unevaluated integer constant -> its value
ENV_SRC = {}      # (body path, stripped operand term) -> source type of an into_envelope/to_envelope/Envelope::new conversion


def is_transparent(c: Callee):
    p = strip_generics(c.best)
    if p in TRANSPARENT_PATHS or strip_generics(c.path) in TRANSPARENT_PATHS:
        return True
    for tr, nm in TRANSPARENT_NAMES:
        if c.name == nm and c.is_trait_method(tr):
            return True
    # reflexive / reference conversions
    if c.name in ('into', 'from') and (c.is_trait_method('Into') or c.is_trait_method('From')):
        if len(c.args) >= 2:
            a, b = c.args[0], c.args[1]
            def norm(t):
                t = t.strip()
                while t.startswith('&'):
                    t = t[1:].lstrip()
                    if t.startswith("'"):
                        t = t.split(' ', 1)[1] if ' ' in t else t
                    if t.startswith('mut '):
                        t = t[4:]
                return t
            if norm(a) == norm(b):
                return True
    return False


def size(t, cap=100000):
    if not isinstance(t, tuple):
        return 1
    n = 1
    for x in t:
        if isinstance(x, tuple):
            n += size(x, cap)
            if n > cap:
                return n
    return n


def strip_sites(t):
    """Structural value without call-site identities."""
    if not isinstance(t, tuple):
        return t
    if t and t[0] == 'call':
        return ('call', t[1], tuple(strip_sites(a) for a in t[2]))
    if t and t[0] == 'mut':
        return ('mut', t[1], t[2], tuple(strip_sites(a) for a in t[3]))
    return tuple(strip_sites(x) for x in t)


def walk(t):
    """Pre-order traversal of sub-terms."""
    yield t
    if isinstance(t, tuple):
        for x in t[1:] if t and isinstance(t[0], str) else t:
            if isinstance(x, tuple):
                yield from walk(x)


def contains(t, pred):
    return any(pred(x) for x in walk(t) if isinstance(x, tuple) and x and isinstance(x[0], str))


def subst(t, mapping):
    """Replace ('param', i)/('upvar', i) according to mapping dict."""
    if not isinstance(t, tuple):
        return t
    if t and t[0] in ('param', 'upvar') and t in mapping:
        return mapping[t]
    return tuple(subst(x, mapping) if isinstance(x, tuple) else x for x in t)


def fmt(t, depth=0):
    if not isinstance(t, tuple) or not t:
        return repr(t)
    k = t[0]
    if depth > 12:
        return '…'
    d = depth + 1
    if k == 'param':
        return 'p%d' % t[1]
    if k == 'upvar':
        return 'up%d' % t[1]
    if k in ('const', 'fnref'):
        return str(t[1]).split('::')[-1] if k == 'const' else 'fn:' + strip_generics(t[1]).split('::')[-1]
    if k == 'int':
        return str(t[1])
    if k == 'bool':
        return 'true' if t[1] else 'false'
    if k == 'call':
        return '%s(%s)' % (short_key(t[1]), ', '.join(fmt(a, d) for a in t[2]))
    if k == 'mut':
        return '%s!%d(%s)' % (short_key(t[1]), t[2], ', '.join(fmt(a, d) for a in t[3]))
    if k == 'vfield':
        return '%s.%s%s' % (fmt(t[1], d), (t[2] + '.') if t[2] else '', t[3])
    if k == 'agg':
        return '%s%s{%s}' % (t[1].split('::')[-1], ('::' + t[2]) if t[2] else '', ', '.join(fmt(a, d) for a in t[3]))
    if k in ('tuple', 'array', 'list'):
        return '%s[%s]' % (k, ', '.join(fmt(a, d) for a in t[1]))
    if k == 'closure':
        return 'λ%s(%s)' % (t[1].split('::')[-1], ', '.join(fmt(a, d) for a in t[2]))
    if k == 'binop':
        return '%s(%s, %s)' % (t[1], fmt(t[2], d), fmt(t[3], d))
    if k == 'unop':
        return '%s(%s)' % (t[1], fmt(t[2], d))
    if k == 'discr':
        return 'discr(%s)' % fmt(t[1], d)
    if k == 'cast':
        return 'cast(%s)' % fmt(t[1], d)
    if k == 'elem':
        return 'elem(%s)' % fmt(t[1], d)
    if k in ('env', 'next', 'len', 'repeat', 'try'):
        return '%s(%s)' % (k, fmt(t[1], d))
    if k == 'callv':
        return 'callv(%s; %s)' % (fmt(t[1], d), ', '.join(fmt(a, d) for a in t[2]))
    if k == 'index':
        return '%s[%s]' % (fmt(t[1], d), fmt(t[2], d))
    if k == 'phi':
        return 'phi(%s)' % ' | '.join(fmt(a, d) for a in t[1])
    if k == 'unknown':
        return '?%s' % (t[1],)
    return k


def short_key(key):
    s = strip_generics(key)
    # `<impl Trait for Type>::name` -> Type::name
    parts = s.split('::')
    if len(parts) >= 2:
        return '::'.join(parts[-2:]) if not parts[-2].startswith('<impl') else parts[-1]
    return s


TERM_BUDGET = 60000       # the largest body of the pinned tree needs < 5000 definition visits


class TermBudgetExceeded(Exception):
    pass


class TermBuilder:
    def __init__(self, facts, body, closure_env=True):
        self.facts = facts
        self.body = body
        self.is_closure = body.dk == 'Closure'
        self._defs = None
        self._origin = None
        self._in = {}
        self._memo = {}
        self._stack = set()
        self.allowed = None      # when set: only definitions located in these blocks count as reaching (conditional evaluation)
        self.dead_edges = None   # when set: CFG edges known not to be taken under the valuation (reaching definitions do not flow along them)
        self.callees = CALLEES   # key -> Callee (shared registry)

    # ------------------------------------------------------------ definitions
    def _collect(self):
        body = self.body
        defs = {}      # local -> list of (block, idx, kind, payload)
        def add(l, d):
            defs.setdefault(l, []).append(d)
        # first pass: direct defs
        for bi, bl in enumerate(body.blocks):
            if bl['cleanup']:
                continue
            for si, st in enumerate(bl['stmts']):
                if st['k'] == 'assign':
                    pl = st['place']
                    if not pl['p']:
                        add(pl['l'], (bi, si, 'assign', st['rv']))
                    else:
                        # partial assignment (field / through pointer)
                        add(pl['l'], (bi, si, 'partial', st))
            t = bl['term']
            if t and t['k'] == 'call':
                pl = t['dest']
                if not pl['p']:
                    add(pl['l'], (bi, len(bl['stmts']), 'call', t))
                else:
                    add(pl['l'], (bi, len(bl['stmts']), 'partial_call', t))
        self._defs = defs
        # origin analysis for &mut references: local -> origin local
        origin = {}
        changed = True
        rounds = 0
        while changed and rounds < 20:
            changed = False
            rounds += 1
            for l, ds in defs.items():
                if l in origin:
                    continue
                # stores through the pointer do not redefine the pointer itself
                ds = [d for d in ds if not (d[2] == 'partial' and d[3]['place']['p'] and d[3]['place']['p'][0] == 'deref')]
                if len(ds) != 1:
                    continue
                bi, si, kind, payload = ds[0]
                o = None
                if kind == 'assign':
                    rv = payload
                    if rv['k'] in ('ref', 'rawptr') and rv.get('mut'):
                        pl = rv['place']
                        base = pl['l']
                        if not pl['p']:
                            o = base
                        elif pl['p'][0] == 'deref':
                            o = origin.get(base)
                        else:
                            # &mut local.field : mutation of part of local
                            o = base if all(e != 'deref' for e in pl['p']) else origin.get(base)
                    elif rv['k'] == 'use' and rv['op']['k'] in ('move', 'copy') and not rv['op']['place']['p']:
                        src = rv['op']['place']['l']
                        if src in origin:
                            o = origin[src]
                    elif rv['k'] == 'cast' and rv['op']['k'] in ('move', 'copy') and not rv['op']['place']['p']:
                        src = rv['op']['place']['l']
                        if src in origin:
                            o = origin[src]
                elif kind == 'call':
                    c = body.callee(bi)
                    if c is not None and c.name in ('deref_mut', 'as_mut', 'borrow_mut', 'index_mut', 'as_mut_slice', 'by_ref') and payload['args']:
                        a0 = payload['args'][0]
                        if a0['k'] in ('move', 'copy') and not a0['place']['p'] and a0['place']['l'] in origin:
                            ty = body.local_ty(l)
                            if ty.lstrip().startswith('&'):
                                o = origin[a0['place']['l']]
                if o is not None:
                    origin[l] = o
                    changed = True
        self._origin = origin
        # second pass: mutation defs
        for bi, bl in enumerate(body.blocks):
            if bl['cleanup']:
                continue
            t = bl['term']
            if t and t['k'] == 'call':
                c = body.callee(bi)
                if c is not None and c.name in NONMUTATING:
                    continue
                for ai, a in enumerate(t['args']):
                    if a['k'] in ('move', 'copy') and not a['place']['p']:
                        l = a['place']['l']
                        if l in origin and body.local_ty(l).lstrip().startswith('&') and 'mut ' in body.local_ty(l)[:12]:
                            add(origin[l], (bi, len(bl['stmts']), 'mutcall', (t, ai)))
        # stores through a `&mut` reference whose origin is a local:  (*r) = v   /  (*r).f = v
        for bi, bl in enumerate(body.blocks):
            if bl['cleanup']:
                continue
            for si, st in enumerate(bl['stmts']):
                if st['k'] == 'assign' and st['place']['p'] and st['place']['p'][0] == 'deref':
                    base = st['place']['l']
                    if base in origin and body.local_ty(base).lstrip().startswith('&'):
                        add(origin[base], (bi, si, 'storethrough', st))
        for l in defs:
            defs[l].sort(key=lambda d: (d[0], d[1]))

    def defs(self, l):
        if self._defs is None:
            self._collect()
        return self._defs.get(l, [])

    def origin(self, l):
        if self._defs is None:
            self._collect()
        return self._origin.get(l)

    def _out_sets(self, l):
        """Reaching definitions of local l at block entries: dict block -> frozenset of def indexes (or -1 = entry)."""
        ck = l if not self.dead_edges else (l, self.dead_edges)
        if ck in self._in:
            return self._in[ck]
        dead = self.dead_edges or ()
        body = self.body
        ds = self.defs(l)
        last_in_block = {}
        for i, d in enumerate(ds):
            last_in_block[d[0]] = i
        blocks = body.normal_blocks()
        IN = {b: set() for b in blocks}
        IN[0] = {-1}
        work = list(blocks)
        OUT = {}
        def out(b):
            if b in last_in_block:
                return {last_in_block[b]}
            return IN[b]
        changed = True
        while changed:
            changed = False
            for b in blocks:
                o = out(b)
                for s in body.succ(b):
                    if dead and (b, s) in dead:
                        continue
                    if s in IN and not o <= IN[s]:
                        IN[s] |= o
                        changed = True
        self._in[ck] = IN
        return IN

    def reaching(self, l, block, idx):
        """Definitions of l reaching program point (block, idx) (just before statement idx)."""
        ds = self.defs(l)
        best = None
        for i, d in enumerate(ds):
            if d[0] == block and d[1] < idx:
                best = i
        if best is not None:
            return [best]
        IN = self._out_sets(l)
        return sorted(IN.get(block, set()))

    # ------------------------------------------------------------ terms
    def local_term(self, l, block, idx):
        key = (l, block, idx)
        self._steps = getattr(self, '_steps', 0) + 1
        if self._steps > TERM_BUDGET:
            raise TermBudgetExceeded('value terms of %s exceed the evaluation budget (%d definition visits): the body is judged fail-closed' % (self.body.path, TERM_BUDGET))
        rs = self.reaching(l, block, idx)
        if self.allowed is not None:
            ds = self.defs(l)
            rs2 = [r for r in rs if r == -1 or ds[r][0] in self.allowed]
            if rs2:
                rs = rs2
        mk = (l, tuple(rs), self.allowed, self.dead_edges)
        if mk in self._memo:
            return self._memo[mk]
        if mk in self._stack:
            return ('rec',)
        self._stack.add(mk)
        try:
            alts = []
            for r in rs:
                if r == -1:
                    if 1 <= l <= self.body.arg_count:
                        alts.append(('param', l))
                    else:
                        alts.append(('undef',))
                else:
                    alts.append(self.def_term(l, self.defs(l)[r]))
            # drop undef alternatives when a real one exists (storage not yet initialised on some path)
            real = [a for a in alts if a != ('undef',)]
            if real:
                alts = real
            uniq = []
            for a in alts:
                if a not in uniq:
                    uniq.append(a)
            if not uniq:
                res = ('undef',)
            elif len(uniq) == 1:
                res = uniq[0]
            else:
                res = ('phi', tuple(sorted(uniq, key=repr)))
        finally:
            self._stack.discard(mk)
        if not contains(res, lambda x: x == ('rec',)):
            self._memo[mk] = res
        return res

    def def_term(self, l, d):
        bi, si, kind, payload = d
        if kind == 'assign':
            return self.rvalue_term(payload, bi, si)
        if kind == 'call':
            return self.call_term(payload, bi)
        if kind == 'mutcall':
            t, ai = payload
            c = self.body.callee(bi)
            key = c.best if c else 'indirect'
            if c:
                self.callees[key] = c
            args = []
            for j, a in enumerate(t['args']):
                if j == ai:
                    args.append(self.local_term(l, bi, si))
                else:
                    args.append(self.operand_term(a, bi, si))
            return ('mut', key, ai, tuple(args), (self.body.path, bi))
        if kind == 'storethrough':
            st = payload
            old = self.local_term(l, bi, si)
            how = self.local_term(st['place']['l'], bi, si)
            return ('mut', '*store', 0, (old, self.rvalue_term(st['rv'], bi, si), how), (self.body.path, bi))
        if kind == 'partial':
            st = payload
            old = self.local_term(l, bi, si)
            return ('partial', old, self._proj_desc(st['place']), self.rvalue_term(st['rv'], bi, si))
        if kind == 'partial_call':
            old = self.local_term(l, bi, si)
            return ('partial', old, self._proj_desc(payload['dest']), self.call_term(payload, bi))
        return ('unknown', kind)

    def _proj_desc(self, place):
        out = []
        for e in place['p']:
            if e == 'deref':
                continue
            if isinstance(e, dict) and 'f' in e:
                out.append(e['name'] or str(e['f']))
            elif isinstance(e, dict) and 'dc' in e:
                out.append('as ' + e['name'])
            else:
                out.append('[]')
        return tuple(out)

    def place_term(self, place, block, idx):
        l = place['l']
        proj = place['p']
        if self.is_closure and l == 1:
            # closure environment: (*_1).k (deref'd) is upvar k
            i = 0
            while i < len(proj) and proj[i] == 'deref':
                i += 1
            if i < len(proj) and isinstance(proj[i], dict) and 'f' in proj[i]:
                t = ('upvar', proj[i]['f'])
                rest = proj[i + 1:]
                return self._apply_proj(t, rest, block, idx)
        t = self.local_term(l, block, idx)
        return self._apply_proj(t, proj, block, idx)

    def _apply_proj(self, t, proj, block, idx):
        variant = ''
        for e in proj:
            if e == 'deref':
                continue
            if isinstance(e, dict) and 'dc' in e:
                variant = e['name']
                continue
            if isinstance(e, dict) and 'f' in e:
                fname = e['name'] or str(e['f'])
                t = self.simplify(('vfield', t, variant, fname))
                variant = ''
                continue
            if isinstance(e, dict) and 'idx' in e:
                t = ('index', t, self.local_term(e['idx'], block, idx))
                continue
            if isinstance(e, dict) and 'cidx' in e:
                t = ('index', t, ('int', -e['cidx'] - 1 if e['from_end'] else e['cidx']))
                continue
            if isinstance(e, dict) and 'sub_from' in e:
                if e['sub_to'] == 0 and e['from_end']:
                    # slice pattern `[a, b, rest @ ..]`: rest == x[k..]
                    t = ('index', t, ('agg', 'core::ops::range::RangeFrom', '', (('int', e['sub_from']),), ('start',)))
                else:
                    t = ('subslice', t, e['sub_from'], e['sub_to'], e['from_end'])
                continue
        if variant:
            t = ('variant', t, variant)
        return t

    def operand_term(self, op, block, idx):
        k = op['k']
        if k in ('copy', 'move'):
            return self.place_term(op['place'], block, idx)
        if k == 'const':
            if 'fn' in op:
                c = Callee(op['fn'])
                self.callees[c.best] = c
                return ('fnref', c.best)
            if 'def' in op:
                if 'int' in op:
                    CONST_INTS[op['def']] = op['int']
                return ('const', op['def'])
            if 'promoted' in op:
                pb = self.body.promoted[op['promoted']] if op['promoted'] < len(self.body.promoted) else None
                if pb is not None:
                    tb = TermBuilder(self.facts, pb)
                    rt = tb.return_term()
                    return rt
                return ('unknown', 'promoted')
            if 'bool' in op:
                return ('bool', op['bool'])
            if 'int' in op:
                return ('int', op['int'])
            if 'param' in op:
                return ('const', 'param:' + op['param'])
            return ('const', op.get('val', '?'))
        return ('unknown', k)

    def rvalue_term(self, rv, block, idx):
        k = rv['k']
        if k == 'use':
            return self.operand_term(rv['op'], block, idx)
        if k in ('ref', 'rawptr', 'copy_for_deref'):
            return self.place_term(rv['place'], block, idx)
        if k == 'cast':
            inner = self.operand_term(rv['op'], block, idx)
            if rv['ck'].startswith('PointerCoercion') or rv['ck'] in ('PtrToPtr', 'Transmute'):
                return inner
            return ('cast', inner)
        if k == 'binop':
            return self.simplify(('binop', rv['op'], self.operand_term(rv['a'], block, idx), self.operand_term(rv['b'], block, idx)))
        if k == 'unop':
            if rv['op'] == 'PtrMetadata':
                return ('len', self.operand_term(rv['a'], block, idx))
            return self.simplify(('unop', rv['op'], self.operand_term(rv['a'], block, idx)))
        if k == 'discr':
            return self.simplify(('discr', self.place_term(rv['place'], block, idx)))
        if k == 'agg':
            fields = tuple(self.operand_term(f, block, idx) for f in rv['fields'])
            ak = rv['ak']
            if ak == 'adt':
                adt = rv['adt']
                if adt == 'alloc::borrow::Cow' and len(fields) == 1:
                    return fields[0]
                return ('agg', adt, rv['variant'] if rv['variant'] != adt.split('::')[-1] else '', fields, tuple(rv.get('field_names', [])))
            if ak == 'tuple':
                return ('tuple', fields)
            if ak == 'array':
                return ('array', fields)
            if ak == 'closure':
                return ('closure', rv['closure'], fields)
            return ('unknown', 'agg:' + ak)
        if k == 'repeat':
            return ('repeat', self.operand_term(rv['op'], block, idx))
        return ('unknown', k)

    def call_term(self, t, block):
        body = self.body
        c = body.callee(block)
        n = len(body.blocks[block]['stmts'])
        args = tuple(self.operand_term(a, block, n) for a in t['args'])
        if c is None:
            # indirect call through a fn pointer / closure value
            f = self.operand_term(t['func'], block, n)
            return ('callv', f, args, (body.path, block))
        key = c.best
        self.callees[key] = c
        if is_transparent(c) and args:
            return args[0]
        sp = strip_generics(c.path)
        # vec![..] expansion
        if sp == 'alloc::boxed::box_assume_init_into_vec_unsafe':
            lst = self._vec_macro(t, block)
            if lst is not None:
                return lst
        if sp in ('alloc::slice::<impl [T]>::into_vec',) and args:
            return args[0]
        # envelope conversions that are the identity on envelopes
        if c.name in ('into_envelope', 'to_envelope') and c.is_trait_method('EnvelopeEncodable') and args:
            a0 = t['args'][0]
            ty = self._operand_ty(a0)
            if ty and ty_matches(ty, 'Envelope'):
                return args[0]
            ENV_SRC[(body.path, strip_sites(args[0]))] = ty or (c.args[0] if c.args else '')
            return ('env', args[0])
        if sp.endswith('::Envelope::new') and args:
            a0 = t['args'][0]
            ty = self._operand_ty(a0)
            if ty and ty_matches(ty, 'Envelope'):
                return args[0]
            ENV_SRC[(body.path, strip_sites(args[0]))] = ty or (c.args[0] if c.args else '')
            return ('env', args[0])
        if c.name == 'call' and c.is_trait_method('Fn') or c.name == 'call_mut' and c.is_trait_method('FnMut') or c.name == 'call_once' and c.is_trait_method('FnOnce'):
            return ('callv', args[0], args[1:], (body.path, block))
        # Iterator::next(it) -> option of elem
        if c.name == 'next' and c.is_trait_method('Iterator'):
            return ('next', elem_source(args[0], keep_hash=True))
        return ('call', key, args, (body.path, block))

    def _operand_ty(self, op):
        if op['k'] in ('copy', 'move'):
            pl = op['place']
            if not pl['p']:
                return self.body.local_ty(pl['l'])
            last = pl['p'][-1]
            if isinstance(last, dict) and 'ty' in last:
                return last['ty']
            return None
        return op.get('ty')

    def _vec_macro(self, t, block):
        """Recognise the `vec![a, b]` expansion ending in box_assume_init_into_vec_unsafe."""
        body = self.body
        a0 = t['args'][0]
        if a0['k'] not in ('move', 'copy'):
            return None
        # find the box local: chase moves
        l = a0['place']['l']
        seen = set()
        boxes = {l}
        work = [l]
        while work:
            x = work.pop()
            for d in self.defs(x):
                if d[2] == 'assign' and d[3]['k'] == 'use' and d[3]['op']['k'] in ('move', 'copy') and not d[3]['op']['place']['p']:
                    s = d[3]['op']['place']['l']
                    if s not in boxes:
                        boxes.add(s)
                        work.append(s)
        # raw pointers derived from the box
        ptrs = set()
        for pl, ds in self._defs.items():
            for d in ds:
                if d[2] == 'assign' and d[3]['k'] == 'cast' and d[3]['op']['k'] in ('move', 'copy') and d[3]['op']['place']['l'] in boxes:
                    ptrs.add(pl)
        found = []
        for pl in ptrs:
            for d in self.defs(pl):
                if d[2] == 'partial':
                    st = d[3]
                    if st['rv']['k'] == 'agg' and st['rv']['ak'] == 'array':
                        found.append((d[0], d[1], st['rv']))
        if len(found) != 1:
            return None
        bi, si, rv = found[0]
        return ('list', tuple(self.operand_term(f, bi, si) for f in rv['fields']))

    def simplify(self, t):
        k = t[0]
        if k == 'vfield':
            base = t[1]
            if base and base[0] == 'agg':
                names = base[4] if len(base) > 4 else ()
                if (t[2] == '' or t[2] == base[2] or base[2] == '') and t[3] in names:
                    return base[3][names.index(t[3])]
                if t[3].isdigit() and int(t[3]) < len(base[3]) and (t[2] == '' or t[2] == base[2] or base[2] == ''):
                    return base[3][int(t[3])]
            if base and base[0] == 'tuple' and t[3].isdigit() and int(t[3]) < len(base[1]):
                return base[1][int(t[3])]
            # slice destructuring: first(x).Some.0 == x[0];  split_first(x).Some.0 == (x[0], x[1..])
            if base and base[0] == 'vfield' and base[2] == 'Some' and base[3] == '0' and t[2] == '' and t[3] in ('0', '1') \
                    and base[1] and base[1][0] == 'call' and strip_generics(base[1][1]).endswith('::split_first') and len(base[1][2]) == 1:
                x = base[1][2][0]
                if t[3] == '0':
                    return ('index', x, ('int', 0))
                return ('index', x, ('agg', 'core::ops::range::RangeFrom', '', (('int', 1),), ('start',)))
            if t[2] == 'Some' and t[3] == '0' and base and base[0] == 'call' and strip_generics(base[1]).endswith('::first') and 'slice' in base[1] and len(base[2]) == 1:
                return ('index', base[2][0], ('int', 0))
            # captured variable of a closure value built in this body (closure bodies inlined by a normal form)
            if base and base[0] == 'closure' and t[3].isdigit() and int(t[3]) < len(base[2]):
                return base[2][int(t[3])]
            # checked arithmetic: (AddWithOverflow(a, b)).0 -> Add(a, b)
            if base and base[0] == 'binop' and base[1].endswith('WithOverflow') and t[3] == '0':
                return ('binop', base[1][:-len('WithOverflow')], base[2], base[3])
            # ((next(it)) as Some).0  -> elem(it)
            if base and base[0] == 'next' and t[2] == 'Some':
                return ('elem', base[1])
            return t
        if k == 'unop' and t[1] == 'Not':
            a = t[2]
            if a[0] == 'bool':
                return ('bool', not a[1])
            if a[0] == 'unop' and a[1] == 'Not':
                return a[2]
        return t

    # ------------------------------------------------------------ convenience
    def return_blocks(self):
        return [i for i in self.body.normal_blocks() if (self.body.term(i) or {}).get('k') == 'return']

    def return_term(self):
        rb = self.return_blocks()
        alts = []
        for b in rb:
            n = len(self.body.blocks[b]['stmts'])
            alts.append(self.local_term(0, b, n))
        uniq = []
        for a in alts:
            if a not in uniq:
                uniq.append(a)
        if not uniq:
            return ('undef',)
        if len(uniq) == 1:
            return uniq[0]
        return ('phi', tuple(sorted(uniq, key=repr)))

    def call_args(self, block):
        t = self.body.term(block)
        n = len(self.body.blocks[block]['stmts'])
        return tuple(self.operand_term(a, block, n) for a in t['args'])

    def call_value(self, block):
        return self.call_term(self.body.term(block), block)


def _is_hash_iter(key):
    c = CALLEES.get(key)
    if c is None:
        return False
    tys = ' '.join([c.self_ty or ''] + list(c.args) + [c.raw.get('impl_self') or ''])
    return ('HashMap<' in tys or 'HashSet<' in tys or 'hash::map::' in c.best or 'hash::set::' in c.best) and 'btree' not in c.best


def elem_source(t, keep_hash=False):
    """Strip iterator-source adaptors: into_iter(x), iter(x), cloned(x) -> x.
    With keep_hash the iteration call over a std HashMap/HashSet is kept (its order is a property of interest)."""
    while isinstance(t, tuple) and t:
        if keep_hash and t[0] == 'call' and _is_hash_iter(t[1]):
            break
        if t[0] == 'call' and strip_generics(t[1]).split('::')[-1] in ITER_SOURCES and t[2]:
            t = t[2][0]
            continue
        if t[0] == 'mut' and strip_generics(t[1]).split('::')[-1] in ('next',):
            t = t[3][t[2]]
            continue
        if t[0] == 'phi':
            # loop-carried iterator: phi(into_iter(x), rec)
            alts = [a for a in t[1] if a != ('rec',)]
            if len(alts) == 1:
                t = alts[0]
                continue
        break
    return t


def phi_alts(t):
    if isinstance(t, tuple) and t and t[0] == 'phi':
        out = []
        for a in t[1]:
            out.extend(phi_alts(a))
        return out
    return [t]


def call_name(t):
    """Last path segment of a call/mut term's callee."""
    if isinstance(t, tuple) and t and t[0] in ('call', 'mut'):
        return strip_generics(t[1]).split('::')[-1]
    return None
