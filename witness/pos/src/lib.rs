//! Compile-time witness (C20.5): with the `multithreaded` feature the envelope types are Send + Sync.
use bc_envelope::prelude::*;
use bc_envelope::Assertion;
fn assert_send_sync<T: Send + Sync>() {}
pub fn witness() {
    assert_send_sync::<Envelope>();
    assert_send_sync::<Assertion>();
    assert_send_sync::<FormatContext>();
}
