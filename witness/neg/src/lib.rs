//! Compile-FAIL witness (C20.5): without the `multithreaded` feature `Envelope` is Rc-based and must NOT be Send
//! (error E0277). The compiling twin is ../pos, which differs only by the feature.
use bc_envelope::prelude::*;
fn assert_send<T: Send>() {}
pub fn witness() {
    assert_send::<Envelope>();
}
