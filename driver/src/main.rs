// envfacts: rustc_private driver that dumps resolved MIR + item facts as JSON.
//
// Invoked as RUSTC_WRAPPER / RUSTC_WORKSPACE_WRAPPER:  envfacts <rustc> <args...>
// Env:
//   ENVFACTS_CRATES  comma list of crate names to dump (others are compiled by the real rustc)
//   ENVFACTS_OUT     output directory; file <crate>.json is written (one write, atomically)
//   ENVFACTS_NONCE   opaque string copied into the fact file
#![feature(rustc_private)]
#![allow(rustc::internal)]

extern crate rustc_abi;
extern crate rustc_driver;
extern crate rustc_hir;
extern crate rustc_interface;
extern crate rustc_middle;
extern crate rustc_session;
extern crate rustc_span;

use rustc_driver::Compilation;
use rustc_hir::def::DefKind;
use rustc_hir::def_id::DefId;
use rustc_middle::mir::{self, Body, Operand, Place, ProjectionElem, Rvalue, StatementKind, TerminatorKind};
use rustc_middle::ty::print::{with_crate_prefix, with_no_trimmed_paths, with_no_visible_paths, PrintTraitRefExt};
use rustc_middle::ty::{self, Ty, TyCtxt};
use rustc_span::Span;
use std::collections::{BTreeMap, BTreeSet};
use std::fmt::Write as _;

// ---------------------------------------------------------------- JSON

enum J {
    Null,
    Bool(bool),
    Int(i128),
    Str(String),
    Arr(Vec<J>),
    Obj(Vec<(&'static str, J)>),
}

fn s(x: impl Into<String>) -> J {
    J::Str(x.into())
}

fn esc(out: &mut String, t: &str) {
    out.push('"');
    for c in t.chars() {
        match c {
            '"' => out.push_str("\\\""),
            '\\' => out.push_str("\\\\"),
            '\n' => out.push_str("\\n"),
            '\r' => out.push_str("\\r"),
            '\t' => out.push_str("\\t"),
            c if (c as u32) < 0x20 => {
                let _ = write!(out, "\\u{:04x}", c as u32);
            }
            c => out.push(c),
        }
    }
    out.push('"');
}

impl J {
    fn write(&self, out: &mut String) {
        match self {
            J::Null => out.push_str("null"),
            J::Bool(b) => out.push_str(if *b { "true" } else { "false" }),
            J::Int(i) => {
                let _ = write!(out, "{}", i);
            }
            J::Str(t) => esc(out, t),
            J::Arr(v) => {
                out.push('[');
                for (i, x) in v.iter().enumerate() {
                    if i > 0 {
                        out.push(',');
                    }
                    x.write(out);
                }
                out.push(']');
            }
            J::Obj(v) => {
                out.push('{');
                for (i, (k, x)) in v.iter().enumerate() {
                    if i > 0 {
                        out.push(',');
                    }
                    esc(out, k);
                    out.push(':');
                    x.write(out);
                }
                out.push('}');
            }
        }
    }
}

// ---------------------------------------------------------------- printing helpers

struct Cx<'tcx> {
    tcx: TyCtxt<'tcx>,
    krate: String,
}

impl<'tcx> Cx<'tcx> {
    fn fix(&self, p: String) -> String {
        // local paths are printed with a `crate::` prefix; make them absolute
        let k = format!("{}::", self.krate);
        let mut out = String::with_capacity(p.len() + 16);
        let b = p.as_bytes();
        let mut i = 0;
        while i < b.len() {
            if p[i..].starts_with("crate::") && (i == 0 || !(b[i - 1].is_ascii_alphanumeric() || b[i - 1] == b'_')) {
                out.push_str(&k);
                i += 7;
            } else {
                let ch = p[i..].chars().next().unwrap();
                out.push(ch);
                i += ch.len_utf8();
            }
        }
        out
    }

    fn path(&self, did: DefId) -> String {
        let p = with_no_visible_paths!(with_no_trimmed_paths!(with_crate_prefix!(self.tcx.def_path_str(did))));
        self.fix(p)
    }

    fn ty(&self, t: Ty<'tcx>) -> String {
        let p = with_no_visible_paths!(with_no_trimmed_paths!(with_crate_prefix!(t.to_string())));
        self.fix(p)
    }

    fn hash(&self, did: DefId) -> String {
        let h = self.tcx.def_path_hash(did);
        format!("{:?}", h.0)
    }

    fn krate_of(&self, did: DefId) -> String {
        self.tcx.crate_name(did.krate).to_string()
    }

    fn span(&self, sp: Span) -> J {
        let sm = self.tcx.sess.source_map();
        let from_exp = sp.from_expansion();
        let mac = if from_exp {
            let mut cur = sp;
            let mut name = String::new();
            // outermost macro
            loop {
                let ed = cur.ctxt().outer_expn_data();
                if ed.is_root() {
                    break;
                }
                if let rustc_span::ExpnKind::Macro(_, n) = ed.kind {
                    name = n.to_string();
                } else if let rustc_span::ExpnKind::Desugaring(d) = ed.kind {
                    if name.is_empty() {
                        name = format!("desugar:{:?}", d);
                    }
                }
                cur = ed.call_site;
            }
            name
        } else {
            String::new()
        };
        // report the location of the outermost call site (user-visible source)
        let user = sp.source_callsite();
        let lo = sm.lookup_char_pos(user.lo());
        let file = format!("{}", lo.file.name.prefer_local_unconditionally());
        J::Obj(vec![
            ("file", s(file)),
            ("line", J::Int(lo.line as i128)),
            ("col", J::Int(lo.col.0 as i128 + 1)),
            ("exp", J::Bool(from_exp)),
            ("mac", s(mac)),
        ])
    }

    // information about a function-like definition used as a callee or item
    fn fn_info(&self, did: DefId, args: Option<ty::GenericArgsRef<'tcx>>) -> Vec<(&'static str, J)> {
        let tcx = self.tcx;
        let mut v: Vec<(&'static str, J)> = vec![
            ("path", s(self.path(did))),
            ("krate", s(self.krate_of(did))),
            ("hash", s(self.hash(did))),
        ];
        let name = tcx.opt_item_name(did).map(|n| n.to_string()).unwrap_or_default();
        v.push(("name", s(name)));
        let dk = tcx.def_kind(did);
        v.push(("dk", s(format!("{:?}", dk))));
        if let Some(a) = args {
            let mut av = vec![];
            for ga in a.iter() {
                match ga.kind() {
                    ty::GenericArgKind::Type(t) => av.push(s(self.ty(t))),
                    ty::GenericArgKind::Const(c) => av.push(s(format!("const {}", c))),
                    ty::GenericArgKind::Lifetime(_) => {}
                }
            }
            v.push(("args", J::Arr(av)));
        }
        if matches!(dk, DefKind::AssocFn | DefKind::AssocConst { .. }) {
            let parent = tcx.parent(did);
            match tcx.def_kind(parent) {
                DefKind::Trait => {
                    v.push(("trait", s(self.path(parent))));
                    if let Some(a) = args {
                        if a.len() > 0 {
                            if let Some(t) = a.get(0).and_then(|g| g.as_type()) {
                                v.push(("self_ty", s(self.ty(t))));
                            }
                        }
                    }
                }
                DefKind::Impl { of_trait } => {
                    let st = tcx.type_of(parent).instantiate_identity().skip_norm_wip();
                    v.push(("impl_self", s(self.ty(st))));
                    if of_trait {
                        let tr = tcx.impl_trait_ref(parent).instantiate_identity().skip_norm_wip();
                        v.push(("impl_trait", s(self.path(tr.def_id))));
                        let trs = with_no_visible_paths!(with_no_trimmed_paths!(with_crate_prefix!(
                            tr.print_only_trait_path().to_string()
                        )));
                        v.push(("impl_trait_full", s(self.fix(trs))));
                    }
                }
                _ => {}
            }
        }
        if matches!(dk, DefKind::Closure) {
            let parent = tcx.parent(did);
            v.push(("closure_parent", s(self.path(parent))));
        }
        v
    }

    fn callee(&self, did: DefId, args: ty::GenericArgsRef<'tcx>, env: ty::TypingEnv<'tcx>) -> J {
        let tcx = self.tcx;
        let mut v = self.fn_info(did, Some(args));
        let dk = tcx.def_kind(did);
        if matches!(dk, DefKind::Fn | DefKind::AssocFn) {
            // try resolve to the implementation
            let res = std::panic::catch_unwind(std::panic::AssertUnwindSafe(|| {
                ty::Instance::try_resolve(tcx, env, did, args)
            }));
            match res {
                Ok(Ok(Some(inst))) => {
                    let rdid = inst.def_id();
                    let kind = match inst.def {
                        ty::InstanceKind::Item(_) => "item",
                        ty::InstanceKind::Virtual(..) => "virtual",
                        ty::InstanceKind::Intrinsic(_) => "intrinsic",
                        ty::InstanceKind::ClosureOnceShim { .. } => "closure_once_shim",
                        ty::InstanceKind::FnPtrShim(..) => "fn_ptr_shim",
                        ty::InstanceKind::CloneShim(..) => "clone_shim",
                        ty::InstanceKind::DropGlue(..) => "drop_glue",
                        ty::InstanceKind::ReifyShim(..) => "reify_shim",
                        ty::InstanceKind::VTableShim(..) => "vtable_shim",
                        _ => "other",
                    };
                    let mut r = self.fn_info(rdid, Some(inst.args));
                    r.push(("kind", s(kind)));
                    v.push(("res", J::Obj(r)));
                }
                Ok(Ok(None)) => v.push(("res", J::Null)),
                _ => v.push(("res", J::Null)),
            }
        }
        J::Obj(v)
    }
}

// ---------------------------------------------------------------- MIR dump

struct BodyCx<'a, 'tcx> {
    cx: &'a Cx<'tcx>,
    body: &'a Body<'tcx>,
    env: ty::TypingEnv<'tcx>,
}

impl<'a, 'tcx> BodyCx<'a, 'tcx> {
    fn place(&self, p: &Place<'tcx>) -> J {
        let mut proj = vec![];
        let mut cur_ty = mir::PlaceTy::from_ty(self.body.local_decls[p.local].ty);
        for elem in p.projection.iter() {
            let j = match elem {
                ProjectionElem::Deref => s("deref"),
                ProjectionElem::Field(f, t) => {
                    // try to name the field
                    let mut name = String::new();
                    if let ty::Adt(adt, _) = cur_ty.ty.kind() {
                        let vi = cur_ty.variant_index.unwrap_or(rustc_abi::FIRST_VARIANT);
                        if adt.is_enum() || adt.is_struct() || adt.is_union() {
                            if let Some(var) = adt.variants().get(vi) {
                                if let Some(fd) = var.fields.get(f) {
                                    name = fd.name.to_string();
                                }
                            }
                        }
                    }
                    J::Obj(vec![("f", J::Int(f.index() as i128)), ("name", s(name)), ("ty", s(self.cx.ty(t)))])
                }
                ProjectionElem::Downcast(sym, vi) => J::Obj(vec![
                    ("dc", J::Int(vi.index() as i128)),
                    ("name", s(sym.map(|x| x.to_string()).unwrap_or_default())),
                ]),
                ProjectionElem::Index(l) => J::Obj(vec![("idx", J::Int(l.index() as i128))]),
                ProjectionElem::ConstantIndex { offset, min_length, from_end } => J::Obj(vec![
                    ("cidx", J::Int(offset as i128)),
                    ("min", J::Int(min_length as i128)),
                    ("from_end", J::Bool(from_end)),
                ]),
                ProjectionElem::Subslice { from, to, from_end } => J::Obj(vec![
                    ("sub_from", J::Int(from as i128)),
                    ("sub_to", J::Int(to as i128)),
                    ("from_end", J::Bool(from_end)),
                ]),
                ProjectionElem::OpaqueCast(_) => s("opaque_cast"),
                ProjectionElem::UnwrapUnsafeBinder(_) => s("unwrap_binder"),
            };
            proj.push(j);
            cur_ty = cur_ty.projection_ty(self.cx.tcx, elem);
        }
        J::Obj(vec![("l", J::Int(p.local.index() as i128)), ("p", J::Arr(proj))])
    }

    fn constant(&self, c: &mir::ConstOperand<'tcx>) -> J {
        let tcx = self.cx.tcx;
        let ty = c.const_.ty();
        let mut v: Vec<(&'static str, J)> = vec![("k", s("const")), ("ty", s(self.cx.ty(ty)))];
        if let ty::FnDef(did, args) = ty.kind() {
            v.push(("fn", self.cx.callee(*did, args, self.env)));
            return J::Obj(v);
        }
        match c.const_ {
            mir::Const::Unevaluated(uv, _) => {
                if let Some(p) = uv.promoted {
                    v.push(("promoted", J::Int(p.index() as i128)));
                } else {
                    v.push(("def", s(self.cx.path(uv.def))));
                    v.push(("def_hash", s(self.cx.hash(uv.def))));
                    if (ty.is_integral() || ty.is_bool()) && uv.args.is_empty() {
                        if let Some(si) = c.const_.try_eval_scalar_int(tcx, self.env) {
                            let size = si.size();
                            if ty.is_signed() {
                                v.push(("int", J::Int(si.to_int(size))));
                            } else {
                                let u = si.to_uint(size);
                                if u <= i128::MAX as u128 {
                                    v.push(("int", J::Int(u as i128)));
                                }
                            }
                        }
                    }
                }
            }
            mir::Const::Val(val, _) => {
                if let Some(si) = val.try_to_scalar_int() {
                    let size = si.size();
                    if ty.is_signed() {
                        v.push(("int", J::Int(si.to_int(size))));
                    } else if ty.is_bool() {
                        v.push(("int", J::Int(si.to_uint(size) as i128)));
                        v.push(("bool", J::Bool(si.to_uint(size) != 0)));
                    } else if size.bytes() <= 16 {
                        let u = si.to_uint(size);
                        if u <= i128::MAX as u128 {
                            v.push(("int", J::Int(u as i128)));
                        }
                    }
                }
                if let mir::ConstValue::Slice { .. } = val {
                    // string literal / byte string
                }
            }
            mir::Const::Ty(_, ct) => {
                if let ty::ConstKind::Param(p) = ct.kind() {
                    v.push(("param", s(p.name.to_string())));
                }
            }
        }
        let disp = with_no_trimmed_paths!(format!("{}", c.const_));
        let disp = if disp.len() > 200 { disp[..disp.char_indices().nth(200).map(|x| x.0).unwrap_or(disp.len())].to_string() } else { disp };
        v.push(("val", s(disp)));
        let _ = tcx;
        J::Obj(v)
    }

    fn operand(&self, o: &Operand<'tcx>) -> J {
        match o {
            Operand::Copy(p) => J::Obj(vec![("k", s("copy")), ("place", self.place(p))]),
            Operand::Move(p) => J::Obj(vec![("k", s("move")), ("place", self.place(p))]),
            Operand::Constant(c) => self.constant(c),
            Operand::RuntimeChecks(rc) => J::Obj(vec![("k", s("runtime_checks")), ("val", s(format!("{:?}", rc)))]),
        }
    }

    fn rvalue(&self, rv: &Rvalue<'tcx>) -> J {
        let tcx = self.cx.tcx;
        match rv {
            Rvalue::Use(o, _) => J::Obj(vec![("k", s("use")), ("op", self.operand(o))]),
            Rvalue::Repeat(o, _) => J::Obj(vec![("k", s("repeat")), ("op", self.operand(o))]),
            Rvalue::Ref(_, bk, p) => J::Obj(vec![
                ("k", s("ref")),
                ("mut", J::Bool(matches!(bk, mir::BorrowKind::Mut { .. }))),
                ("place", self.place(p)),
            ]),
            Rvalue::ThreadLocalRef(d) => J::Obj(vec![("k", s("tls")), ("def", s(self.cx.path(*d)))]),
            Rvalue::RawPtr(k, p) => J::Obj(vec![
                ("k", s("rawptr")),
                ("mut", J::Bool(matches!(k, mir::RawPtrKind::Mut))),
                ("place", self.place(p)),
            ]),
            Rvalue::Cast(ck, o, t) => J::Obj(vec![
                ("k", s("cast")),
                ("ck", s(format!("{:?}", ck))),
                ("op", self.operand(o)),
                ("ty", s(self.cx.ty(*t))),
            ]),
            Rvalue::BinaryOp(op, ab) => J::Obj(vec![
                ("k", s("binop")),
                ("op", s(format!("{:?}", op))),
                ("a", self.operand(&ab.0)),
                ("b", self.operand(&ab.1)),
            ]),
            Rvalue::UnaryOp(op, a) => {
                J::Obj(vec![("k", s("unop")), ("op", s(format!("{:?}", op))), ("a", self.operand(a))])
            }
            Rvalue::Discriminant(p) => J::Obj(vec![("k", s("discr")), ("place", self.place(p))]),
            Rvalue::Aggregate(ak, fields) => {
                let mut v: Vec<(&'static str, J)> = vec![("k", s("agg"))];
                match &**ak {
                    mir::AggregateKind::Array(t) => {
                        v.push(("ak", s("array")));
                        v.push(("ty", s(self.cx.ty(*t))));
                    }
                    mir::AggregateKind::Tuple => v.push(("ak", s("tuple"))),
                    mir::AggregateKind::Adt(did, vi, args, _, _) => {
                        v.push(("ak", s("adt")));
                        v.push(("adt", s(self.cx.path(*did))));
                        v.push(("adt_hash", s(self.cx.hash(*did))));
                        let adt = tcx.adt_def(*did);
                        let var = adt.variant(*vi);
                        v.push(("variant", s(var.name.to_string())));
                        v.push(("vidx", J::Int(vi.index() as i128)));
                        v.push(("field_names", J::Arr(var.fields.iter().map(|f| s(f.name.to_string())).collect())));
                        let mut av = vec![];
                        for ga in args.iter() {
                            if let ty::GenericArgKind::Type(t) = ga.kind() {
                                av.push(s(self.cx.ty(t)));
                            }
                        }
                        v.push(("args", J::Arr(av)));
                    }
                    mir::AggregateKind::Closure(did, _) => {
                        v.push(("ak", s("closure")));
                        v.push(("closure", s(self.cx.path(*did))));
                        v.push(("closure_hash", s(self.cx.hash(*did))));
                    }
                    mir::AggregateKind::Coroutine(did, _) | mir::AggregateKind::CoroutineClosure(did, _) => {
                        v.push(("ak", s("coroutine")));
                        v.push(("closure", s(self.cx.path(*did))));
                    }
                    mir::AggregateKind::RawPtr(..) => v.push(("ak", s("rawptr"))),
                }
                v.push(("fields", J::Arr(fields.iter().map(|o| self.operand(o)).collect())));
                J::Obj(v)
            }
            Rvalue::CopyForDeref(p) => J::Obj(vec![("k", s("copy_for_deref")), ("place", self.place(p))]),
            Rvalue::WrapUnsafeBinder(o, _) => J::Obj(vec![("k", s("wrap_binder")), ("op", self.operand(o))]),
        }
    }

    fn unwind(&self, u: &mir::UnwindAction) -> J {
        match u {
            mir::UnwindAction::Cleanup(bb) => J::Int(bb.index() as i128),
            mir::UnwindAction::Continue => s("continue"),
            mir::UnwindAction::Unreachable => s("unreachable"),
            mir::UnwindAction::Terminate(_) => s("terminate"),
        }
    }

    fn terminator(&self, t: &mir::Terminator<'tcx>) -> J {
        let sp = self.cx.span(t.source_info.span);
        match &t.kind {
            TerminatorKind::Goto { target } => J::Obj(vec![("k", s("goto")), ("t", J::Int(target.index() as i128))]),
            TerminatorKind::SwitchInt { discr, targets } => {
                let mut tv = vec![];
                for (val, bb) in targets.iter() {
                    tv.push(J::Arr(vec![J::Int(val as i128), J::Int(bb.index() as i128)]));
                }
                let dty = discr.ty(self.body, self.cx.tcx);
                J::Obj(vec![
                    ("k", s("switch")),
                    ("discr", self.operand(discr)),
                    ("dty", s(self.cx.ty(dty))),
                    ("targets", J::Arr(tv)),
                    ("otherwise", J::Int(targets.otherwise().index() as i128)),
                    ("span", sp),
                ])
            }
            TerminatorKind::UnwindResume => J::Obj(vec![("k", s("resume"))]),
            TerminatorKind::UnwindTerminate(_) => J::Obj(vec![("k", s("terminate"))]),
            TerminatorKind::Return => J::Obj(vec![("k", s("return")), ("span", sp)]),
            TerminatorKind::Unreachable => J::Obj(vec![("k", s("unreachable"))]),
            TerminatorKind::Drop { place, target, unwind, .. } => J::Obj(vec![
                ("k", s("drop")),
                ("place", self.place(place)),
                ("t", J::Int(target.index() as i128)),
                ("unwind", self.unwind(unwind)),
                ("span", sp),
            ]),
            TerminatorKind::Call { func, args, destination, target, unwind, fn_span, .. } => J::Obj(vec![
                ("k", s("call")),
                ("func", self.operand(func)),
                ("args", J::Arr(args.iter().map(|a| self.operand(&a.node)).collect())),
                ("dest", self.place(destination)),
                ("t", target.map(|b| J::Int(b.index() as i128)).unwrap_or(J::Null)),
                ("unwind", self.unwind(unwind)),
                ("span", sp),
                ("fn_span", self.cx.span(*fn_span)),
            ]),
            TerminatorKind::TailCall { func, args, .. } => J::Obj(vec![
                ("k", s("tailcall")),
                ("func", self.operand(func)),
                ("args", J::Arr(args.iter().map(|a| self.operand(&a.node)).collect())),
                ("span", sp),
            ]),
            TerminatorKind::Assert { cond, expected, msg, target, unwind } => {
                let kind = match &**msg {
                    mir::AssertKind::BoundsCheck { .. } => "bounds".to_string(),
                    mir::AssertKind::Overflow(op, _, _) => format!("overflow:{:?}", op),
                    mir::AssertKind::OverflowNeg(_) => "overflow_neg".to_string(),
                    mir::AssertKind::DivisionByZero(_) => "div_zero".to_string(),
                    mir::AssertKind::RemainderByZero(_) => "rem_zero".to_string(),
                    mir::AssertKind::MisalignedPointerDereference { .. } => "misaligned".to_string(),
                    mir::AssertKind::NullPointerDereference => "null_deref".to_string(),
                    mir::AssertKind::InvalidEnumConstruction(_) => "invalid_enum".to_string(),
                    _ => "other".to_string(),
                };
                let mut ops = vec![];
                match &**msg {
                    mir::AssertKind::BoundsCheck { len, index } => {
                        ops.push(self.operand(len));
                        ops.push(self.operand(index));
                    }
                    mir::AssertKind::Overflow(_, a, b) => {
                        ops.push(self.operand(a));
                        ops.push(self.operand(b));
                    }
                    _ => {}
                }
                J::Obj(vec![
                    ("k", s("assert")),
                    ("cond", self.operand(cond)),
                    ("expected", J::Bool(*expected)),
                    ("msg", s(kind)),
                    ("ops", J::Arr(ops)),
                    ("t", J::Int(target.index() as i128)),
                    ("unwind", self.unwind(unwind)),
                    ("span", sp),
                ])
            }
            TerminatorKind::FalseEdge { real_target, .. } => {
                J::Obj(vec![("k", s("goto")), ("t", J::Int(real_target.index() as i128))])
            }
            TerminatorKind::FalseUnwind { real_target, .. } => {
                J::Obj(vec![("k", s("goto")), ("t", J::Int(real_target.index() as i128))])
            }
            TerminatorKind::Yield { .. } => J::Obj(vec![("k", s("yield"))]),
            TerminatorKind::CoroutineDrop => J::Obj(vec![("k", s("coroutine_drop"))]),
            TerminatorKind::InlineAsm { .. } => J::Obj(vec![("k", s("asm")), ("span", sp)]),
        }
    }

    fn dump(&self) -> Vec<(&'static str, J)> {
        let body = self.body;
        let mut names: BTreeMap<usize, String> = BTreeMap::new();
        for vdi in &body.var_debug_info {
            if let mir::VarDebugInfoContents::Place(p) = &vdi.value {
                if p.projection.is_empty() {
                    names.entry(p.local.index()).or_insert_with(|| vdi.name.to_string());
                }
            }
        }
        let mut upvars = vec![];
        for vdi in &body.var_debug_info {
            if let mir::VarDebugInfoContents::Place(p) = &vdi.value {
                if p.local.index() == 1 && !p.projection.is_empty() {
                    upvars.push(J::Obj(vec![("name", s(vdi.name.to_string())), ("place", self.place(p))]));
                }
            }
        }
        let mut locals = vec![];
        for (l, d) in body.local_decls.iter_enumerated() {
            locals.push(J::Obj(vec![
                ("ty", s(self.cx.ty(d.ty))),
                ("name", names.get(&l.index()).map(|n| s(n.clone())).unwrap_or(J::Null)),
                ("mut", J::Bool(d.mutability.is_mut())),
            ]));
        }
        let mut blocks = vec![];
        for (_bb, data) in body.basic_blocks.iter_enumerated() {
            let mut stmts = vec![];
            for st in &data.statements {
                match &st.kind {
                    StatementKind::Assign(b) => {
                        let (p, rv) = &**b;
                        stmts.push(J::Obj(vec![
                            ("k", s("assign")),
                            ("place", self.place(p)),
                            ("rv", self.rvalue(rv)),
                            ("span", self.cx.span(st.source_info.span)),
                        ]));
                    }
                    StatementKind::SetDiscriminant { place, variant_index } => {
                        stmts.push(J::Obj(vec![
                            ("k", s("set_discr")),
                            ("place", self.place(place)),
                            ("vidx", J::Int(variant_index.index() as i128)),
                        ]));
                    }
                    StatementKind::StorageDead(l) => {
                        stmts.push(J::Obj(vec![("k", s("dead")), ("l", J::Int(l.index() as i128))]));
                    }
                    StatementKind::StorageLive(l) => {
                        stmts.push(J::Obj(vec![("k", s("live")), ("l", J::Int(l.index() as i128))]));
                    }
                    StatementKind::Intrinsic(i) => {
                        stmts.push(J::Obj(vec![("k", s("intrinsic")), ("val", s(format!("{:?}", i)))]));
                    }
                    _ => {}
                }
            }
            let term = data.terminator.as_ref().map(|t| self.terminator(t)).unwrap_or(J::Null);
            blocks.push(J::Obj(vec![("cleanup", J::Bool(data.is_cleanup)), ("stmts", J::Arr(stmts)), ("term", term)]));
        }
        vec![
            ("arg_count", J::Int(body.arg_count as i128)),
            ("locals", J::Arr(locals)),
            ("upvars", J::Arr(upvars)),
            ("blocks", J::Arr(blocks)),
        ]
    }
}

// ---------------------------------------------------------------- HIR unsafe scan

struct UnsafeScan<'a, 'tcx> {
    cx: &'a Cx<'tcx>,
    found: Vec<J>,
}

impl<'a, 'tcx> rustc_hir::intravisit::Visitor<'tcx> for UnsafeScan<'a, 'tcx> {
    type NestedFilter = rustc_middle::hir::nested_filter::All;
    fn maybe_tcx(&mut self) -> Self::MaybeTyCtxt {
        self.cx.tcx
    }
    fn visit_block(&mut self, b: &'tcx rustc_hir::Block<'tcx>) {
        if let rustc_hir::BlockCheckMode::UnsafeBlock(src) = b.rules {
            if matches!(src, rustc_hir::UnsafeSource::UserProvided) {
                self.found.push(J::Obj(vec![("what", s("unsafe_block")), ("span", self.cx.span(b.span))]));
            }
        }
        rustc_hir::intravisit::walk_block(self, b);
    }
    fn visit_item(&mut self, it: &'tcx rustc_hir::Item<'tcx>) {
        match &it.kind {
            rustc_hir::ItemKind::Impl(imp) => {
                if let Some(tr) = imp.of_trait {
                    if matches!(tr.safety, rustc_hir::Safety::Unsafe) {
                        self.found.push(J::Obj(vec![("what", s("unsafe_impl")), ("span", self.cx.span(it.span))]));
                    }
                }
            }
            rustc_hir::ItemKind::Fn { sig, .. } => {
                if sig.header.is_unsafe() {
                    self.found.push(J::Obj(vec![("what", s("unsafe_fn")), ("span", self.cx.span(it.span))]));
                }
            }
            rustc_hir::ItemKind::Static(m, ..) => {
                if matches!(m, rustc_hir::Mutability::Mut) {
                    self.found.push(J::Obj(vec![("what", s("static_mut")), ("span", self.cx.span(it.span))]));
                }
            }
            _ => {}
        }
        rustc_hir::intravisit::walk_item(self, it);
    }
    fn visit_impl_item(&mut self, it: &'tcx rustc_hir::ImplItem<'tcx>) {
        if let rustc_hir::ImplItemKind::Fn(sig, _) = &it.kind {
            if sig.header.is_unsafe() {
                self.found.push(J::Obj(vec![("what", s("unsafe_fn")), ("span", self.cx.span(it.span))]));
            }
        }
        rustc_hir::intravisit::walk_impl_item(self, it);
    }
}

// ---------------------------------------------------------------- type tree (for interior mutability scan)

fn type_tree<'tcx>(cx: &Cx<'tcx>, roots: Vec<Ty<'tcx>>) -> J {
    let tcx = cx.tcx;
    let mut seen: BTreeSet<String> = BTreeSet::new();
    let mut out = vec![];
    let mut work: Vec<Ty<'tcx>> = roots;
    while let Some(t) = work.pop() {
        let key = cx.ty(t);
        if !seen.insert(key.clone()) {
            continue;
        }
        match t.kind() {
            ty::Adt(adt, args) => {
                let path = cx.path(adt.did());
                let krate = cx.krate_of(adt.did());
                let stdlike = matches!(krate.as_str(), "std" | "core" | "alloc");
                let mut children = vec![];
                let mut variants = vec![];
                if stdlike {
                    // do not look inside std containers; walk their type arguments
                    for ga in args.iter() {
                        if let ty::GenericArgKind::Type(a) = ga.kind() {
                            children.push(s(cx.ty(a)));
                            work.push(a);
                        }
                    }
                } else {
                    for var in adt.variants() {
                        let mut fts = vec![];
                        for f in &var.fields {
                            let ft = f.ty(tcx, args);
                            let ft = tcx
                                .try_normalize_erasing_regions(ty::TypingEnv::fully_monomorphized(), ty::Unnormalized::new_wip(ft))
                                .unwrap_or(ft);
                            children.push(s(cx.ty(ft)));
                            fts.push(J::Obj(vec![("name", s(f.name.to_string())), ("ty", s(cx.ty(ft)))]));
                            work.push(ft);
                        }
                        variants.push(J::Obj(vec![("name", s(var.name.to_string())), ("fields", J::Arr(fts))]));
                    }
                }
                out.push(J::Obj(vec![
                    ("ty", s(key)),
                    ("adt", s(path)),
                    ("krate", s(krate)),
                    ("opaque", J::Bool(stdlike)),
                    ("children", J::Arr(children)),
                    ("variants", J::Arr(variants)),
                ]));
            }
            ty::Ref(_, inner, _) | ty::RawPtr(inner, _) | ty::Slice(inner) | ty::Array(inner, _) => {
                out.push(J::Obj(vec![("ty", s(key)), ("kind", s("ptr_or_seq")), ("children", J::Arr(vec![s(cx.ty(*inner))]))]));
                work.push(*inner);
            }
            ty::Tuple(ts) => {
                let mut children = vec![];
                for a in ts.iter() {
                    children.push(s(cx.ty(a)));
                    work.push(a);
                }
                out.push(J::Obj(vec![("ty", s(key)), ("kind", s("tuple")), ("children", J::Arr(children))]));
            }
            ty::Dynamic(..) => {
                out.push(J::Obj(vec![("ty", s(key)), ("kind", s("dyn")), ("children", J::Arr(vec![]))]));
            }
            _ => {
                out.push(J::Obj(vec![("ty", s(key)), ("kind", s("leaf")), ("children", J::Arr(vec![]))]));
            }
        }
    }
    J::Arr(out)
}

// ---------------------------------------------------------------- per-crate dump

fn dump_crate<'tcx>(tcx: TyCtxt<'tcx>, features: &[String]) -> String {
    let krate = tcx.crate_name(rustc_hir::def_id::LOCAL_CRATE).to_string();
    let cx = Cx { tcx, krate: krate.clone() };
    let ev = tcx.effective_visibilities(());

    let mut items = vec![];
    let mut bodies = vec![];
    let mut adts = vec![];
    let mut statics = vec![];
    let mut impls = vec![];
    let mut roots: Vec<Ty<'tcx>> = vec![];

    // items: all local defs
    for ldid in tcx.hir_crate_items(()).definitions() {
        let did = ldid.to_def_id();
        let dk = tcx.def_kind(did);
        match dk {
            DefKind::Struct | DefKind::Enum | DefKind::Union => {
                let adt = tcx.adt_def(did);
                let mut vars = vec![];
                for var in adt.variants() {
                    let mut fs = vec![];
                    for f in &var.fields {
                        let ft = tcx.type_of(f.did).instantiate_identity().skip_norm_wip();
                        fs.push(J::Obj(vec![
                            ("name", s(f.name.to_string())),
                            ("ty", s(cx.ty(ft))),
                            ("pub", J::Bool(f.vis.is_public())),
                        ]));
                    }
                    vars.push(J::Obj(vec![("name", s(var.name.to_string())), ("fields", J::Arr(fs))]));
                }
                adts.push(J::Obj(vec![
                    ("path", s(cx.path(did))),
                    ("hash", s(cx.hash(did))),
                    ("kind", s(format!("{:?}", dk))),
                    ("exported", J::Bool(ev.is_reachable(ldid))),
                    ("variants", J::Arr(vars)),
                    ("span", cx.span(tcx.def_span(did))),
                ]));
                if tcx.generics_of(did).own_params.iter().all(|p| matches!(p.kind, ty::GenericParamDefKind::Lifetime)) {
                    roots.push(tcx.type_of(did).instantiate_identity().skip_norm_wip());
                }
            }
            DefKind::Static { mutability, .. } => {
                let t = tcx.type_of(did).instantiate_identity().skip_norm_wip();
                statics.push(J::Obj(vec![
                    ("path", s(cx.path(did))),
                    ("hash", s(cx.hash(did))),
                    ("ty", s(cx.ty(t))),
                    ("mut", J::Bool(mutability.is_mut())),
                    ("span", cx.span(tcx.def_span(did))),
                ]));
            }
            DefKind::Impl { of_trait } => {
                let st = tcx.type_of(did).instantiate_identity().skip_norm_wip();
                let mut v = vec![("path", s(cx.path(did))), ("self", s(cx.ty(st))), ("span", cx.span(tcx.def_span(did)))];
                if of_trait {
                    let tr = tcx.impl_trait_ref(did).instantiate_identity().skip_norm_wip();
                    v.push(("trait", s(cx.path(tr.def_id))));
                    let trs = with_no_visible_paths!(with_no_trimmed_paths!(with_crate_prefix!(
                        tr.print_only_trait_path().to_string()
                    )));
                    v.push(("trait_full", s(cx.fix(trs))));
                }
                impls.push(J::Obj(v));
            }
            DefKind::Fn | DefKind::AssocFn => {
                let mut v = cx.fn_info(did, None);
                let vis = tcx.visibility(did);
                v.push(("pub", J::Bool(vis.is_public())));
                v.push(("exported", J::Bool(ev.is_reachable(ldid))));
                let sig = tcx.fn_sig(did).instantiate_identity().skip_norm_wip().skip_binder();
                v.push(("inputs", J::Arr(sig.inputs().iter().map(|t| s(cx.ty(*t))).collect())));
                v.push(("output", s(cx.ty(sig.output()))));
                let has_self = if dk == DefKind::AssocFn { tcx.associated_item(did).is_method() } else { false };
                v.push(("has_self", J::Bool(has_self)));
                v.push(("has_body", J::Bool(tcx.hir_maybe_body_owned_by(ldid).is_some())));
                v.push(("doc_hidden", J::Bool(tcx.is_doc_hidden(did))));
                v.push(("span", cx.span(tcx.def_span(did))));
                items.push(J::Obj(v));
            }
            _ => {}
        }
    }

    // bodies
    for ldid in tcx.hir_body_owners() {
        let did = ldid.to_def_id();
        let dk = tcx.def_kind(did);
        let is_fn_like = matches!(dk, DefKind::Fn | DefKind::AssocFn | DefKind::Closure);
        let is_const = matches!(dk, DefKind::Const { .. } | DefKind::AssocConst { .. });
        if !is_fn_like && !is_const {
            continue;
        }
        if tcx.is_constructor(did) {
            continue;
        }
        let body: &Body<'tcx> = if is_const { tcx.mir_for_ctfe(did) } else { tcx.optimized_mir(did) };
        let env = ty::TypingEnv::post_analysis(tcx, did);
        let bcx = BodyCx { cx: &cx, body, env };
        let mut v = cx.fn_info(did, None);
        v.push(("span", cx.span(tcx.def_span(did))));
        v.extend(bcx.dump());
        // promoted
        let proms = tcx.promoted_mir(did);
        let mut pv = vec![];
        for pb in proms.iter() {
            let pcx = BodyCx { cx: &cx, body: pb, env };
            pv.push(J::Obj(pcx.dump()));
        }
        v.push(("promoted", J::Arr(pv)));
        bodies.push(J::Obj(v));
    }

    // unsafe scan
    let mut us = UnsafeScan { cx: &cx, found: vec![] };
    tcx.hir_walk_toplevel_module(&mut us);

    let tree = type_tree(&cx, roots);

    let nonce = std::env::var("ENVFACTS_NONCE").unwrap_or_default();
    let top = J::Obj(vec![
        ("krate", s(krate)),
        ("nonce", s(nonce)),
        ("features", J::Arr(features.iter().map(|f| s(f.clone())).collect())),
        ("items", J::Arr(items)),
        ("adts", J::Arr(adts)),
        ("statics", J::Arr(statics)),
        ("impls", J::Arr(impls)),
        ("unsafe", J::Arr(us.found)),
        ("type_tree", tree),
        ("bodies", J::Arr(bodies)),
    ]);
    let mut out = String::new();
    top.write(&mut out);
    out
}

struct Dump {
    features: Vec<String>,
}

impl rustc_driver::Callbacks for Dump {
    fn after_analysis<'tcx>(&mut self, _c: &rustc_interface::interface::Compiler, tcx: TyCtxt<'tcx>) -> Compilation {
        if tcx.dcx().has_errors().is_some() {
            return Compilation::Continue;
        }
        let out = dump_crate(tcx, &self.features);
        let dir = std::env::var("ENVFACTS_OUT").unwrap_or_else(|_| ".".into());
        let krate = tcx.crate_name(rustc_hir::def_id::LOCAL_CRATE).to_string();
        let _ = std::fs::create_dir_all(&dir);
        let tmp = format!("{}/.{}.json.tmp{}", dir, krate, std::process::id());
        let fin = format!("{}/{}.json", dir, krate);
        std::fs::write(&tmp, out).expect("write facts");
        std::fs::rename(&tmp, &fin).expect("rename facts");
        Compilation::Continue
    }
}

fn main() {
    let mut args: Vec<String> = std::env::args().collect();
    // wrapper mode: argv[1] is the real rustc
    if args.len() < 2 {
        eprintln!("usage: envfacts <rustc> <args>");
        std::process::exit(2);
    }
    let real = args.remove(1);
    let mut crate_name = None;
    let mut features = vec![];
    let mut is_bin_or_build = false;
    let mut i = 1;
    while i < args.len() {
        if args[i] == "--crate-name" && i + 1 < args.len() {
            crate_name = Some(args[i + 1].clone());
        }
        if args[i] == "--cfg" && i + 1 < args.len() && args[i + 1].starts_with("feature=") {
            features.push(args[i + 1].trim_start_matches("feature=").trim_matches('"').to_string());
        }
        if args[i] == "--crate-type" && i + 1 < args.len() && args[i + 1] == "bin" {
            is_bin_or_build = true;
        }
        if args[i] == "--test" {
            is_bin_or_build = true;
        }
        i += 1;
    }
    let wanted: Vec<String> =
        std::env::var("ENVFACTS_CRATES").unwrap_or_default().split(',').map(|x| x.trim().to_string()).collect();
    let dump = match &crate_name {
        Some(n) => wanted.iter().any(|w| w == n) && !is_bin_or_build,
        None => false,
    };
    if !dump {
        // pass through to the real compiler
        let st = std::process::Command::new(&real).args(&args[1..]).status().expect("spawn rustc");
        std::process::exit(st.code().unwrap_or(1));
    }
    features.sort();
    let mut cb = Dump { features };
    let code = rustc_driver::catch_with_exit_code(|| rustc_driver::run_compiler(&args, &mut cb));
    std::process::exit(if code == std::process::ExitCode::SUCCESS { 0 } else { 1 });
}
